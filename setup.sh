#!/bin/sh
# Build the overlay venv: /venv's python + z3-solver/cvc5/icontract/crosshair from the offline wheelhouse,
# with /venv's site-packages (numpy, xarray, dask, xeofs editable -> /repo) visible through a .pth file.
set -e
cd "$(dirname "$0")"
V=.venv
if [ -x "$V/bin/python" ] && "$V/bin/python" -c "import z3, cvc5, xeofs, numpy" 2>/dev/null; then exit 0; fi
rm -rf "$V"
/venv/bin/python -m venv "$V"
PIP_NO_INDEX=1 "$V/bin/pip" install -q --no-index --find-links /opt/veriftools/wheels z3-solver cvc5 icontract >/dev/null
SP=$("$V/bin/python" -c "import site; print(site.getsitepackages()[0])")
echo "import site; site.addsitedir('/venv/lib/python3.12/site-packages')" > "$SP/_overlay.pth"
"$V/bin/python" -c "import z3, cvc5, xeofs, numpy; print('venv ok', z3.get_version_string(), xeofs.__file__)"

"""C17 Unusable input is rejected with an error, never answered with numbers.

Deductive (refusal contracts as pairs "returns => input valid" / "valid => no refusal"): sanity_check_n_modes,
convert_to_dim_type, validate_input_type over every type case with symbolic values; Decomposer / _SVD rank and solver
refusals, Whitener alpha (shared traces with C01/C15/C16); CPCCA._compute_cross_covariance_numpy sample counts;
EOF._inverse_transform_algorithm on score arrays with arbitrary mode labels (xarray's label selection / inner join
modelled); _check_parameter_number / Preprocessor.transform item count with a symbolic list length.
Bounded: single-fault mutations of valid calls on real fitted models of every class.
"""
import numpy as np
import xarray as xr
import z3

import xeofs
import xeofs.cross.cpcca as cpmod
import xeofs.preprocessing.preprocessor as ppmod
import xeofs.single.eof as eofmod
import xeofs.utils.sanity_checks as scmod
import xeofs.utils.xarray_utils as xumod

from vf import real
from vf.contracts.common import Agg, DecomposerStub, F, S, std_names, struct_vc
from vf.report import Result
from vf.sym import terms as tm
from vf.sym.core import PBool, PNum, PStr, PathLimit, assume, ctx, explore, patched_globals, use_ctx
from vf.sym.nd import SymND
from vf.sym.prove import prove_scalar
from vf.sym.terms import named_ext
from vf.sym.xda import mk_da

LEVEL = "other"
EXPLANATION = ("contracts: part proved, part bounded. Proved: the validators and the refusal branches of the decomposition / whitening / cross-covariance kernels return exactly "
               "for valid arguments (all type cases, symbolic values) and the reconstruction refuses unknown mode labels; the "
               "end-to-end behaviour of every public entry point under single-fault mutations is evaluated on real models")
n, p = named_ext("n"), named_ext("p")


class Other:
    """a value of a type the validators do not know"""


def deductive(res, agg):
    names, _, _ = std_names()
    # ---- sanity_check_n_modes over all type cases
    fn = "sanity_check_n_modes"
    cases = {
        "int": (lambda: PNum(z3.Int("v")), lambda: z3.Int("v") >= 1),
        "float": (lambda: PNum(z3.Real("x")), lambda: z3.And(z3.Real("x") > 0, z3.Real("x") <= 1)),
        "str": (lambda: PStr(z3.String("s")), lambda: z3.String("s") == z3.StringVal("all")),
    }
    for tname, (mk, valid) in cases.items():
        def run(mk=mk):
            scmod.sanity_check_n_modes(mk())
            return True
        with patched_globals([scmod], names):
            paths = explore(run, maxpaths=16)
        res.paths += len(paths)
        for pth in paths:
            if pth.kind == "unsupported":
                agg.vc(fn, "within-supported-subset", {"status": "undecided", "residue": str(pth.exc)}, tname)
            elif pth.kind == "return":
                agg.vc(fn, "returns only for a valid n_modes", prove_scalar(pth.ctx, valid()), tname)
            else:
                agg.vc(fn, "refuses only an invalid n_modes (ValueError)", prove_scalar(pth.ctx, z3.Not(valid()))
                       if isinstance(pth.exc, ValueError) else struct_vc(False, repr(pth.exc)), tname)
    for tname, v in (("None", None), ("object", Other()), ("list", [1]), ("bool", True)):
        try:
            with patched_globals([scmod], names):
                scmod.sanity_check_n_modes(v)
            out = "returned"
        except TypeError:
            out = "TypeError"
        except Exception as e:  # noqa: BLE001
            out = type(e).__name__
        want = "returned" if tname == "bool" else "TypeError"      # bool is an int in Python: True == 1 is a valid count
        agg.vc(fn, "values of other types are refused with TypeError", struct_vc(out == want, out), tname)
    # ---- convert_to_dim_type / validate_input_type: finite type cases, enumerated exhaustively
    fn = "convert_to_dim_type"
    for tname, v, want in (("str", "t", ("t",)), ("tuple", ("a", "b"), ("a", "b")), ("list", ["a"], ("a",)), ("empty-tuple", (), ()),
                           ("int", 3, TypeError), ("None", None, TypeError), ("list-with-int", ["a", 1], TypeError),
                           ("tuple-with-None", (None,), TypeError), ("set", {"a"}, TypeError)):
        try:
            got = scmod.convert_to_dim_type(v)
        except Exception as e:  # noqa: BLE001
            got = type(e)
        agg.vc(fn, "strings / sequences of strings become a tuple, everything else is refused", struct_vc(got == want, f"{got!r}"), tname)
    fn = "validate_input_type"
    da, ds = xr.DataArray(np.zeros(2)), xr.Dataset({"a": xr.DataArray(np.zeros(2))})
    for tname, v, ok in (("DataArray", da, True), ("Dataset", ds, True), ("list", [da, ds], True), ("tuple", (da,), True),
                         ("ndarray", np.zeros(2), False), ("list-with-ndarray", [da, np.zeros(2)], False), ("None", None, False),
                         ("int", 1, False), ("dict", {"a": da}, False), ("proxy-DataArray", mk_da("Z", (S, F), (n, p)), True)):
        try:
            scmod.validate_input_type(v)
            got = True
        except TypeError:
            got = False
        agg.vc(fn, "accepts exactly DataArray, Dataset and lists/tuples of them", struct_vc(got == ok, f"accepted={got}"), tname)

    # ---- number of items: _check_parameter_number / Preprocessor.transform with a symbolic list length
    class SymList(list):
        """list proxy whose length is symbolic (only len() is observable)"""
        def __init__(self, z):
            super().__init__()
            self._len = z

    def sym_len(x):
        if isinstance(x, SymList):
            return PNum(x._len)
        return len(x)
    fn = "_check_parameter_number"
    def run_cpn():
        L = z3.Int("L")
        assume(L >= 0)
        nd = PNum(z3.Int("nd"))
        xumod._check_parameter_number("weights", SymList(L), nd)
        return True
    with patched_globals([xumod], {"len": sym_len}):
        paths = explore(run_cpn, maxpaths=8)
    res.paths += len(paths)
    for pth in paths:
        eq = z3.Int("L") == z3.Int("nd")
        if pth.kind == "return":
            agg.vc(fn, "returns only if the number of items matches", prove_scalar(pth.ctx, eq), "")
        elif pth.kind == "raise" and isinstance(pth.exc, ValueError):
            agg.vc(fn, "refuses only a mismatch", prove_scalar(pth.ctx, z3.Not(eq)), "")
        else:
            agg.vc(fn, "within-supported-subset", {"status": "undecided", "residue": f"{pth.exc}"}, "")
    fn = "Preprocessor.transform"
    def run_pt():
        L = z3.Int("L")
        assume(L >= 1)
        pp = ppmod.Preprocessor()
        pp.n_data = PNum(z3.Int("nd"))
        assume(z3.Int("nd") >= 1)
        class Stop(Exception):
            pass
        pp.get_transformers = lambda inverse=False: (_ for _ in ()).throw(Stop())
        try:
            pp.transform(SymList(L))
        except Stop:
            return "accepted"
    with patched_globals([ppmod, xumod], {"len": sym_len}):
        paths = explore(run_pt, maxpaths=8)
    res.paths += len(paths)
    for pth in paths:
        eq = z3.Int("L") == z3.Int("nd")
        if pth.kind == "return":
            agg.vc(fn, "a list is only passed on to the transformers if its length is the fitted one", prove_scalar(pth.ctx, eq), "")
        elif pth.kind == "raise" and isinstance(pth.exc, ValueError):
            agg.vc(fn, "refuses only a wrong number of items", prove_scalar(pth.ctx, z3.Not(eq)), "")
        else:
            agg.vc(fn, "within-supported-subset", {"status": "undecided", "residue": f"{type(pth.exc).__name__}: {pth.exc} {pth.tb[-2:]}"}, "")

    # ---- the real preprocessing chain on structural proxies: new data lacking / renaming a fitted feature dimension never gets through
    from vf.contracts.prep import trace_chain
    from vf.sym.ldom import mk_input
    fnc = "Preprocessor.transform (in the real chain)"
    for center in (True, False):
        for std in (False, True):
            for what, mk in (("lacks a fitted feature dimension", lambda: mk_input("Xnew", ("time",), ("lat",))),
                             ("has a fitted feature dimension renamed", lambda: mk_input("Xnew", ("time",), ("lat", "longitude_x")))):
                cfg = f"center={center},standardize={std}"
                try:
                    paths = trace_chain(with_center=center, with_std=std, newdata=mk, check_nans=False, maxpaths=64)
                except PathLimit as e:
                    res.undecided_reasons.append(f"{fnc}[{cfg}]: {e}")
                    continue
                res.paths += len(paths)
                nraise = 0
                for pth in paths:
                    if pth.kind == "unsupported":
                        agg.vc(fnc, "within-supported-subset", {"status": "undecided", "residue": f"{pth.exc} {pth.tb[-3:]}"}, cfg)
                    elif pth.kind == "return":
                        agg.vc(fnc, f"transform data that {what} is refused (whatever preprocessing options were fitted)", struct_vc(False, "transform returned " + repr(pth.value.get("new2D"))[:150]), cfg)
                    else:
                        nraise += 1
                        ok = isinstance(pth.exc, (ValueError, KeyError, TypeError))
                        agg.vc(fnc, f"transform data that {what} is refused (whatever preprocessing options were fitted)", struct_vc(ok, f"{type(pth.exc).__name__}: {pth.exc}"), cfg)
                if not nraise:
                    agg.vc(fnc, "has a refusing path", struct_vc(False, "vacuity guard"), cfg + "," + what)

    # ---- cross-covariance kernel: sample counts
    fn = "CPCCA._compute_cross_covariance_numpy"
    n2 = named_ext("n2")
    def run_cc():
        assume(n.z >= 2)
        assume(n2.z >= 2)
        X = SymND(tm.sym("X", n, p, ("real",)), 2)
        Y = SymND(tm.sym("Y", n2, named_ext("q"), ("real",)), 2)
        return cpmod.CPCCA._compute_cross_covariance_numpy(X, Y)
    paths = explore(run_cc, maxpaths=8)
    res.paths += len(paths)
    for pth in paths:
        if pth.kind == "return":
            agg.vc(fn, "returns only for equal sample counts", prove_scalar(pth.ctx, n.z == n2.z), "")
        elif pth.kind == "raise" and isinstance(pth.exc, ValueError):
            agg.vc(fn, "refuses only different sample counts", prove_scalar(pth.ctx, n.z != n2.z), "")
        else:
            agg.vc(fn, "within-supported-subset", {"status": "undecided", "residue": f"{pth.exc}"}, "")

    # ---- reconstruction from score arrays naming arbitrary modes
    fn = "EOF._inverse_transform_algorithm"
    nm2, _, _ = std_names(Decomposer=DecomposerStub)
    def run_inv():
        assume(n.z >= 2)
        assume(p.z >= 1)
        m = xeofs.single.EOF(n_modes=PNum(z3.Int("k")), sample_name=S, feature_name=F)
        X = mk_da("X", (S, F), (n, p))
        eofmod.EOF._fit_algorithm(m, X)
        ks = named_ext("ks")
        assume(ks.z >= 1)
        sc = mk_da("Sc", (S, "mode"), (n, ks), cid={S: X._cid[S], "mode": ("in", "Sc", "mode")})
        rec = m._inverse_transform_algorithm(sc)
        return rec
    with patched_globals([eofmod, xumod, scmod], nm2):
        paths = explore(run_inv, maxpaths=32)
    res.paths += len(paths)
    nret = 0
    for pth in paths:
        preds = pth.ctx.notes.get("label_preds", [])
        sub = [b for kind, a, c, b in preds if kind == "subset" and a == ("in", "Sc", "mode")]
        if pth.kind == "unsupported":
            agg.vc(fn, "within-supported-subset", {"status": "undecided", "residue": f"{pth.exc} {pth.tb[-2:]}"}, "")
        elif pth.kind == "return":
            nret += 1
            ok = bool(sub) and prove_scalar(pth.ctx, sub[0])["status"] == "discharged"
            joins = [e for e in pth.ctx.events if e[0] == "inner-join"]
            agg.vc(fn, "returns only if every mode label of the scores names a mode of the model",
                   struct_vc(ok and not joins, f"returned without establishing it (joins: {joins})"), "")
        elif isinstance(pth.exc, KeyError):
            ok = bool(sub) and prove_scalar(pth.ctx, z3.Not(sub[0]))["status"] == "discharged"
            agg.vc(fn, "KeyError only for unknown mode labels", struct_vc(ok, "KeyError although labels are known"), "")
        else:
            k = z3.Int("k")
            agg.vc(fn, "other refusals only from the fit itself", prove_scalar(pth.ctx, z3.Or(k < 1, k > n.z, k > p.z)), "")
    if nret == 0:
        agg.vc(fn, "has-returning-path", struct_vc(False, "vacuity guard"), "")

    # ---- shared traces: rank / solver / alpha refusals
    from props import C01, C15, C16

    class Only:
        def __init__(self, agg, words):
            self.agg, self.words = agg, words

        def vc(self, function, clause, r, config=""):
            if any(w in clause for w in self.words):
                return self.agg.vc(function, clause, r, config)
            return True
    C01.deductive_decomposer(res, Only(agg, ("raises-only", "returns-only", "NotImplementedError-only")), "quick")
    C16.deductive(res, Only(agg, ("alpha < 0", "raises only for alpha")))
    C15.deductive(res, Only(agg, ("unknown solver", "returns only for a known solver", "refusal happens before", "raises only for")))


# ---------------------------------------------------------------- bounded: fault injection on real models
def _data(rng, nn=24, nlat=3, nlon=4):
    X = rng.standard_normal((nn, nlat * nlon)) + np.linspace(0, 1, nn)[:, None]
    return real.da3(X, nlat)


FAULTS = ["valid", "valid-alpha-above-one", "valid-extra-variable", "valid-scores-extra-dim",
          "type-ndarray", "type-list-ndarray", "type-None", "dim-unknown", "dim-empty", "n_modes-above-rank", "n_modes-zero",
          "n_modes-negative", "n_modes-string", "n_modes-float-above-one", "n_modes-float-zero", "solver-unknown", "alpha-negative",
          "transform-type-ndarray", "transform-missing-dim", "transform-extra-dim", "transform-renamed-dim", "transform-shifted-coord",
          "transform-reordered-coord-values", "transform-dropped-variable", "transform-wrong-list-length", "transform-longer-list",
          "inverse-unknown-mode", "inverse-unknown-mode-normalized", "cross-different-sample-count"]


def eval_case(c):
    rng = np.random.default_rng(c["seed"])
    fault, model = c["fault"], c["model"]
    da = _data(rng)
    ds = xr.Dataset({"a": da, "b": da.isel(lon=slice(0, 2)) * 2.0})
    lst = [da, da.isel(lat=0, drop=True) + 1.0]
    inp = {"da": da, "ds": ds, "list": lst}[c["input"]]
    cross = model in ("CPCCA", "MCA", "CCA", "RDA")
    cls = getattr(xeofs.cross if cross else xeofs.single, model)
    extra = {"ExtendedEOF": dict(tau=1, embedding=2), "OPA": dict(tau_max=2, n_pca_modes=4), "POP": dict(n_pca_modes=4),
             "CPCCA": dict(alpha=0.5, use_pca=False), "MCA": dict(use_pca=False), "CCA": dict(use_pca=False), "RDA": dict(use_pca=False)}.get(model, {})
    kw = dict(n_modes=2, **extra)
    if c.get("prep") == "nocenter" and not cross:
        kw["center"] = False            # no statistic is stored: only the (default) weights carry the fitted dims
    elif c.get("prep") == "std":
        kw["standardize"] = True
    Y = (da.isel(lon=slice(0, 3)) * 0.5 + 0.1 * rng.standard_normal(da.isel(lon=slice(0, 3)).shape)).rename({"lat": "lat2", "lon": "lon2"})

    def fit(m, X=inp, dim="time", Yv=None):
        if cross:
            return m.fit(X, Y if Yv is None else Yv, dim)
        return m.fit(X, dim)
    expect_error = not fault.startswith("valid")
    try:
        if fault == "valid":
            m = fit(cls(**kw))
            out = m.transform(inp) if hasattr(m, "transform") and model not in ("HilbertEOF", "ExtendedEOF", "OPA") else None
        elif fault == "valid-alpha-above-one":
            m = fit(xeofs.cross.CPCCA(n_modes=2, alpha=1.5, use_pca=False))
        elif fault == "valid-extra-variable":
            m = fit(cls(**kw), X=ds)
            out = m.transform(ds.assign(c=ds["a"] * 3)) if not cross else m.transform(X=ds.assign(c=ds["a"] * 3))
        elif fault == "valid-scores-extra-dim":
            m = fit(cls(**kw))
            sc = m.scores() if not cross else m.scores()[0]
            sc2 = sc.expand_dims(member=[0, 1])
            out = m.inverse_transform(sc2) if not cross else m.inverse_transform(X=sc2)
        elif fault == "type-ndarray":
            fit(cls(**kw), X=np.asarray(da))
        elif fault == "type-list-ndarray":
            fit(cls(**kw), X=[da, np.asarray(da)])
        elif fault == "type-None":
            fit(cls(**kw), X=None)
        elif fault == "dim-unknown":
            fit(cls(**kw), dim="no_such_dim")
        elif fault == "dim-empty":
            fit(cls(**kw), dim=())
        elif fault.startswith("n_modes-"):
            v = {"above-rank": 500, "zero": 0, "negative": -2, "string": "many", "float-above-one": 1.5, "float-zero": 0.0}[fault[8:]]
            m = fit(cls(**dict(kw, n_modes=v)))
        elif fault == "solver-unknown":
            m = fit(cls(**dict(kw, solver="bogus")))
        elif fault == "alpha-negative":
            m = fit(xeofs.cross.CPCCA(n_modes=2, alpha=-0.5, use_pca=False))
        elif fault.startswith("transform-"):
            m = fit(cls(**kw))
            base = inp
            def mut(x):
                f = fault[10:]
                if f == "type-ndarray":
                    return np.asarray(x)
                if f == "missing-dim":
                    return x.isel(lon=0, drop=True)
                if f == "extra-dim":
                    return x.expand_dims(level=[1, 2])
                if f == "renamed-dim":
                    return x.rename({"lon": "longitude_x"})
                if f == "shifted-coord":
                    return x.assign_coords(lon=x.lon + 5.0)
                if f == "reordered-coord-values":
                    return x.assign_coords(lon=x.lon.values[::-1] * 1.5)
                raise KeyError(f)
            f = fault[10:]
            if f == "dropped-variable":
                new = base.drop_vars("b")
            elif f == "wrong-list-length":
                new = base[:1]
            elif f == "longer-list":
                new = list(base) + [base[0]]
            elif isinstance(base, list):
                new = [mut(base[0])] + list(base[1:])
            elif isinstance(base, xr.Dataset):
                new = base.assign(a=mut(base["a"])) if f in ("shifted-coord", "reordered-coord-values") else mut(base)
            else:
                new = mut(base)
            out = m.transform(new) if not cross else m.transform(X=new)
        elif fault.startswith("inverse-unknown-mode"):
            m = fit(cls(**kw))
            sc = m.scores() if not cross else m.scores()[0]
            sc = sc.assign_coords(mode=[1, 7])
            out = m.inverse_transform(sc, normalized=fault.endswith("normalized")) if not cross else m.inverse_transform(X=sc)
        elif fault == "cross-different-sample-count":
            m = cls(**kw).fit(inp, Y.isel(time=slice(0, 20)), "time")
        else:
            raise KeyError(fault)
        raised = None
    except Exception as e:  # noqa: BLE001
        raised = e
    if expect_error and raised is None:
        return False, f"{model}: fault '{fault}' ({c['input']}) was answered with results instead of an error"
    if not expect_error and raised is not None:
        return False, f"{model}: valid call '{fault}' ({c['input']}) raised {type(raised).__name__}: {str(raised)[:100]}"
    return True, ""


def applicable(model, fault, inp):
    cross = model in ("CPCCA", "MCA", "CCA", "RDA")
    notransform = model in ("HilbertEOF", "ExtendedEOF", "OPA")
    noinverse = model in ("OPA", "ExtendedEOF")
    if fault in ("valid-alpha-above-one", "alpha-negative"):
        return model == "CPCCA" and inp == "da"
    if fault == "cross-different-sample-count":
        return cross and inp == "da"
    if fault.startswith("transform-") or fault == "valid-extra-variable":
        if notransform:
            return False
        if fault in ("transform-dropped-variable", "valid-extra-variable") and inp != "ds":
            return False
        if fault in ("transform-wrong-list-length", "transform-longer-list") and inp != "list":
            return False
        if fault == "valid-extra-variable" and model in ("POP",):
            return True
    if fault.startswith("inverse-") or fault == "valid-scores-extra-dim":
        if noinverse or model in ("SparsePCA", "POP"):
            return False
        if fault == "inverse-unknown-mode-normalized" and cross:
            return False
    if fault == "valid-extra-variable" and inp != "ds":
        return False
    if fault.startswith("n_modes-float") and model in ("SparsePCA", "POP", "OPA", "ExtendedEOF") :
        return False
    if fault in ("n_modes-float-above-one", "n_modes-float-zero") and cross:
        return True
    return True


def bounded_cases(tier, seed):
    rng = np.random.default_rng(seed)
    cases = []
    for model in ("EOF", "ComplexEOF", "HilbertEOF", "ExtendedEOF", "SparsePCA", "POP", "OPA", "CPCCA", "MCA"):
        for inp in ("da", "ds", "list"):
            if model in ("ExtendedEOF", "OPA", "POP", "SparsePCA", "HilbertEOF") and inp != "da":
                continue
            for fault in FAULTS:
                if applicable(model, fault, inp):
                    cases.append(dict(model=model, input=inp, fault=fault))
    for inp in ("da", "ds", "list"):
        for prep in ("nocenter", "std"):
            for fault in FAULTS:
                if fault.startswith("transform-") and applicable("EOF", fault, inp):
                    cases.append(dict(model="EOF", input=inp, fault=fault, prep=prep))
    for i, c in enumerate(cases):
        c["seed"] = int(seed) * 1000 + i
    if tier == "quick":
        keep = [c for c in cases if c["model"] in ("EOF", "CPCCA", "POP", "SparsePCA") and c["input"] == "da" or c["fault"].startswith("transform-") and c["model"] == "EOF"
                or c["fault"].startswith(("n_modes-", "solver-")) and c["input"] == "da"]
        rest = [c for c in cases if c not in keep]
        cases = keep + real.subsample(rest, 60, rng)
    return cases


def run_bounded(res, tier, seed):
    for c in bounded_cases(tier, seed):
        sig = {k: c[k] for k in ("model", "input", "fault")}
        if c.get("prep"):
            sig["prep"] = c["prep"]
        try:
            ok, detail = eval_case(c)
        except Exception as e:  # noqa: BLE001
            ok, detail = False, f"harness error {type(e).__name__}: {e}"
            sig["exception"] = type(e).__name__
        res.case("C17.fault-injection", sig, ok, detail, payload=c)


def replay(payload):
    ok, detail = eval_case(payload["payload"])
    return ok, f"C17 replay {payload['payload']}: {'ok' if ok else detail}"


def run(tier, seed):
    res = Result("C17")
    res.functions = ["xeofs.utils.sanity_checks:sanity_check_n_modes", "convert_to_dim_type", "validate_input_type",
                     "xeofs.utils.xarray_utils:_check_parameter_number", "xeofs.preprocessing.preprocessor:Preprocessor.transform (item count)",
                     "xeofs.cross.cpcca:CPCCA._compute_cross_covariance_numpy", "xeofs.single.eof:EOF._inverse_transform_algorithm",
                     "xeofs.linalg.decomposer:Decomposer.__init__/fit (rank, solver)", "xeofs.linalg._numpy._svd:_SVD (rank, solver)",
                     "xeofs.preprocessing.whitener:Whitener.__init__ (alpha)"]
    res.assumptions = ["xarray: .sel(mode=labels) raises KeyError exactly when a label is absent; xr.dot aligns differing labels by inner join (modelled)",
                       "finite type cases of the validators are enumerated exhaustively; numeric and string values are symbolic",
                       "Stacker/Sanitizer/Scaler dimension and coordinate checks on transform data: bounded fault injection here (structural traces under C02/C05)",
                       "integers mathematical, floats real"]
    res.trusted = ["CPython on proxies", "z3 (LIA/LRA/strings)", "vf/sym proxies"]
    agg = Agg(res, "C17")
    deductive(res, agg)
    agg.flush()
    run_bounded(res, tier, seed)
    return res

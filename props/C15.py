"""C15 Solver choice, variance thresholds and seeds behave as documented.

Deductive (domain S + vector facts): threshold truncation of the real Decomposer.fit and _SVD.fit_transform (count lemma
proved by induction), bounds of n_modes_precompute, solver policy for every solver string, seed and solver_kwargs
forwarding to every back end (Decomposer, _SVD, SVD, PCA), sign convention of both sign-multiplier functions.
Bounded: prescribed spectra on real Decomposer/SVD/PCA/models, exact-vs-randomised agreement, bit-identity per seed.
"""
import numpy as np
import xarray as xr
import z3

import xeofs
import xeofs.linalg._numpy._svd as nsvdmod
import xeofs.linalg.decomposer as decmod
import xeofs.linalg.svd as svdmod
import xeofs.preprocessing.pca as pcamod
import xeofs.utils.sanity_checks as scmod
import xeofs.utils.xarray_utils as xumod

from vf import real
from vf.contracts.common import Agg, F, S, Tok, std_names, struct_vc
from vf.contracts.whiten import nd_sign_multiplier
from vf.report import Result
from vf.sym import lib
from vf.sym import terms as tm
from vf.sym.core import PBool, PNum, PStr, PathLimit, assume, ctx, decide, explore, patched_globals, use_ctx
from vf.sym.nd import SymND
from vf.sym.prove import prove_scalar
from vf.sym.terms import named_ext, Unsupported
from vf.sym.xda import mk_da

LEVEL = "proof"
EXPLANATION = ("minimal-count semantics of fractional n_modes (with the warning fall-back), n_modes_precompute in [1, rank], "
               "the solver policy for every solver string, forwarding of random_state/seed and of solver_kwargs to every back "
               "end, and the sign convention are discharged on the real code; accuracy of the randomised solvers, bit-identity "
               "per seed and acceptance of solver_kwargs by every model class are bounded runs")
n, p = named_ext("n"), named_ext("p")
RANDOMISED = {"sklearn.randomized_svd", "scipy.sparse.linalg.svds", "dask.svd_compressed"}


def dec_names():
    names, xrf, npf = std_names(randomized_svd=Tok("randomized_svd"), complex_svd=Tok("complex_svd"), dask_svd=Tok("dask_svd"),
                                get_deterministic_sign_multiplier=lib.sign_multiplier)
    xrf.ufuncs = {npf.linalg.svd: lib.svd_full, "randomized_svd": lib.svd_randomized,
                  "complex_svd": lib.svd_svds, "dask_svd": lib.svd_dask}
    return names


# ------------------------------------------------------------------ count lemma (induction)
def count_lemma(agg):
    """for a non-decreasing sequence the hits {j: cum(j) >= f} form an upper segment whose size is the count"""
    cum = z3.Function("cumL", z3.IntSort(), z3.RealSort())
    f = z3.Real("fL")
    k, c, j, i = z3.Ints("kL cL jL iL")
    for op, hit in ((">=", lambda x: cum(x) >= f), (">", lambda x: cum(x) > f)):
        mono = z3.ForAll([i, j], z3.Implies(z3.And(1 <= i, i <= j, j <= k + 1), cum(i) <= cum(j)))
        ih = z3.And(0 <= c, c <= k, k >= 0, z3.ForAll([j], z3.Implies(z3.And(1 <= j, j <= k), hit(j) == (j >= k - c + 1))))
        c2 = z3.If(hit(k + 1), c + 1, c)
        step = z3.ForAll([j], z3.Implies(z3.And(1 <= j, j <= k + 1), hit(j) == (j >= (k + 1) - c2 + 1)))
        s = z3.Solver()
        s.set("timeout", 20000)
        s.add(mono, ih, z3.Not(z3.And(step, 0 <= c2, c2 <= k + 1)))
        r = s.check()
        agg.vc("count-lemma", f"induction step ({op})", {"status": "discharged" if r == z3.unsat else "undecided", "backend": "z3", "residue": str(r)})
        s = z3.Solver()
        s.add(z3.Not(z3.ForAll([j], z3.Implies(z3.And(1 <= j, j <= 0), hit(j) == (j >= 0 - 0 + 1)))))
        agg.vc("count-lemma", f"base case ({op})", {"status": "discharged" if s.check() == z3.unsat else "undecided", "backend": "z3", "residue": ""})


# ------------------------------------------------------------------ threshold truncation
def threshold_vcs(agg, fn, cfg, pth, kprime, kpre_z, rank_z, f_z):
    """clauses on one returning path of a variance-threshold fit"""
    th = pth.ctx.notes.get("thresholds", [])
    if len(th) != 1:
        agg.vc(fn, "threshold: exactly one cumulative-variance comparison", struct_vc(False, f"{len(th)} comparisons"), cfg)
        return
    t = th[0]
    cum, cnt = t["cum"].f, t["count"]
    j = z3.Int("jq")
    agg.vc(fn, "threshold compares cumulative explained variance with the requested fraction (>=)",
           prove_scalar(pth.ctx, t["thr"] == f_z) if t["op"] == ">=" else struct_vc(False, f"operator {t['op']}"), cfg)
    agg.vc(fn, "cumulative sum runs over all precomputed modes", prove_scalar(pth.ctx, t["cum"].k.z == kpre_z), cfg)
    reach = cnt >= 1
    warned = any("explained variance was requested" in w for w in pth.warns)
    spec_min = z3.And(cum(kprime) >= f_z, z3.ForAll([j], z3.Implies(z3.And(1 <= j, j < kprime), cum(j) < f_z)),
                      kprime >= 1, kprime <= kpre_z)
    spec = z3.If(reach, spec_min, kprime == kpre_z)
    agg.vc(fn, "keeps the smallest number of leading modes reaching the fraction, else all precomputed modes",
           prove_scalar(pth.ctx, spec, timeout_ms=20000), cfg)
    agg.vc(fn, "warning iff the fraction cannot be reached",
           prove_scalar(pth.ctx, reach == z3.BoolVal(not warned)), cfg)
    agg.vc(fn, "n_modes_precompute in [1, rank]", prove_scalar(pth.ctx, z3.And(kpre_z >= 1, kpre_z <= rank_z)), cfg)


def trace_dec_threshold(solver):
    names = dec_names()

    def run():
        assume(n.z >= 2)
        assume(p.z >= 1)
        dec = decmod.Decomposer(n_modes=PNum(z3.Real("f")), solver=solver, init_rank_reduction=PNum(z3.Real("irr")))
        X = mk_da("X", (S, F), (n, p))
        dec.fit(X, dims=(S, F))
        return dec

    with patched_globals([decmod, scmod], names):
        return explore(run, maxpaths=128)


def trace_nsvd(mode, solver):
    """numpy-level _SVD.fit_transform; mode: 'threshold' | 'int' | 'all'"""
    names, xrf, npf = std_names(get_deterministic_sign_multiplier=nd_sign_multiplier, wait_on=lambda *a: a,
                                randomized_svd=lib_nd("sklearn.randomized_svd", "n_components"),
                                complex_svd=lib_nd("scipy.sparse.linalg.svds", "k", strict=True),
                                dask_svd=lib_nd("dask.svd_compressed", "k"))

    def run():
        assume(n.z >= 2)
        assume(p.z >= 1)
        seed = PNum(z3.Int("seed"))
        tokn = object()
        if mode == "threshold":
            sv = nsvdmod._SVD(n_modes=PNum(z3.Real("f")), init_rank_reduction=PNum(z3.Real("irr")), solver=solver, random_state=seed)
        elif mode == "all":
            sv = nsvdmod._SVD(n_modes="all", solver=solver, random_state=seed)
        else:
            sv = nsvdmod._SVD(n_modes=PNum(z3.Int("k")), solver=solver, random_state=seed)
        X = SymND(tm.sym("X", n, p, ("real",)), 2, False)
        U, s, V = sv.fit_transform(X)
        return sv, U, s, V, seed

    with patched_globals([nsvdmod, scmod], names):
        return explore(run, maxpaths=128)


def lib_nd(name, kname, strict=False):
    """numpy-level randomised back ends called directly on positional proxies (assumed exact, see vf/sym/lib.py)"""
    def f(A, **kwargs):
        ctx().events.append(("call", {"callee": name, "kwargs": dict(kwargs), "lazy_in": A.lazy}))
        if kname not in kwargs:
            raise TypeError(f"{name}() missing {kname}")
        kz = kwargs[kname].z if type(kwargs[kname]) is PNum else z3.IntVal(kwargs[kname])
        nn, pp = A.term.rows, A.term.cols
        lim = z3.If(nn.z <= pp.z, nn.z, pp.z)
        if strict and not decide(z3.And(kz > 0, kz < lim)):
            raise ValueError("`k` must be an integer satisfying `0 < k < min(A.shape)`.")
        if not strict and not decide(z3.And(kz >= 1, kz <= lim)):
            raise Unsupported("back end called outside 1..rank")
        ke = tm.ext_of(kz)
        tag = tm.fresh("nd")
        U = tm.sym(f"U.{tag}", nn, ke, ("real",))
        s = tm.sym(f"s.{tag}", ke, ke, ("diag", "real", "herm", "nonneg"))
        VT = tm.sym(f"VT.{tag}", ke, pp, ("real",))
        return SymND(U, 2), SymND(s, 1, tags=("asc", "nonneg") if strict else ("desc", "nonneg")), SymND(VT, 2)
    f.__qualname__ = name
    return f


def trace_policy(cplx, lazy):
    names = dec_names()
    names["dask"] = __import__("vf.sym.xda", fromlist=["DaskFacade"]).DaskFacade()

    def run():
        assume(n.z >= 2)
        assume(p.z >= 1)
        solver = PStr(z3.String("solver"))
        seed = PNum(z3.Int("seed"))
        tok = object()
        dec = decmod.Decomposer(n_modes=PNum(z3.Int("k")), solver=solver, random_state=seed, solver_kwargs={"tok": tok})
        X = mk_da("X", (S, F), (n, p), cplx=cplx, lazy=lazy)
        dec.fit(X, dims=(S, F))
        return dec, seed, tok

    with patched_globals([decmod, scmod], names):
        return explore(run, maxpaths=128)


def backend_calls(pth):
    return [e[1] for e in pth.ctx.events if e[0] == "call" and (e[1]["callee"] in RANDOMISED or e[1]["callee"] == "np.linalg.svd")]


def deductive(res, agg):
    count_lemma(agg)
    # ---- threshold at the Decomposer level
    fn = "Decomposer.fit"
    for solver in ("full", "randomized", "auto"):
        cfg = f"fractional,{solver}"
        try:
            paths = trace_dec_threshold(solver)
        except PathLimit as e:
            res.undecided_reasons.append(f"{fn}[{cfg}]: {e}")
            continue
        res.paths += len(paths)
        nret = 0
        for pth in paths:
            f_z, irr = z3.Real("f"), z3.Real("irr")
            if pth.kind == "unsupported":
                agg.vc(fn, "within-supported-subset", {"status": "undecided", "residue": f"{pth.exc} at {pth.tb[-2:]}"}, cfg)
                continue
            if pth.kind == "raise":
                agg.vc(fn, "raises only for f outside (0,1] or init_rank_reduction outside (0,1]",
                       prove_scalar(pth.ctx, z3.Or(f_z <= 0, f_z > 1, irr <= 0, irr > 1)), cfg)
                continue
            nret += 1
            with use_ctx(pth.ctx):
                dec = pth.value
                kp = dec.U_._ext["mode"].z
                kpre = dec.n_modes_precompute.z if type(dec.n_modes_precompute) is PNum else z3.IntVal(dec.n_modes_precompute)
                rank = z3.If(n.z <= p.z, n.z, p.z)
                threshold_vcs(agg, fn, cfg, pth, kp, kpre, rank, f_z)
                agg.vc(fn, "all three outputs truncated alike", struct_vc(
                    tm.same_ext(dec.U_._ext["mode"], dec.s_._ext["mode"]) and tm.same_ext(dec.s_._ext["mode"], dec.V_._ext["mode"]), "extents differ"), cfg)
        if nret == 0:
            agg.vc(fn, "has-returning-path", struct_vc(False, "vacuity guard"), cfg)
    # ---- numpy-level _SVD
    fn = "_SVD.fit_transform"
    for mode in ("threshold", "int", "all"):
        for solver in ("full", "randomized", "auto"):
            cfg = f"{mode},{solver}"
            try:
                paths = trace_nsvd(mode, solver)
            except PathLimit as e:
                res.undecided_reasons.append(f"{fn}[{cfg}]: {e}")
                continue
            res.paths += len(paths)
            nret = 0
            for pth in paths:
                if pth.kind == "unsupported":
                    agg.vc(fn, "within-supported-subset", {"status": "undecided", "residue": f"{pth.exc} at {pth.tb[-2:]}"}, cfg)
                    continue
                rank = z3.If(n.z <= p.z, n.z, p.z)
                if pth.kind == "raise":
                    if mode == "threshold":
                        f_z, irr = z3.Real("f"), z3.Real("irr")
                        agg.vc(fn, "raises only for invalid fraction / init_rank_reduction", prove_scalar(pth.ctx, z3.Or(f_z <= 0, f_z > 1, irr <= 0, irr > 1)), cfg)
                    elif mode == "int":
                        agg.vc(fn, "raises only for k outside 1..rank", prove_scalar(pth.ctx, z3.Or(z3.Int("k") < 1, z3.Int("k") > rank)), cfg)
                    else:
                        agg.vc(fn, "n_modes='all' never refused", struct_vc(False, f"{pth.exc}"), cfg)
                    continue
                nret += 1
                with use_ctx(pth.ctx):
                    sv, U, s, V, seed = pth.value
                    kp = s.term.rows.z
                    kpre = sv.n_modes_precompute.z if type(sv.n_modes_precompute) is PNum else z3.IntVal(sv.n_modes_precompute)
                    if mode == "threshold":
                        threshold_vcs(agg, fn, cfg, pth, kp, kpre, rank, z3.Real("f"))
                    elif mode == "int":
                        agg.vc(fn, "returns exactly k modes", prove_scalar(pth.ctx, kp == z3.Int("k")), cfg)
                    else:
                        agg.vc(fn, "n_modes='all' returns rank modes", prove_scalar(pth.ctx, kp == rank), cfg)
                    for cl in backend_calls(pth):
                        if cl["callee"] in RANDOMISED:
                            key = "seed" if "dask" in cl["callee"] else "random_state"
                            agg.vc(fn, "randomised back end receives the instance's random_state",
                                   struct_vc(cl["kwargs"].get(key) is seed, f"{cl['callee']} got {cl['kwargs'].get(key)!r}"), cfg)
                            if "dask" in cl["callee"]:
                                npi = cl["kwargs"].get("n_power_iter")
                                agg.vc(fn, "compressed (dask) back end runs with power iterations (>= 1) unless the caller chose otherwise",
                                       struct_vc(isinstance(npi, int) and npi >= 1, f"n_power_iter={npi!r}"), cfg)
                    agg.vc(fn, "exactly one back-end call", struct_vc(len(backend_calls(pth)) == 1, str(len(backend_calls(pth)))), cfg)
            if nret == 0:
                agg.vc(fn, "has-returning-path", struct_vc(False, "vacuity guard"), cfg)
    # ---- solver policy, seeds, solver_kwargs at the Decomposer level, for EVERY solver string
    fn = "Decomposer.fit"
    for cplx in (False, True):
        for lazy in (False, True):
            cfg = f"policy,{'complex' if cplx else 'real'},{'dask' if lazy else 'numpy'}"
            try:
                paths = trace_policy(cplx, lazy)
            except PathLimit as e:
                res.undecided_reasons.append(f"{fn}[{cfg}]: {e}")
                continue
            res.paths += len(paths)
            sol = z3.String("solver")
            known = z3.Or(sol == z3.StringVal("auto"), sol == z3.StringVal("full"), sol == z3.StringVal("randomized"))
            for pth in paths:
                if pth.kind == "unsupported":
                    agg.vc(fn, "within-supported-subset", {"status": "undecided", "residue": f"{pth.exc} at {pth.tb[-2:]}"}, cfg)
                    continue
                calls = backend_calls(pth)
                if pth.kind == "raise":
                    if isinstance(pth.exc, ValueError) and "Unrecognized solver" in str(pth.exc):
                        agg.vc(fn, "unknown solver names are refused, known ones are not", prove_scalar(pth.ctx, z3.Not(known)), cfg)
                        agg.vc(fn, "refusal happens before any back end runs", struct_vc(not calls, str(calls)), cfg)
                    continue
                with use_ctx(pth.ctx):
                    dec, seed, tok = pth.value
                    agg.vc(fn, "returns only for a known solver name", prove_scalar(pth.ctx, known), cfg)
                    agg.vc(fn, "exactly one back-end call", struct_vc(len(calls) == 1, str([c['callee'] for c in calls])), cfg)
                    for cl in calls:
                        exact = cl["callee"] == "np.linalg.svd"
                        agg.vc(fn, "solver='full' -> exact back end; 'randomized' -> a randomised one; 'auto' -> one of the two",
                               prove_scalar(pth.ctx, z3.And(z3.Implies(sol == z3.StringVal("full"), z3.BoolVal(exact)),
                                                            z3.Implies(sol == z3.StringVal("randomized"), z3.BoolVal(not exact)))), cfg)
                        if not exact:
                            key = "seed" if "dask" in cl["callee"] else "random_state"
                            agg.vc(fn, "randomised back end receives the instance's random_state",
                                   struct_vc(cl["kwargs"].get(key) is seed, f"{cl['callee']} got {cl['kwargs'].get(key)!r}"), cfg)
                            if "dask" in cl["callee"]:
                                npi = cl["kwargs"].get("n_power_iter")
                                agg.vc(fn, "compressed (dask) back end runs with power iterations (>= 1) unless the caller chose otherwise; without them it does not reach the exact solver's leading values",
                                       struct_vc(isinstance(npi, int) and npi >= 1, f"n_power_iter={npi!r}"), cfg)
                            want = {"sklearn.randomized_svd": "n_components", "scipy.sparse.linalg.svds": "k", "dask.svd_compressed": "k"}[cl["callee"]]
                            kk = cl["kwargs"].get(want)
                            agg.vc(fn, "randomised back end asked for n_modes_precompute modes",
                                   struct_vc(type(kk) is PNum and str(z3.simplify(kk.z)) == "k", f"{kk!r}"), cfg)
                        agg.vc(fn, "solver_kwargs arrive unchanged at the back end", struct_vc(cl["kwargs"].get("tok") is tok, str(list(cl["kwargs"]))), cfg)
    # ---- solver_kwargs through the wrappers SVD.fit_transform and PCA.fit
    deductive_forwarding(res, agg)
    # ---- the seed reaches every randomised component of the composite models (opaque token = every seed)
    class SeedTok:
        pass
    seed = SeedTok()
    m = xeofs.cross.CPCCA(n_modes=2, alpha=0.5, random_state=seed)
    agg.vc("BaseModelCrossSet.__init__", "random_state reaches the decomposer and both PCA pre-reductions",
           struct_vc(m._decomposer_kwargs.get("random_state") is seed and m.pca1.random_state is seed and m.pca2.random_state is seed,
                     f"decomposer {m._decomposer_kwargs.get('random_state')!r}, pca1 {m.pca1.random_state!r}, pca2 {m.pca2.random_state!r}"), "")
    pm = xeofs.single.POP(n_modes=2, random_state=seed)
    agg.vc("POP.__init__", "random_state reaches the PCA pre-reduction", struct_vc(pm.pca.random_state is seed, repr(pm.pca.random_state)), "")
    em = xeofs.single.EOF(n_modes=2, random_state=seed)
    agg.vc("BaseModelSingleSet.__init__", "random_state reaches the decomposer", struct_vc(em._decomposer_kwargs.get("random_state") is seed, repr(em._decomposer_kwargs)), "")
    deductive_sign(res, agg)


def deductive_forwarding(res, agg):
    tok = object()
    rec = {}

    class RecSVD:          # stands in for _SVD / SVD: records the keywords it is constructed with
        def __init__(self, *a, **kw):
            rec["args"], rec["kw"] = a, kw

        def fit_transform(self, X):
            raise _Stop()

    class _Stop(Exception):
        pass

    for fn, mod, name, build, cfgk in (
            ("SVD.fit_transform", svdmod, "_SVD", lambda: svdmod.SVD(n_modes=2, solver_kwargs={"tok": tok}, random_state=11, solver="full").fit_transform(
                real.da2(np.zeros((4, 3)), "sample", "feature")), ""),
            ("PCA.fit", pcamod, "SVD", lambda: pcamod.PCA(n_modes=2, solver_kwargs={"tok": tok}, random_state=11).fit(
                real.da2(np.zeros((4, 3)), "sample", "feature")), ""),
            ("SVD.fit_transform", svdmod, "_SVD", lambda: svdmod.SVD(n_modes=2, random_state=11, solver="full").fit_transform(
                real.da2(np.zeros((4, 3)), "sample", "feature")), "no solver_kwargs"),
            ("PCA.fit", pcamod, "SVD", lambda: pcamod.PCA(n_modes=2, random_state=11).fit(
                real.da2(np.zeros((4, 3)), "sample", "feature")), "no solver_kwargs")):
        rec.clear()
        old = getattr(mod, name)
        setattr(mod, name, RecSVD)
        outcome = ""
        try:
            try:
                build()
            except _Stop:
                pass
            except Exception as e:  # noqa: BLE001
                outcome = f"{type(e).__name__}: {e}"
        finally:
            setattr(mod, name, old)
        kw = rec.get("kw", {})
        got = kw.get("solver_kwargs")
        if cfgk:
            agg.vc(fn, "without solver options the back end gets none", struct_vc(not got, f"solver_kwargs={got!r} {outcome}"), cfgk)
        else:
            agg.vc(fn, "solver_kwargs are handed on as the `solver_kwargs` argument (not spread into the constructor)",
                   struct_vc(isinstance(got, dict) and got.get("tok") is tok and "tok" not in kw, f"constructor keywords {sorted(kw)} {outcome}"), "")
        agg.vc(fn, "random_state handed on", struct_vc(kw.get("random_state") == 11, f"{kw.get('random_state')!r} {outcome}"), cfgk)


class _Col:
    """one real column with symbolic extreme values m <= M (what the sign functions look at)"""

    def __init__(self):
        self.M, self.m = PNum(z3.Real("colmax")), PNum(z3.Real("colmin"))


def deductive_sign(res, agg):
    """after multiplying by the sign the entry of largest magnitude is >= 0 (real data)"""
    M, m = z3.Real("colmax"), z3.Real("colmin")

    def spec(sign_z):
        big = z3.If(z3.If(M >= 0, M, -M) >= z3.If(m >= 0, m, -m), M, m)     # an entry of largest magnitude
        return z3.And(z3.Or(sign_z == 1, sign_z == -1), big * sign_z >= 0)

    def zsign(v):
        return v.z if type(v) is PNum else z3.RealVal(v)

    def _where(c, a, b):
        cz = c.z if type(c) is PBool else z3.BoolVal(bool(c))
        return PNum(z3.If(cz, zsign(a), zsign(b)))

    # numpy level: xeofs.linalg._numpy._svd.get_deterministic_sign_multiplier
    class NPs:
        max = staticmethod(lambda d, axis=None: d.M)
        min = staticmethod(lambda d, axis=None: d.m)
        abs = staticmethod(lambda x: abs(x))
        real = staticmethod(lambda x: x)
        where = staticmethod(_where)

    def run_np():
        assume(m <= M)
        return nsvdmod.get_deterministic_sign_multiplier(_Col(), axis=0)
    with patched_globals([nsvdmod], {"np": NPs}):
        paths = explore(run_np, maxpaths=16)
    res.paths += len(paths)
    for pth in paths:
        fn = "_numpy.get_deterministic_sign_multiplier"
        if pth.kind != "return":
            agg.vc(fn, "within-supported-subset", {"status": "undecided" if pth.kind == "unsupported" else "failed", "residue": f"{pth.exc} {pth.tb[-2:]}"}, "")
            continue
        agg.vc(fn, "sign in {+1,-1} and the largest-magnitude entry becomes non-negative", prove_scalar(pth.ctx, spec(zsign(pth.value))), "")

    # xarray level: xeofs.utils.xarray_utils.get_deterministic_sign_multiplier
    class Pair:
        def __init__(self, vals, labels=None): self.vals, self.labels = vals, labels
        def assign_coords(self, sign): return Pair(self.vals, list(sign))
        def idxmax(self, dim):
            a, b = self.vals
            # idxmax returns the FIRST maximal label
            return Lab(PNum(z3.If(a.z >= b.z, z3.RealVal(self.labels[0]), z3.RealVal(self.labels[1]))))

    class Lab:
        def __init__(self, v): self.v = v
        @property
        def coords(self): return {}
        def drop(self, d): return self

    class Sc(PNum):
        """0-d real value presenting the DataArray attributes the function touches"""
        __slots__ = ()
        real = property(lambda self: self)

    class ColDA(_Col):
        def max(self, dim): return Sc(self.M.z)
        def min(self, dim): return Sc(self.m.z)

    class XRs:
        concat = staticmethod(lambda objs, dim: Pair(list(objs)))
        where = staticmethod(lambda c, a, b: Lab(_where(c, a.v if isinstance(a, Lab) else a, b.v if isinstance(b, Lab) else b)))

    class NPx:
        abs = staticmethod(lambda pair: Pair([abs(v) for v in pair.vals], pair.labels))

    def run_xr():
        assume(m <= M)
        return xumod.get_deterministic_sign_multiplier(ColDA(), "feature")
    with patched_globals([xumod], {"np": NPx, "xr": XRs}):
        paths = explore(run_xr, maxpaths=16)
    res.paths += len(paths)
    for pth in paths:
        fn = "xarray_utils.get_deterministic_sign_multiplier"
        if pth.kind != "return":
            agg.vc(fn, "within-supported-subset", {"status": "undecided" if pth.kind == "unsupported" else "failed", "residue": f"{type(pth.exc).__name__} {pth.exc} {pth.tb[-2:]}"}, "")
            continue
        agg.vc(fn, "sign in {+1,-1} and the largest-magnitude entry becomes non-negative", prove_scalar(pth.ctx, spec(zsign(pth.value.v))), "")


# ---------------------------------------------------------------- bounded
def eval_case(c):
    rng = np.random.default_rng(c["seed"])
    msgs = []
    kind = c["kind"]
    if kind == "threshold":
        nn, pp = c["n"], c["p"]
        X = real.matrix(rng, nn, pp, c["spec"], 1.0, c["cplx"])
        X = X - X.mean(0)
        sref = np.linalg.svd(X, compute_uv=False)
        frac = np.cumsum(sref ** 2 / (nn - 1)) / (np.sum(np.abs(X) ** 2) / (nn - 1))
        kpre = max(1, int(min(nn, pp) * c["irr"]))
        if c.get("near") is not None:
            # requested fraction a hair (2e-6) above what the first near+1 modes explain: one more mode is needed
            c = dict(c, f=float(frac[c["near"]] + 2e-6))
            if c["f"] > 1 or frac[c["near"] + 1] - c["f"] < 1e-6:
                return True, "spectrum leaves no room above the near-threshold (skipped)"
        hits = np.nonzero(frac[:kpre] >= c["f"] * (1 - 1e-12))[0]
        want = int(hits[0]) + 1 if len(hits) else kpre
        if len(hits) and abs(frac[hits[0]] - c["f"]) < 1e-9 or (hits.size and hits[0] > 0 and abs(frac[hits[0] - 1] - c["f"]) < 1e-9):
            return True, "fraction on a rounding boundary (skipped)"
        import warnings
        with warnings.catch_warnings(record=True) as w:
            warnings.simplefilter("always")
            if c["level"] == "Decomposer":
                d = decmod.Decomposer(n_modes=c["f"], init_rank_reduction=c["irr"], solver="full")
                d.fit(real.da2(X, "sample", "feature"))
                got = d.s_.size
            elif c["level"] == "SVD":
                U, s, V = svdmod.SVD(n_modes=c["f"], init_rank_reduction=c["irr"], solver="full").fit_transform(real.da2(X, "sample", "feature"))
                got = s.size
            else:
                m = (xeofs.single.ComplexEOF if c["cplx"] else xeofs.single.EOF)(n_modes=c["f"], solver="full").fit(real.da2(X), "time")
                got = m.data["norms"].size
                kpre = max(1, int(min(nn, pp) * 0.3))
                hits = np.nonzero(frac[:kpre] >= c["f"] * (1 - 1e-12))[0]
                want = int(hits[0]) + 1 if len(hits) else kpre
            warned = any("explained variance was requested" in str(x.message) for x in w)
        if got != want:
            msgs.append(f"fraction {c['f']}: kept {got} modes, the smallest sufficient number among the {kpre} precomputed is {want}")
        if warned != (len(hits) == 0):
            msgs.append(f"warning issued={warned} but fraction reachable={len(hits) > 0}")
    elif kind == "agree":
        nn, pp, k = c["n"], c["p"], c["k"]
        s = np.concatenate([np.linspace(10, 8, k), 0.01 * np.ones(min(nn, pp) - k)])
        U, _ = np.linalg.qr(rng.standard_normal((nn, len(s))))
        V, _ = np.linalg.qr(rng.standard_normal((pp, len(s))))
        X = (U * s) @ V.T
        da = real.da2(X, "sample", "feature")
        if c["dask"]:
            da = da.chunk({"sample": nn // 2, "feature": -1})
        de = decmod.Decomposer(n_modes=k, solver="full"); de.fit(real.da2(X, "sample", "feature"))
        dr = decmod.Decomposer(n_modes=k, solver="randomized", random_state=3); dr.fit(da)
        if real.relerr(np.asarray(dr.s_.values), de.s_.values) > 1e-5:
            msgs.append("exact and randomised singular values differ beyond the method's accuracy (gap present)")
        Pe = de.V_.values @ de.V_.values.T
        Pr = np.asarray(dr.V_.values) @ np.asarray(dr.V_.values).T
        if real.abserr(Pe, Pr) > 1e-4:
            msgs.append("exact and randomised subspaces differ (gap present)")
    elif kind == "seed":
        nn, pp = 60, 20
        X = real.matrix(rng, nn, pp, "random", 1.0, c["cplx"]) + 0.2 * rng.standard_normal((nn, pp))
        da = real.da2(X, "sample", "feature")
        if c["dask"]:
            da = da.chunk({"sample": 30, "feature": -1})
        outs = []
        for _ in range(2):
            if c["level"] == "Decomposer":
                d = decmod.Decomposer(n_modes=3, solver="randomized", random_state=c["rs"]); d.fit(da)
                outs.append((np.asarray(d.U_.values), np.asarray(d.s_.values), np.asarray(d.V_.values)))
            else:
                m = (xeofs.single.ComplexEOF if c["cplx"] else xeofs.single.EOF)(n_modes=3, solver="randomized", random_state=c["rs"]).fit(
                    real.da2(X), "time")
                outs.append((m.scores().values, m.singular_values().values, m.components().values))
        if not all(np.array_equal(a, b) for a, b in zip(*outs)):
            msgs.append(f"equal inputs with random_state={c['rs']} are not bit-identical")
    elif kind == "sign":
        nn, pp = 30, c["p"]
        X = real.matrix(rng, nn, pp, "random", 1.0, False)
        m = xeofs.single.EOF(n_modes=min(4, pp), solver=c["solver"], random_state=1).fit(real.da2(X), "time")
        comps = m.components().transpose("x", "mode").values
        big = comps[np.argmax(np.abs(comps), axis=0), np.arange(comps.shape[1])]
        if np.any(big < 0):
            msgs.append("largest-magnitude loading of a mode is negative")
    elif kind == "signfn":
        import itertools
        vals = (-1.0, -0.25, 0.0, 0.25, 1.0)
        cols = np.array(list(itertools.product(vals, repeat=3))).T          # 3 x 125: every column over the value set
        cols = cols[:, np.abs(cols).max(0) > 0]
        sg1 = np.asarray(nsvdmod.get_deterministic_sign_multiplier(cols, axis=0))
        da = xr.DataArray(cols, dims=("feature", "mode"), coords={"feature": [0, 1, 2], "mode": np.arange(1, cols.shape[1] + 1)})
        sg2 = xumod.get_deterministic_sign_multiplier(da, "feature").values
        for nm, sg in (("_numpy", sg1), ("xarray_utils", sg2)):
            flipped = cols * sg
            top = np.where(np.abs(cols) == np.abs(cols).max(0), flipped, -np.inf).max(0)   # best largest-magnitude entry
            bad = np.nonzero((top < 0) | (np.abs(sg) != 1))[0]
            if len(bad):
                msgs.append(f"{nm}.get_deterministic_sign_multiplier: column {cols[:, bad[0]].tolist()} gets sign {sg[bad[0]]}: largest-magnitude entry stays negative")
    elif kind == "kwargs":
        X = rng.standard_normal((40, 8))
        Y = rng.standard_normal((40, 6))
        dx, dy = real.da2(X, "time", "x"), real.da2(Y, "time", "y")
        name = c["model"]
        kw = {"n_oversamples": 12} if c["solver"] == "randomized" else {}
        try:
            if name in ("EOF", "ComplexEOF", "HilbertEOF", "SparsePCA", "OPA", "ExtendedEOF", "POP"):
                extra = dict(tau_max=2, n_pca_modes=4) if name == "OPA" else (dict(tau=1, embedding=2) if name == "ExtendedEOF" else {})
                if name == "POP":
                    extra = dict(n_pca_modes=4)
                getattr(xeofs.single, name)(n_modes=2, solver=c["solver"], solver_kwargs=kw, **extra).fit(dx, "time")
            elif name in ("SVD", "PCA"):
                if name == "SVD":
                    svdmod.SVD(n_modes=2, solver=c["solver"], solver_kwargs=kw).fit_transform(real.da2(X, "sample", "feature"))
                else:
                    pcamod.PCA(n_modes=2, solver_kwargs=kw).fit(real.da2(X, "sample", "feature"))
            else:
                getattr(xeofs.cross, name)(n_modes=2, solver=c["solver"], solver_kwargs=kw, use_pca=False).fit(dx, dy, "time")
        except Exception as e:  # noqa: BLE001
            msgs.append(f"{name}(solver={c['solver']!r}, solver_kwargs={kw}) raised {type(e).__name__}: {str(e)[:120]}")
    return (not msgs), "; ".join(msgs)


def bounded_cases(tier, seed):
    rng = np.random.default_rng(seed)
    cases = []
    for spec in ("geometric", "flat", "clustered", "deficient", "random"):
        for f in (0.1, 0.5, 0.9, 0.99, 1.0):
            for irr in (0.3, 1.0):
                for level in ("Decomposer", "SVD", "model"):
                    for cplx in (False, True):
                        if level == "SVD" and cplx:
                            continue
                        cases.append(dict(kind="threshold", spec=spec, f=f, irr=irr, level=level, n=30, p=12, cplx=cplx))
    for spec in ("geometric", "random"):
        for near in (0, 2):
            for level in ("Decomposer", "SVD", "model"):
                cases.append(dict(kind="threshold", spec=spec, f=None, near=near, irr=1.0 if level != "model" else 0.3, level=level, n=30, p=12,
                                  cplx=False, keep=spec == "geometric"))
    for dk in (False, True):
        for (nn, pp, k) in ((80, 30, 3), (40, 60, 5)):
            cases.append(dict(kind="agree", n=nn, p=pp, k=k, dask=dk, keep=True))
    for rs in (0, 1, 42, 2 ** 31 - 1):
        for level in ("Decomposer", "model"):
            for cplx in (False, True):
                for dk in (False, True):
                    if dk and (cplx or level == "model"):
                        continue
                    cases.append(dict(kind="seed", rs=rs, level=level, cplx=cplx, dask=dk, keep=rs == 0))
    for solver in ("full", "randomized", "auto"):
        for pp in (7, 1):
            if pp == 1 and solver == "randomized":
                continue
            cases.append(dict(kind="sign", solver=solver, p=pp, keep=pp == 1))
    cases.append(dict(kind="signfn", keep=True))
    for model in ("EOF", "ComplexEOF", "HilbertEOF", "SparsePCA", "OPA", "ExtendedEOF", "POP", "SVD", "PCA", "CPCCA", "MCA", "CCA", "RDA"):
        for solver in ("randomized", "full"):
            if model in ("ComplexEOF", "HilbertEOF") and solver == "randomized":
                continue        # scipy svds takes other keywords
            cases.append(dict(kind="kwargs", model=model, solver=solver, keep=True))
    for i, c in enumerate(cases):
        c["seed"] = int(seed) * 1000 + i
    if tier == "quick":
        cases = [c for c in cases if c.get("keep")] + real.subsample([c for c in cases if not c.get("keep")], 70, rng)
    return cases


def run_bounded(res, tier, seed):
    for c in bounded_cases(tier, seed):
        sig = {k: c.get(k) for k in ("kind", "spec", "level", "cplx", "dask", "model", "solver", "rs", "p")}
        try:
            ok, detail = eval_case(c)
        except Exception as e:  # noqa: BLE001
            ok, detail = False, f"{type(e).__name__}: {e}"
            sig["exception"] = type(e).__name__
        res.case("C15." + c["kind"], sig, ok, detail, payload=c)


def replay(payload):
    ok, detail = eval_case(payload["payload"])
    return ok, f"C15 replay {payload['payload']}: {'ok' if ok else detail}"


def run(tier, seed):
    res = Result("C15")
    res.functions = ["xeofs.linalg.decomposer:Decomposer.__init__", "Decomposer.fit", "Decomposer._svd",
                     "xeofs.linalg._numpy._svd:_SVD.__init__", "_SVD._get_n_modes_precompute", "_SVD.fit_transform", "_SVD._svd",
                     "xeofs.linalg._numpy._svd:get_deterministic_sign_multiplier", "xeofs.utils.xarray_utils:get_deterministic_sign_multiplier",
                     "xeofs.linalg.svd:SVD.fit_transform", "xeofs.preprocessing.pca:PCA.fit", "xeofs.utils.sanity_checks:sanity_check_n_modes"]
    res.assumptions = ["explained variances are non-negative, hence their cumulative sum is non-decreasing (contract of cumsum + arithmetic); the count lemma itself is proved by induction (z3)",
                       "randomised back ends are deterministic functions of their seed and return the exact leading triplets (accuracy NOT verified; bounded runs with a spectral gap)",
                       "xr.concat/assign_coords/idxmax in the xarray-level sign function are modelled on one column by their documented semantics (idxmax returns the first maximal label)",
                       "integers mathematical, floats real; int() of a non-negative real is floor"]
    res.trusted = ["CPython on proxies", "z3 (LIA/LRA + quantifiers, strings for the solver name)", "library stubs in vf/sym/lib.py"]
    agg = Agg(res, "C15")
    deductive(res, agg)
    # models that wrap an inner EOF (ExtendedEOF, OPA, bootstrap members) must hand solver, seed and pass-through options on
    from props.C07 import deductive_inner_models
    deductive_inner_models(res, agg, aspects=("solver",))
    agg.flush()
    run_bounded(res, tier, seed)
    return res

"""C05 Out-of-sample transform is a per-sample map labelled by the new data.

Deductive (domain L): the REAL Preprocessor chain (Scaler, DimensionRenamer, MultiIndexConverter, Stacker, Sanitizer
via GenericListTransformer, Concatenator) is traced on structural proxies for fit, transform(new data) and both score
inverse chains: on every path the unseen scores carry the new data's own sample coordinate identities, no NaN-filling
reindex occurs on the unseen path, and the 2-d matrix handed to the model is row-local in the new data (all statistics
come from the fitted data).  Row locality of the model algorithms themselves follows from their traced result terms
(X_new enters linearly from the left only).  Bounded: real models, concatenation / subset relations, label kinds.
"""
import numpy as np
import xarray as xr
import z3

import xeofs

from vf import real
from vf.contracts.common import Agg, struct_vc
from vf.contracts.prep import trace_chain
from vf.report import Result
from vf.sym.core import PathLimit
from vf.sym.ldom import ops_in

LEVEL = "other"
EXPLANATION = ("contracts: part proved, part bounded. Proved on the real preprocessing chain for every extent, coordinate content and NaN "
               "mask of each structure class: unseen scores are labelled with the new data's sample coordinates (incl. several sample dims "
               "and a sample MultiIndex), never re-indexed to the training coordinates, and the matrix given to the model depends on the new "
               "data row by row only. Bounded: concatenation and subset relations on real models of every transform-capable class")

CONFIGS = {
    "1 sample dim, NaN checks": dict(check_nans=True),
    "1 sample dim, no NaN checks": dict(check_nans=False),
    "2 sample dims": dict(check_nans=False, sample=("t1", "t2"), feature=("x",)),
    "2 sample dims, NaN checks": dict(check_nans=True, sample=("t1", "t2"), feature=("x",)),
    "sample MultiIndex": dict(check_nans=False, multiindex=("time",)),
    "feature dims first": dict(check_nans=False, order=("lat", "time", "lon")),
    "standardised": dict(check_nans=False, with_std=True),
    "lazy": dict(check_nans=False, lazy=True, compute=False),
}


def _bases(coord):
    """names of the original coordinates a coordinate identity is built from"""
    out = set()
    def walk(c):
        if not c.parts:
            out.add(c.kind)
        for p in c.parts:
            if hasattr(p, "kind"):
                walk(p)
    walk(coord.cid)
    return out


def _stat_args(val):
    """arguments of every reduction (mean/std/var) in a provenance term"""
    out = []
    def walk(v):
        if isinstance(v, tuple):
            if v and v[0] in ("mean", "std", "var"):
                out.append(v[2])
            for x in v:
                walk(x)
    walk(val)
    return out


def _mentions(val, name):
    if isinstance(val, tuple):
        if val == ("in", name):
            return True
        return any(_mentions(x, name) for x in val)
    return False


def _outside_stats(val, name):
    """does ("in", name) occur outside the argument of a statistic?"""
    if isinstance(val, tuple):
        if val == ("in", name):
            return True
        if val and val[0] in ("mean", "std", "var"):
            return False
        return any(_outside_stats(x, name) for x in val)
    return False


def _kept_conditions(val):
    out = []
    def walk(v):
        if isinstance(v, tuple):
            if v and v[0] == "kept" and len(v) > 2:
                out.append(v[2])
            for x in v:
                walk(x)
    walk(val)
    return out


def deductive(res, agg):
    fn = "Preprocessor.transform/inverse_transform_scores_unseen"
    for cfg, kw in CONFIGS.items():
        sample = kw.get("sample", ("time",))
        try:
            paths = trace_chain(**kw)
        except PathLimit as e:
            res.undecided_reasons.append(f"{fn}[{cfg}]: {e}")
            continue
        res.paths += len(paths)
        nret = 0
        for pth in paths:
            if pth.kind == "unsupported":
                agg.vc(fn, "within-supported-subset", {"status": "undecided", "residue": f"{pth.exc} at {pth.tb[-3:]}"}, cfg)
                continue
            if pth.kind == "raise":
                ok = isinstance(pth.exc, ValueError) and kw.get("check_nans", True) and ("NaN" in str(pth.exc))
                agg.vc(fn, "the only refusals of well-formed new data are the NaN refusals (C06)", struct_vc(ok, f"{type(pth.exc).__name__}: {pth.exc}"), cfg)
                continue
            nret += 1
            o = pth.value
            un, fs, new2d = o["unseen"], o["fitscores"], o["new2D"]
            bs = set()
            for d in sample:
                if d in un._coords:
                    bs |= _bases(un._coords[d])
            want = {f"Xnew.{d}" for d in sample}
            agg.vc(fn, "unseen scores carry the new data's own sample coordinates", struct_vc(bs == want and set(un.dims) == set(sample) | {"mode"}, f"dims {un.dims}, coordinate bases {bs}"), cfg)
            agg.vc(fn, "no re-indexing (NaN fill) on the unseen path", struct_vc("reindex" not in ops_in(un.val) and un.val in (("in", "S_new"), ("nanfill-unstack", ("in", "S_new"))), repr(un.val)[:200]), cfg)
            fb = set()
            for d in sample:
                if d in fs._coords:
                    fb |= _bases(fs._coords[d])
            agg.vc("Preprocessor.inverse_transform_scores", "fitted scores keep the training sample coordinates", struct_vc(fb == {f"X.{d}" for d in sample}, str(fb)), cfg)
            stats = _stat_args(new2d.val)
            agg.vc(fn, "row locality: every statistic used on new data was estimated from the fitted data only",
                   struct_vc(all(not _mentions(a, "Xnew") for a in stats) and _mentions(new2d.val, "Xnew"), repr(stats)[:200]), cfg)
            agg.vc(fn, "row locality: no operation that mixes samples of the new data (reductions over samples, sorting, joins)",
                   struct_vc(not ({"reindex", "common"} & ops_in(new2d.val)) and not [e for e in o["events_transform"] if e[0] in ("inner-join", "outer-join")],
                             f"{ops_in(new2d.val)} {o['events_transform'][:2]}"), cfg)
            conds = _kept_conditions(new2d.val)
            agg.vc(fn, "which samples/features of new data are dropped is decided from the new data itself",
                   struct_vc(all(not _outside_stats(cv, "X") and _mentions(cv, "Xnew") for cv in conds), repr(conds)[:200]), cfg)
            agg.vc(fn, "2-d matrix for the model has dims (sample, feature)", struct_vc(new2d.dims == ("§S", "§F"), str(new2d.dims)), cfg)
            agg.vc(fn, "transform does not modify the user's data object", struct_vc(not [e for e in o["events_transform"] if e[0] == "mutate"], str(o["events_transform"][:2])), cfg)
        if nret == 0:
            agg.vc(fn, "has-returning-path", struct_vc(False, "vacuity guard"), cfg)
    # model level: the traced transform algorithms are linear in X_new from the left (shared traces)
    from props import C01, C09, C11

    class Lin:
        def __init__(self, agg):
            self.agg = agg

        def vc(self, function, clause, r, config=""):
            if function.endswith("_transform_algorithm") and "transform(fit matrix)" in clause:
                # transform(X) = X M with M free of X was derived as X V = scores for the symbolic X itself
                return self.agg.vc(function, "transform is right-multiplication of the data matrix by a fitted matrix (row-local)", r, config)
            return True
    C01.deductive_eof(res, Lin(agg), "quick")
    C09.deductive(res, Lin(agg))
    C11.deductive(res, Lin(agg))


# ---------------------------------------------------------------- bounded
def _mk(rng, nn, t0=0, kind="plain", nlat=2, nlon=3, step=1):
    X = rng.standard_normal((nn, nlat * nlon)) * np.linspace(1, 2, nlat * nlon)
    da = real.da3(X, nlat).assign_coords(time=np.arange(t0, t0 + nn * step, step))
    if kind == "2d":
        n1 = nn // 2
        da = da.isel(time=slice(0, n1 * 2)).assign_coords(time=np.arange(n1 * 2))
        da = da.assign_coords(year=("time", np.repeat(np.arange(n1) + t0, 2)), month=("time", np.tile([1, 2], n1)))
        da = da.set_index(time=("year", "month")).unstack("time")
    if kind == "multiindex":
        n1 = nn // 2
        da = da.isel(time=slice(0, n1 * 2))
        mi = xr.Coordinates.from_pandas_multiindex(__import__("pandas").MultiIndex.from_product([np.arange(n1) + t0, [1, 2]], names=("year", "month")), "time")
        da = da.drop_vars("time").assign_coords(mi)
    return da


def _cat(a, b, dims):
    if len(dims) == 1:
        return xr.concat([a, b], dims[0])
    return xr.concat([a, b], dims[0])


def eval_case(c):
    rng = np.random.default_rng(c["seed"])
    kind = c["labels"]
    sd = ("year", "month") if kind == "2d" else ("time",)
    train = _mk(rng, 24, 0, kind)
    model = c["model"]
    cross = model in ("MCA", "CPCCA", "MCARotator", "CPCCARotator")
    def other(d):
        return (d.isel(lon=slice(0, 2)) * 0.5 + 0.01).rename({"lat": "lat2", "lon": "lon2"})
    S, C = xeofs.single, xeofs.cross
    if model in ("EOF", "ComplexEOF", "SparsePCA"):
        m = getattr(S, model)(n_modes=2, solver="full").fit(train + 0.7j * train.isel(lon=slice(None, None, -1)).assign_coords(lon=train.lon) if model == "ComplexEOF" else train, sd)
    elif model == "POP":
        m = S.POP(n_modes=2, n_pca_modes=4).fit(train, sd)
    elif model == "EOFRotator":
        m = S.EOFRotator(n_modes=2, power=c.get("power", 1)).fit(S.EOF(n_modes=3, solver="full").fit(train, sd))
    elif model in ("MCA", "CPCCA"):
        m = (C.MCA(n_modes=2, use_pca=False, solver="full") if model == "MCA" else C.CPCCA(n_modes=2, alpha=0.5, use_pca=False, solver="full")).fit(train, other(train), sd)
    else:
        b = (C.MCA(n_modes=3, use_pca=False, solver="full") if model == "MCARotator" else C.CPCCA(n_modes=3, alpha=0.5, use_pca=False, solver="full")).fit(train, other(train), sd)
        m = getattr(C, model)(n_modes=2, power=1).fit(b)
    cplx = model == "ComplexEOF"
    def tr(d, which="X"):
        d = d + 0.7j * d.isel(lon=slice(None, None, -1)).assign_coords(lon=d.lon) if cplx else d
        if not cross:
            return m.transform(d)
        if which == "X":
            return m.transform(X=d)
        return m.transform(Y=other(d))
    msgs = []
    n1 = 10
    t0 = {"disjoint": 100, "overlapping": 20, "equal": 0}[c["coords"]]
    new = _mk(rng, n1, t0, kind)
    first = "year" if kind in ("2d", "multiindex") and False else sd[0]
    for which in (("X", "Y") if cross else ("X",)):
        full = tr(new, which)
        # labels: the new data's own sample coordinates
        for d in sd:
            if d not in full.dims:
                msgs.append(f"{which}: scores lack the sample dimension {d}")
                continue
            if not np.array_equal(np.asarray(full[d].to_index()), np.asarray(new[d].to_index())):
                msgs.append(f"{which}: scores are not labelled with the new data's {d} coordinate")
        if np.isnan(np.asarray(full.values, dtype=complex)).any():
            msgs.append(f"{which}: spurious NaNs in the scores of new data ({int(np.isnan(np.asarray(full.values, dtype=complex)).sum())} of {full.size})")
        if msgs:
            break
        # concatenation = concatenation of transforms, for every split point
        L = new.sizes[sd[0]]
        for k in (range(1, L) if c["tier"] == "thorough" else (1, L // 2, L - 1)):
            a, b = new.isel({sd[0]: slice(0, k)}), new.isel({sd[0]: slice(k, None)})
            joined = xr.concat([tr(a, which), tr(b, which)], sd[0]).transpose(*full.dims)
            if real.relerr(joined.values, full.values) > 1e-8:
                msgs.append(f"{which}: transform of the concatenation differs from the concatenated transforms (split {k})")
                break
        # a subset of the training samples gives the corresponding subset of the scores
        idx = [1, 4, 5, 9] if kind != "2d" else [0, 3]
        sub = train.isel({sd[0]: idx})
        ts = tr(sub, which)
        sc = m.scores() if not cross else m.scores()[0 if which == "X" else 1]
        ref = sc.isel({sd[0]: idx}).transpose(*ts.dims)
        if real.relerr(ts.values, ref.values) > 1e-6:
            msgs.append(f"{which}: transform of a subset of the training samples differs from that subset of the scores")
        # repeated sample coordinates are kept as given
        if kind == "plain":
            rep = xr.concat([new.isel(time=slice(0, 3)), new.isel(time=slice(0, 3))], "time")
            tr_rep = tr(rep, which)
            if tr_rep.sizes["time"] != 6 or real.relerr(tr_rep.isel(time=slice(3, 6)).values, tr_rep.isel(time=slice(0, 3)).values) > 1e-10:
                msgs.append(f"{which}: repeated sample coordinates are not transformed sample by sample")
        # the same per-sample behaviour with normalized=True (scores divided by the FITTED norms, not by the new data's own)
        if c.get("normalized") and model not in ("POP",):
            def trn(d):
                d = d + 0.7j * d.isel(lon=slice(None, None, -1)).assign_coords(lon=d.lon) if cplx else d
                if not cross:
                    return m.transform(d, normalized=True)
                return m.transform(X=d, normalized=True) if which == "X" else m.transform(Y=other(d), normalized=True)
            try:
                fulln = trn(new)
                a, b = new.isel({sd[0]: slice(0, 3)}), new.isel({sd[0]: slice(3, None)})
                joined = xr.concat([trn(a), trn(b)], sd[0]).transpose(*fulln.dims)
                if real.relerr(joined.values, fulln.values) > 1e-8:
                    msgs.append(f"{which}: normalized=True: transform of the concatenation differs from the concatenated transforms")
                onen = trn(new.isel({sd[0]: slice(0, 1)}))
                if real.relerr(onen.values, fulln.isel({sd[0]: slice(0, 1)}).values) > 1e-8:
                    msgs.append(f"{which}: normalized=True: a single new sample is transformed differently on its own")
                scn = m.scores(normalized=True) if not cross else m.scores(normalized=True)[0 if which == "X" else 1]
                tsn = trn(sub)
                if real.relerr(tsn.values, scn.isel({sd[0]: idx}).transpose(*tsn.dims).values) > 1e-6:
                    msgs.append(f"{which}: normalized=True: transform of a subset of the training samples differs from that subset of the normalized scores")
            except TypeError:
                pass            # the model offers no `normalized` switch
        # a single sample
        one = tr(new.isel({sd[0]: slice(0, 1)}), which)
        if real.relerr(one.values, full.isel({sd[0]: slice(0, 1)}).values) > 1e-8:
            msgs.append(f"{which}: a single new sample is transformed differently on its own")
    if c.get("nan_train"):
        # training data with an all-NaN sample, new complete data on the SAME coordinates: nothing may be dropped
        tn = train.copy()
        tn[5] = np.nan
        m2 = S.EOF(n_modes=2, solver="full").fit(tn, sd)
        t2 = m2.transform(train)
        if t2.sizes[sd[0]] != train.sizes[sd[0]] or np.isnan(t2.values).any():
            msgs.append("complete new data on the training coordinates: a valid sample was dropped or NaN (stale NaN mask)")
    return (not msgs), "; ".join(msgs[:3])


def bounded_cases(tier, seed):
    rng = np.random.default_rng(seed)
    cases = []
    for model in ("EOF", "ComplexEOF", "SparsePCA", "POP", "EOFRotator", "MCA", "CPCCA", "MCARotator", "CPCCARotator"):
        for labels in ("plain", "2d", "multiindex"):
            for coords in ("disjoint", "overlapping", "equal"):
                cases.append(dict(model=model, labels=labels, coords=coords, tier=tier))
    cases.append(dict(model="EOF", labels="plain", coords="equal", nan_train=True, tier=tier, keep=True))
    for model in ("EOF", "EOFRotator", "MCA", "CPCCA", "MCARotator"):
        cases.append(dict(model=model, labels="plain", coords="disjoint", normalized=True, tier=tier, keep=True))
    for i, c in enumerate(cases):
        c["seed"] = int(seed) * 1000 + i
    if tier == "quick":
        cases = [c for c in cases if c.get("keep")] + real.subsample([c for c in cases if not c.get("keep")], 45, rng)
    return cases


def run_bounded(res, tier, seed):
    for c in bounded_cases(tier, seed):
        sig = {k: c.get(k) for k in ("model", "labels", "coords", "nan_train", "normalized")}
        try:
            ok, detail = eval_case(c)
        except Exception as e:  # noqa: BLE001
            ok, detail = False, f"{type(e).__name__}: {str(e)[:150]}"
            sig["exception"] = type(e).__name__
        res.case("C05.out-of-sample", sig, ok, detail, payload=c)


def replay(payload):
    ok, detail = eval_case(payload["payload"])
    return ok, f"C05 replay {payload['payload']}: {'ok' if ok else detail}"


def run(tier, seed):
    res = Result("C05")
    res.functions = ["xeofs.cross.cpcca_rotator:CPCCARotator._fit_algorithm/_sort_by_variance/transform/_compute_rot_mat_inv_trans (+ inherited CPCCA._inverse_transform_algorithm)", "xeofs.cross.base_model_cross_set:BaseModelCrossSet public methods (composition of preprocessor/PCA/whitener per field)", "xeofs.preprocessing.preprocessor:Preprocessor._fit_algorithm/transform/inverse_transform_scores/inverse_transform_scores_unseen",
                     "xeofs.preprocessing.list_processor:GenericListTransformer.*", "xeofs.preprocessing.scaler:Scaler.fit/transform",
                     "xeofs.preprocessing.dimension_renamer:DimensionRenamer.*", "xeofs.preprocessing.multi_index_converter:MultiIndexConverter.*",
                     "xeofs.preprocessing.stacker:Stacker.fit/transform/_stack/_unstack_to_dataarray/_reorder_dims", "xeofs.preprocessing.sanitizer:Sanitizer.*",
                     "xeofs.preprocessing.concatenator:Concatenator.*", "xeofs.preprocessing.preprocessor:extract_new_dim_names",
                     "EOF/CPCCA/EOFRotator._transform_algorithm (linearity, shared traces)"]
    res.assumptions = ["xarray structural laws as modelled in vf/sym/ldom.py: rename/transpose/stack/unstack relabel without changing values, unstack sorts, where(drop=True) keeps a sub-selection, reindex fills NaN at absent labels, arithmetic aligns on equal label sets",
                       "structure classes enumerated: 1-2 sample dims, 1-2 feature dims, dims order, sample MultiIndex, NaN checks on/off, lazy; DataArray inputs (Dataset / list inputs: bounded)",
                       "coordinate contents, extents and NaN masks are symbolic (every decision the chain takes on them is explored exhaustively)",
                       "BaseModelSingleSet.transform / BaseModelCrossSet.transform plumbing and cross-set rotators: bounded"]
    res.trusted = ["CPython on proxies", "vf/sym/ldom.py structural proxies and facades", "z3 (path feasibility)"]
    agg = Agg(res, "C05")
    deductive(res, agg)
    from vf.contracts import crosschain
    crosschain.obligations(agg, ("transform", "predict"))      # cross-set public methods: every field through its own chain, in order
    from vf.contracts import crossrot
    crossrot.obligations(res, agg, ("C05", "C04"))      # the real CPCCARotator traced against its callees' contracts
    # labels of fitted vs new scores through the real chain (shared with C02)
    from props.C02 import deductive_history
    deductive_history(res, agg)
    agg.flush()
    run_bounded(res, tier, seed)
    return res

"""C19 OPA returns uncorrelated series ordered by their own decorrelation time.

Deductive: the real OPA._fit_algorithm / _Ctau are traced on labelled proxies (inner EOF and both Decomposers under
their contracts, np.linalg.inv / norm under contracts) for tau_max = 1, 2, 3: the lagged covariances are those of the
normalised principal components (shift + dropna + label alignment modelled exactly), the lag sum carries half weights
at lag 0 and tau_max, the target is the symmetrised sum in C0^(-1/2) coordinates, the score series have Gram matrix
(n-1) I (uncorrelated, equal norm), filter patterns and optimally persistent patterns are bi-orthogonal, norms are the
series' Euclidean norms; the inner EOF receives the user's options (C07 contract).
Bounded: decorrelation time = trapezoid sum of the series' own lagged autocorrelation, descending order, optimality of
the first mode against random combinations, on white / red noise mixtures.
"""
import numpy as np
import xarray as xr
import z3

import xeofs
import xeofs.single.opa as opamod
import xeofs.utils.sanity_checks as scmod

from vf import real
from vf.contracts.common import Agg, DecomposerStub, F, S, std_names, struct_vc
from vf.report import Result
from vf.sym import lib
from vf.sym import terms as tm
from vf.sym import xda
from vf.sym.core import PNum, PathLimit, Unsupported, assume, ctx, explore, patched_globals, use_ctx, zl
from vf.sym.prove import prove_eq
from vf.sym.terms import fresh, named_ext
from vf.sym.xda import mk_da

LEVEL = "other"
EXPLANATION = ("contracts: part proved, part bounded. Proved on the real fit algorithm for every tau_max (loop rule on the lag loop; all extents): lagged covariance "
               "definition, trapezoidal lag weights, symmetrisation, whitened coordinates, uncorrelated equal-norm score series, "
               "bi-orthogonality of filter and persistent patterns. Bounded: the reported decorrelation times against the trapezoid sum "
               "of each series' own autocorrelation, their order, and optimality of the first mode (Rayleigh-Ritz is an axiom)")
n, p = named_ext("n"), named_ext("p")


class EOFStub:
    """contract of the inner EOF model after fit (C01): scores = U s with U^H U = I, s > 0, components V with V^H V = I;
    scores are centred (the inner model centres)"""
    last = None

    def __init__(self, **kw):
        self.kw = kw
        self.data = {}
        EOFStub.last = self

    def fit(self, X, dim=None):
        k = named_ext("kpc")
        assume(k.z >= 2)
        assume(k.z <= p.z)
        assume(k.z < n.z)
        U = tm.sym("Upc", n, k, ("real",))
        s = tm.sym("spc", k, k, ("diag", "real", "herm", "nonneg", "pos", "inv"))
        V = tm.sym("Vpc", p, k, ("real",))
        c = ctx()
        c.hyps += [(tm.mul(tm.H(U), U), tm.I(k), "EOF: U^H U = I"), (tm.mul(tm.H(V), V), tm.I(k), "EOF: V^H V = I")]
        cm = ("range", "1", "kpc")
        self.data = {"components": xda.SymDA(V, (F, "mode"), {F: p, "mode": k}, {F: X._cid[F], "mode": cm}),
                     "scores": xda.SymDA(tm.mul(U, s), (S, "mode"), {S: n, "mode": k}, {S: X._cid[S], "mode": cm})}
        self.fit_dim = dim
        return self


class PSDDecomposer(DecomposerStub):
    """SVD_k plus the lemma for C0: C0 is the covariance of uncorrelated principal components, a diagonal matrix with
    positive descending diagonal; when its entries are distinct its SVD is forced: U = V = a diagonal sign matrix and
    s = C0 (assumption: the retained PCA singular values are distinct)"""
    positive = True

    def fit(self, X, dims=("sample", "feature")):
        c = ctx()
        c.events.append(("call", {"callee": "Decomposer.fit", "dims": tuple(dims), "lazy_in": X.lazy, "kwargs": dict(self.kw)}))
        if set(X.dims) != set(dims):
            raise ValueError(f"Decomposer.fit: data dims {X.dims} do not match {dims}")
        Xt = X.transpose(*dims)
        k = Xt._ext[dims[0]]
        if not (PNum(zl(self.kw.get("n_modes"))) == PNum(k.z)):
            raise Unsupported("C0 decomposition that does not keep all modes")
        D = tm.sym(fresh("sgn"), k, k, ("diag", "real", "herm", "unit", "inv"))
        c.notes["C0"] = Xt.term
        c.notes["A0"] = (D, Xt.term)
        cm = ("range", "1", k.name)
        mk = lambda t, dd: xda.SymDA(t, dd, {d: k for d in dd}, {d: (cm if d == "mode" else Xt._cid.get(d)) for d in dd}, False, False)
        self.U_, self.V_ = mk(D, (dims[0], "mode")), mk(D, (dims[1], "mode"))
        t = Xt.term       # asserted diagonal and positive: re-checked by the normaliser whenever a power of it is taken
        sd = tm.T(t.op, t.args, t.rows, t.cols, t.props | {"diag", "real", "herm", "nonneg", "pos", "inv"})
        c.notes["A0"] = (D, sd)
        self.s_ = xda.SymDA(sd, ("mode",), {"mode": k}, {"mode": cm}, False, False, tags=("desc", "nonneg"))


def trace(tau_max):
    names, xrf, npf = std_names(EOF=EOFStub, Decomposer=PSDDecomposer, get_deterministic_sign_multiplier=lib.sign_multiplier)
    xrf.ufuncs = {npf.linalg.inv: lib.ufunc_inv, npf.linalg.norm: lib.ufunc_colnorm, npf.linalg.eigh: lib.ufunc_eigh}

    def run():
        assume(n.z >= 4 * tau_max + 4)
        assume(p.z >= 2)
        m = xeofs.single.OPA(n_modes=2, tau_max=tau_max, n_pca_modes=3, sample_name=S, feature_name=F)
        X = mk_da("X", (S, F), (n, p), owner="caller")
        m._fit_algorithm(X)
        return m, X, EOFStub.last

    with patched_globals([opamod, scmod], names):
        return explore(run, maxpaths=32)


def _Ct_spec(Zn, t):
    """lagged covariance of the normalised PCs at lag t (t: int or PNum): Z[:n-t]^T Z[t:] / (n-t-1)"""
    from vf.sym.core import zl
    from vf.sym.xda import lag_window
    tz = zl(t)
    if not isinstance(t, PNum) and t == 0:
        return tm.smul(1 / tm.rv(n.z - 1), tm.mul(tm.H(Zn), Zn))
    new = tm.ext_of(z3.simplify(n.z - tz))
    W = lag_window(n, t, new)
    lead = tm.mul(tm.H(tm.sel(n, new)), Zn)
    lag = tm.mul(tm.Tr(W), Zn)
    return tm.smul(1 / tm.rv(n.z - tz - 1), tm.mul(tm.H(lead), lag))


class LagLoopVC:
    """Hoare rule for `for tau in range(1, tau_max + 1)` of OPA._fit_algorithm with symbolic tau_max:
    invariant  M = Msum(tau) := 1/2 C_0 + sum_{t < tau} w_t C_t,  w_t = 1/2 if t = tau_max else 1.
    Msum is an uninterpreted k x k matrix per index; the rule checks entry (Msum(1) = 1/2 C_0) and that an arbitrary
    iteration adds exactly w_tau C_tau to it; the induction itself is the loop rule."""
    from vf.sym import looprule as _lr
    EndPath = _lr.EndPath

    def __init__(self, agg, tau_max):
        self.agg, self.tau_max, self.fn, self.cfg = agg, tau_max, "OPA._fit_algorithm", "tau_max symbolic (loop rule)"

    def _zn(self):
        kpc = named_ext("kpc")
        U, s = tm.sym("Upc", n, kpc, ("real",)), tm.sym("spc", kpc, kpc, ("diag", "real", "herm", "nonneg", "pos", "inv"))
        sq = z3.Real(f"sqrt[{z3.simplify(n.z - 1)}]")
        return tm.smul(1 / sq, tm.mul(U, s))

    def loop_entry(self, ordinal, kind, seqs, loc):
        M = loc["M"].transpose("feature1", "feature2").term
        self.agg.vc(self.fn, "loop invariant holds on entry: M = 1/2 C_0", prove_eq(ctx(), M, tm.smul(0.5, _Ct_spec(self._zn(), 0))), self.cfg)
        self.proto = loc["M"]

    def choose(self, ordinal):
        from vf.sym.core import decide
        return decide(z3.Bool("arbitrary_iteration"))

    def fresh_index(self, ordinal):
        t = z3.Int("tau")
        assume(t >= 1)
        assume(t <= self.tau_max.z)
        return PNum(t)

    def havoc(self, ordinal, name):
        if name == "M":
            k = self.proto._ext["feature1"]
            self.Msum = tm.sym("Msum[tau]", k, k, ("real",))
            return self.proto._new(self.Msum) if list(self.proto.dims) == ["feature1", "feature2"] else self.proto.transpose("feature1", "feature2")._new(self.Msum)
        return None

    def bind(self, ordinal, kind, seqs, idx):
        return idx

    def assume_inv(self, ordinal, idx, loc):
        pass

    def check_inv(self, ordinal, idx, loc):
        from vf.sym.core import decide
        last = decide(idx.z == self.tau_max.z)
        w = 0.5 if last else 1.0
        M = loc["M"].transpose("feature1", "feature2").term
        want = tm.add(self.Msum, tm.smul(w, _Ct_spec(self._zn(), idx)))
        self.agg.vc(self.fn, "an arbitrary iteration adds w_tau C_tau to M (w = 1/2 exactly at tau = tau_max, 1 otherwise; C_tau = lagged covariance of the normalised PCs)",
                    prove_eq(ctx(), M, want), self.cfg)

    def loop_break(self, ordinal, loc):
        self.agg.vc(self.fn, "the lag loop has no early exit", struct_vc(False, "break reached"), self.cfg)

    def assume_exit(self, ordinal, seqs, loc):
        pass


def trace_symbolic(agg):
    from vf.sym import looprule
    names, xrf, npf = std_names(EOF=EOFStub, Decomposer=PSDDecomposer, get_deterministic_sign_multiplier=lib.sign_multiplier)
    xrf.ufuncs = {npf.linalg.inv: lib.ufunc_inv, npf.linalg.norm: lib.ufunc_colnorm, npf.linalg.eigh: lib.ufunc_eigh}
    tau_max = PNum(z3.Int("tau_max"))
    vc = LagLoopVC(agg, tau_max)
    with patched_globals([opamod, scmod], names):
        f, text, info = looprule.compile_with_rule(opamod.OPA._fit_algorithm, 0, vc)

        def run():
            assume(tau_max.z >= 1)
            assume(n.z >= 4 * tau_max.z + 4)
            assume(p.z >= 2)
            m = xeofs.single.OPA(n_modes=2, tau_max=3, n_pca_modes=3, sample_name=S, feature_name=F)
            m._params["tau_max"] = tau_max
            X = mk_da("X", (S, F), (n, p), owner="caller")
            f(m, X)
            return m, X, EOFStub.last, vc
        return explore(run, maxpaths=48)


def _post(agg, pth, cfg, Mterm, target_clause):
    """obligations on one returning path; Mterm = the lag sum the loop is specified to have produced"""
    fn = "OPA._fit_algorithm"
    m, X, pca = pth.value[:3]
    d = m.data
    U, s = tm.sym("Upc", n, named_ext("kpc"), ("real",)), tm.sym("spc", named_ext("kpc"), named_ext("kpc"), ("diag", "real", "herm", "nonneg", "pos", "inv"))
    sq = z3.Real(f"sqrt[{z3.simplify(n.z - 1)}]")
    Zn = tm.smul(1 / sq, tm.mul(U, s))            # normalised PCs: scores / sqrt(n-1)
    vc = lambda clause, l, r, f=fn: agg.vc(f, clause, prove_eq(pth.ctx, l, r), cfg)
    C0 = m._C0.transpose("feature1", "feature2").term
    vc("C0 = lag-0 covariance of the normalised principal components", C0, _Ct_spec(Zn, 0))
    Msym = tm.add(Mterm(Zn), tm.Tr(Mterm(Zn)))
    decs = [e for e in pth.ctx.events if e[0] == "call" and e[1].get("callee") == "Decomposer.fit"]
    eig = pth.ctx.notes.get("eigh_args", [])
    agg.vc(fn, "one SVD (of C0) and one symmetric eigen-decomposition (of the target)", struct_vc(len(decs) == 1 and len(eig) == 1, f"{len(decs)} {len(eig)}"), cfg)
    if len(eig) == 1 and "A0" in pth.ctx.notes:
        target = eig[0][1]
        U0, s0 = pth.ctx.notes["A0"]
        A = tm.mul(U0, tm.dpow(s0, 0.5))               # C0^(1/2) factor used by the code
        want = tm.smul(0.5, tm.mul(tm.mul(tm.inv(A), Msym), tm.Tr(tm.inv(A))))
        vc(target_clause, target, want)
        vc("the matrix handed to the symmetric eigensolver is symmetric (precondition of eigh)", target, tm.Tr(target))
    P = d["scores"].transpose(S, "mode").term
    kk = d["scores"]._ext["mode"]
    vc("score series are mutually uncorrelated with equal norm: P^T P = (n-1) I", tm.mul(tm.H(P), P), tm.smul(tm.rv(n.z - 1), tm.I(kk)))
    Vf = d["filter_patterns"].transpose(F, "mode").term
    Wp = d["components"].transpose(F, "mode").term
    vc("filter patterns are bi-orthogonal to the optimally persistent patterns: V^T W = (n-1) I", tm.mul(tm.H(Vf), Wp), tm.smul(tm.rv(n.z - 1), tm.I(kk)))
    vc("norms = Euclidean norms of the score series", tm.dpow(d["norms"].term, 2), tm.dg(tm.mul(tm.H(P), P)))
    agg.vc(fn, "decorrelation times are eigenvalues of the target in descending order (leading n_modes)",
           struct_vc("desc" in d["decorrelation_time"].tags and "asc" not in d["decorrelation_time"].tags, str(d["decorrelation_time"].tags)), cfg)
    lam = d["decorrelation_time"].term
    Uo = m._U.transpose(F, "mode").term
    if len(eig) == 1:
        vc("decorrelation time_i = u_i^T target u_i for the returned eigenvectors", tm.mul(tm.mul(tm.H(Uo), eig[0][0]), Uo), lam)
    agg.vc(fn, "the inner PCA is fitted along the model's sample dimension with the user's names and n_pca_modes, centring (so covariances are covariances) and no further scaling", struct_vc(
        pca.fit_dim == S and pca.kw.get("sample_name") == S and pca.kw.get("feature_name") == F and pca.kw.get("n_modes") == 3
        and pca.kw.get("center", True) is True and pca.kw.get("standardize", False) is False and pca.kw.get("use_coslat", False) is False, str(pca.kw)), cfg)
    agg.vc(fn, "dims", struct_vc(set(d["scores"].dims) == {S, "mode"} and set(d["components"].dims) == {F, "mode"}
                                 and set(d["filter_patterns"].dims) == {F, "mode"}, f"{d['scores'].dims}"), cfg)


def deductive(res, agg, tier="quick"):
    fn = "OPA._fit_algorithm"
    TC = "target = 1/2 C0^(-1/2) (M + M^T) C0^(-1/2)^T with the trapezoidal lag sum M (half weights at lag 0 and tau_max)"
    for tau_max in ((1, 2, 3) if tier == "quick" else (1, 2, 3, 4, 5, 6, 8)):
        cfg = f"tau_max={tau_max}"
        try:
            paths = trace(tau_max)
        except PathLimit as e:
            res.undecided_reasons.append(f"{fn}[{cfg}]: {e}")
            continue
        res.paths += len(paths)
        nret = 0
        for pth in paths:
            if pth.kind == "unsupported":
                agg.vc(fn, "within-supported-subset", {"status": "undecided", "residue": f"{pth.exc} {pth.tb[-3:]}"}, cfg)
                continue
            if pth.kind != "return":
                continue
            nret += 1
            with use_ctx(pth.ctx):
                def Mterm(Zn, tau_max=tau_max):
                    # independent lag sum: 1/2 C0 + sum_{0<t<tau_max} C_t + 1/2 C_tau_max
                    M = tm.smul(0.5, _Ct_spec(Zn, 0))
                    for t in range(1, tau_max + 1):
                        M = tm.add(M, tm.smul(0.5 if t == tau_max else 1.0, _Ct_spec(Zn, t)))
                    return M
                _post(agg, pth, cfg, Mterm, TC)
        if nret == 0:
            agg.vc(fn, "has-returning-path", struct_vc(False, "vacuity guard"), cfg)
    # ---- every tau_max >= 1: the lag loop under the Hoare rule (invariant M = Msum(tau)), then the same post-conditions with M = Msum(tau_max + 1)
    cfg = "tau_max symbolic (loop rule)"
    try:
        paths = trace_symbolic(agg)
    except PathLimit as e:
        res.undecided_reasons.append(f"{fn}[{cfg}]: {e}")
        paths = []
    except Exception as e:  # noqa: BLE001
        agg.vc(fn, "loop rule applicable", {"status": "undecided", "residue": f"{type(e).__name__}: {e}"}, cfg)
        paths = []
    res.paths += len(paths)
    from vf.sym import looprule
    nret = nend = 0
    for pth in paths:
        if pth.kind == "raise" and isinstance(pth.exc, looprule.EndPath):
            nend += 1
            continue
        if pth.kind == "unsupported":
            agg.vc(fn, "within-supported-subset", {"status": "undecided", "residue": f"{pth.exc} {pth.tb[-3:]}"}, cfg)
            continue
        if pth.kind != "return":
            agg.vc(fn, "does not raise", struct_vc(False, f"{pth.exc!r} {pth.tb[-2:]}"), cfg)
            continue
        nret += 1
        with use_ctx(pth.ctx):
            vcobj = pth.value[3]
            _post(agg, pth, cfg, lambda Zn: vcobj.Msum, "target = 1/2 C0^(-1/2) (M + M^T) C0^(-1/2)^T for the lag sum M = Msum(tau_max + 1) established by the loop invariant")
    if paths:
        agg.vc(fn, "the loop rule explored an arbitrary iteration (both weights) and the loop exit", struct_vc(nend >= 2 and nret >= 1, f"{nend} iteration paths, {nret} exit paths"), cfg)


# ---------------------------------------------------------------- bounded
def _acf_trapz(x, tau_max):
    x = x - x.mean()
    n_ = len(x)
    def rho(t):
        return float(x[: n_ - t] @ x[t:] / (n_ - t - 1)) / float(x @ x / (n_ - 1))
    return 0.5 * rho(0) + sum(rho(t) for t in range(1, tau_max)) + 0.5 * rho(tau_max)


def eval_case(c):
    rng = np.random.default_rng(c["seed"])
    nn, pp = c["n"], 6
    phis = np.array([0.9, 0.7, 0.4, 0.1, 0.0, -0.2])[:pp]
    Z = np.zeros((nn, pp))
    e = rng.standard_normal((nn, pp))
    for t in range(1, nn):
        Z[t] = phis * Z[t - 1] + e[t]
    Q, _ = np.linalg.qr(rng.standard_normal((pp, pp)))
    X = Z @ Q if c["kind"] == "red" else rng.standard_normal((nn, pp))
    da = real.da2(X)
    m = xeofs.single.OPA(n_modes=c["k"], tau_max=c["tau_max"], n_pca_modes=c["npc"], center=c.get("center", True)).fit(da if c.get("center", True) else da + 3.0, "time")
    msgs = []
    P = m.scores().transpose("time", "mode").values
    G = P.T @ P
    if real.abserr(G / G[0, 0], np.eye(c["k"])) > 1e-8:
        msgs.append("score series are not mutually uncorrelated with equal norm")
    V = m.filter_patterns().transpose("x", "mode").values
    W = m.components().transpose("x", "mode").values
    B = V.T @ W
    if real.abserr(B / B[0, 0], np.eye(c["k"])) > 1e-8:
        msgs.append("filter patterns are not bi-orthogonal to the persistent patterns")
    dt = m.decorrelation_time().values
    own = np.array([_acf_trapz(P[:, i], c["tau_max"]) for i in range(c["k"])])
    if real.abserr(dt, own) > 1e-8 * max(1.0, np.abs(own).max()):
        msgs.append(f"reported decorrelation times {dt} != trapezoid sums of the series' own autocorrelation {own}")
    if np.any(np.diff(dt) > 1e-10):
        msgs.append(f"decorrelation times not descending: {dt}")
    # no other combination of the retained PCs is more persistent than the first mode
    pcs = m.data["input_data"].values
    best = own[0]
    for _ in range(200):
        w = rng.standard_normal(pcs.shape[1])
        if _acf_trapz(pcs @ w, c["tau_max"]) > best + 1e-8:
            msgs.append("a random combination of the retained PCs has a larger decorrelation time than the first mode")
            break
    return (not msgs), "; ".join(msgs[:3])


def bounded_cases(tier, seed):
    rng = np.random.default_rng(seed)
    cases = []
    for kind in ("red", "white"):
        for nn in (120, 300):
            for tau_max in (1, 3, 10, nn // 3):
                for npc, k in ((2, 1), (4, 2), (6, 3), (6, 6)):
                    cases.append(dict(kind=kind, n=nn, tau_max=tau_max, npc=npc, k=k, center=True))
    for tau_max in (2, 5):
        cases.append(dict(kind="red", n=150, tau_max=tau_max, npc=4, k=2, center=False, keep=True))
    for i, c in enumerate(cases):
        c["seed"] = int(seed) * 1000 + i
    if tier == "quick":
        cases = [c for c in cases if c.get("keep")] + real.subsample([c for c in cases if not c.get("keep")], 24, rng)
    return cases


def run_bounded(res, tier, seed):
    for c in bounded_cases(tier, seed):
        sig = {k: c.get(k) for k in ("kind", "center")}
        sig["all_pcs_kept"] = c["k"] == c["npc"]
        try:
            ok, detail = eval_case(c)
        except Exception as e:  # noqa: BLE001
            ok, detail = False, f"{type(e).__name__}: {str(e)[:150]}"
            sig["exception"] = type(e).__name__
        if not ok and "reported decorrelation times" in detail and "uncorrelated" not in detail:
            sig["only_decorrelation_time_values"] = True
        res.case("C19.opa", sig, ok, detail, payload=c)


def replay(payload):
    ok, detail = eval_case(payload["payload"])
    return ok, f"C19 replay {payload['payload']}: {'ok' if ok else detail}"


def run(tier, seed):
    res = Result("C19")
    res.functions = ["xeofs.single.opa:OPA.__init__", "OPA._fit_algorithm", "OPA._Ctau", "OPA._compute_matrix_inverse"]
    res.assumptions = ["inner EOF under its contract (C01) with retained singular values > 0; Decomposer under SVD_k; C0 is the covariance of uncorrelated principal components, hence diagonal with positive descending entries (this part is checked: the normaliser re-derives diagonality whenever a power of it is taken); its SVD is then forced to U = V = a diagonal sign matrix, s = C0 when the retained PCA singular values are distinct (assumed)",
                       "xarray: shift(-t).dropna keeps the rows t.. under the labels of the leading rows and xr.dot aligns on common labels (modelled exactly for prefixes)",
                       "the loop over lags is proved for every tau_max >= 1 by the Hoare rule (invariant M = 1/2 C_0 + sum_{t<tau} w_t C_t, mechanical rewrite of loop 0, vf/sym/looprule.py) and additionally executed for the concrete tau_max in {1,2,3}; termination is not proved; the values of the decorrelation times against each series' own autocorrelation: bounded",
                       "Rayleigh-Ritz (optimality of the leading eigenvector) is an axiom; bounded runs probe it with random combinations"]
    res.trusted = ["CPython on proxies", "vf/sym normaliser", "z3 (NRA for sqrt(n-1))"]
    agg = Agg(res, "C19")
    deductive(res, agg, tier)
    agg.flush()
    run_bounded(res, tier, seed)
    return res

"""C04 transform of the training data reproduces the model's scores.

Deductive: the transform clauses of the real EOF/ComplexEOF._transform_algorithm, CPCCA._transform_algorithm and
EOFRotator._transform_algorithm (both before and after the re-ordering) are discharged against the state their own
_fit_algorithm leaves (callees under contract) - shared traces with C01/C09/C11.
Bounded: every transform-capable class on real data (values, dims, sample labels, mode order, sign).
"""
import numpy as np
import xarray as xr

import xeofs

from vf import real
from vf.contracts.common import Agg
from vf.report import Result

LEVEL = "other"
EXPLANATION = ("contracts: part proved, part bounded. transform(fit matrix) = scores discharged for EOF/ComplexEOF, the CPCCA family core and the EOF rotators "
               "(all powers, sorted and unsorted state) at the level of the 2-d algorithms; the preprocessing plumbing around "
               "them, SparsePCA, POP, the cross-set rotators and multi.CCA are evaluated on real models (bounded)")


class _Filter:
    """collect only the C04-relevant verification conditions of the shared traces"""

    def __init__(self, agg):
        self.agg = agg

    def vc(self, function, clause, r, config=""):
        if clause.startswith("C04") or function.endswith("_transform_algorithm") or clause in (
                "within-supported-subset", "has-returning-path"):
            return self.agg.vc(function, clause.replace("C04: ", ""), r, config)
        return r["status"] == "discharged"


def deductive(res, agg):
    from props import C01, C09, C11
    f = _Filter(agg)
    C01.deductive_eof(res, f, "quick")
    C09.deductive(res, f)
    C11.deductive(res, f)


def _fit_single(name, da, c):
    S = xeofs.single
    if name in ("EOF", "ComplexEOF", "SparsePCA", "POP"):
        kw = dict(n_modes=c["k"], solver="full") if name != "POP" else dict(n_modes=c["k"], n_pca_modes=4)
        if name == "SparsePCA":
            kw["solver"] = "full"
        return getattr(S, name)(**kw).fit(da, "time")
    if name in ("EOFRotator", "ComplexEOFRotator"):
        base = getattr(S, name.replace("Rotator", ""))(n_modes=c["k"] + 1, solver="full").fit(da, "time")
        return getattr(S, name)(n_modes=c["k"], power=c["power"], max_iter=5000, rtol=1e-10).fit(base)
    raise ValueError(name)


def eval_case(c):
    rng = np.random.default_rng(c["seed"])
    nn, pp = c["n"], c["p"]
    msgs = []
    cplx = c.get("cplx", False)
    if c["family"] == "single":
        X = real.matrix(rng, nn, pp, "geometric", 1.0, cplx) + 0.1 * rng.standard_normal((nn, pp))
        if c.get("nan_sample"):
            X = X.copy()
            X[3, :] = np.nan
        da = real.da3(X, 2) if c.get("layout") == "3d" else real.da2(X)
        m = _fit_single(c["model"], da, c)
        for normalized in (False, True):
            if c["model"] == "POP" and normalized:
                pass
            t = m.transform(da, normalized=normalized)
            s = m.scores(normalized=normalized)
            msgs += _compare(t, s, f"normalized={normalized}")
    elif c["family"] == "cross":
        L = rng.standard_normal((nn, 3))
        X = L @ rng.standard_normal((3, pp)) + 0.5 * rng.standard_normal((nn, pp))
        Y = L @ rng.standard_normal((3, pp + 1)) + 0.5 * rng.standard_normal((nn, pp + 1))
        if cplx:
            X = X + 1j * (L @ rng.standard_normal((3, pp)))
            Y = Y + 1j * (L @ rng.standard_normal((3, pp + 1)))
        dx, dy = real.da2(X, "time", "x"), real.da2(Y, "time", "y")
        C = xeofs.cross
        kw = dict(n_modes=c["k"] + (1 if c.get("power") else 0), use_pca=c["use_pca"], n_pca_modes=4, solver="full")
        name = c["model"]
        base = name.replace("Rotator", "")
        if "CPCCA" in base:
            kw["alpha"] = c["alpha"]
        m = getattr(C, base)(**kw).fit(dx, dy, "time")
        if name.endswith("Rotator"):
            rot = getattr(C, name)(n_modes=c["k"], power=c["power"], max_iter=5000, rtol=1e-10)
            for j in range(c.get("refit", 0)):
                # the same rotator object was fitted before (on other models): history must not matter
                r2 = np.random.default_rng(c["seed"] + 91 + j)
                L2 = r2.standard_normal((nn, 4))
                X2 = L2 @ r2.standard_normal((4, pp)) + 0.3 * r2.standard_normal((nn, pp))
                Y2 = L2 @ r2.standard_normal((4, pp + 1)) + 0.3 * r2.standard_normal((nn, pp + 1))
                rot.fit(getattr(C, base)(**kw).fit(real.da2(X2 + 0j if cplx else X2, "time", "x"), real.da2(Y2 + 0j if cplx else Y2, "time", "y"), "time"))
            m = rot.fit(m)
        for normalized in (False, True):
            tx, ty = m.transform(dx, dy, normalized=normalized)
            sx, sy = m.scores(normalized=normalized)
            msgs += _compare(tx, sx, f"X normalized={normalized}") + _compare(ty, sy, f"Y normalized={normalized}")
            tx1 = m.transform(X=dx, normalized=normalized)
            msgs += _compare(tx1, sx, f"X only normalized={normalized}")
    else:
        X = rng.standard_normal((nn, pp))
        Y = 0.5 * X[:, :3] @ rng.standard_normal((3, pp)) + rng.standard_normal((nn, pp))
        views = [real.da2(X, "sample", "feature"), real.da2(Y, "sample", "feature")]
        m = xeofs.multi.CCA(n_modes=2, pca=c["pca"]).fit(views, "sample")
        t = m.transform(views)
        s = m.scores()
        if len(t) != len(views):
            msgs.append(f"multi.CCA.transform returned {len(t)} results for {len(views)} views")
        else:
            for i, (a, b) in enumerate(zip(t, s)):
                msgs += _compare(a, b, f"view {i}")
    return (not msgs), "; ".join(msgs[:3])


def _compare(t, s, what):
    out = []
    if set(t.dims) != set(s.dims):
        return [f"{what}: dims {t.dims} != {s.dims}"]
    t = t.transpose(*s.dims)
    sd = [d for d in s.dims if d != "mode"]
    # entirely missing samples may be omitted or NaN: compare on the samples transform returned
    for d in sd:
        if not set(t[d].values.tolist()) <= set(s[d].values.tolist()):
            return [f"{what}: sample labels of transform are not the training labels"]
    s2 = s.sel({d: t[d] for d in sd})
    if not np.array_equal(t["mode"].values, s2["mode"].values):
        out.append(f"{what}: mode labels differ")
    a, b = t.values, s2.values
    ok = np.isfinite(b)
    if np.any(~np.isfinite(a) & ok):
        out.append(f"{what}: transform has NaN where the scores are valid")
    elif ok.any() and real.relerr(a[ok], b[ok]) > 1e-6:
        out.append(f"{what}: transform(training data) != scores (rel {real.relerr(a[ok], b[ok]):.2e})")
    missing = [d for d in sd if len(t[d]) < len(s[d])]
    if missing:
        dropped = s.where(~s[sd[0]].isin(t[sd[0]]), drop=True) if len(sd) == 1 else None
        if dropped is not None and np.isfinite(dropped.values).any():
            out.append(f"{what}: transform omitted samples that have valid scores")
    return out


def bounded_cases(tier, seed):
    rng = np.random.default_rng(seed)
    cases = []
    for model in ("EOF", "ComplexEOF", "SparsePCA", "POP"):
        for layout in ("2d", "3d"):
            for nan_sample in (False, True):
                cases.append(dict(family="single", model=model, n=30, p=6, k=3, layout=layout, nan_sample=nan_sample,
                                  cplx=model == "ComplexEOF"))
    for model in ("EOFRotator", "ComplexEOFRotator"):
        for power in (1, 2, 3):
            cases.append(dict(family="single", model=model, n=30, p=6, k=3, power=power, layout="2d", cplx=model.startswith("Complex")))
    for model in ("CPCCA", "ComplexCPCCA", "MCA", "CCA", "RDA", "ComplexMCA"):
        for alpha in ((1.0, 0.5, 0.0) if "CPCCA" in model else (None,)):
            for use_pca in (False, True):
                cases.append(dict(family="cross", model=model, n=40, p=5, k=2, alpha=alpha, use_pca=use_pca, cplx=model.startswith("Complex")))
    for model in ("CPCCARotator", "MCARotator", "ComplexCPCCARotator"):
        for power in (1, 2):
            for alpha in ((1.0, 0.5, 0.0) if "CPCCA" in model else (None,)):
                for use_pca in (False, True):
                    cases.append(dict(family="cross", model=model, n=40, p=5, k=2, alpha=alpha, use_pca=use_pca, power=power,
                                      cplx=model.startswith("Complex")))
    for i in range(4):
        cases.append(dict(family="cross", model="MCARotator", n=40, p=5, k=3, alpha=None, use_pca=False, power=1 + i % 2, cplx=False, refit=2, keep=True))
    for pca in (False, True):
        cases.append(dict(family="multi", model="multi.CCA", n=40, p=5, pca=pca, keep=True))
    # larger views: the inner PCA of multi.CCA then runs with its default (truncated, randomised) settings
    cases.append(dict(family="multi", model="multi.CCA", n=150, p=48, pca=True, keep=True))
    cases.append(dict(family="multi", model="multi.CCA", n=60, p=80, pca=True, keep=False))
    for i, c in enumerate(cases):
        c["seed"] = int(seed) * 1000 + i
    if tier == "quick":
        cases = [c for c in cases if c.get("keep")] + real.subsample([c for c in cases if not c.get("keep")], 64, rng)
    return cases


def run_bounded(res, tier, seed):
    for c in bounded_cases(tier, seed):
        sig = {k: c.get(k) for k in ("family", "model", "power", "alpha", "use_pca", "layout", "nan_sample", "pca", "refit")}
        if c.get("alpha") is not None:
            sig["alpha_lt_1"] = c["alpha"] < 1
        try:
            ok, detail = eval_case(c)
        except Exception as e:  # noqa: BLE001
            ok, detail = False, f"{type(e).__name__}: {e}"
            sig["exception"] = type(e).__name__
        res.case("C04.transform-equals-scores", sig, ok, detail, payload=c)


def replay(payload):
    ok, detail = eval_case(payload["payload"])
    return ok, f"C04 replay {payload['payload']}: {'ok' if ok else detail}"


def run(tier, seed):
    from props import C01, C09, C11
    res = Result("C04")
    res.functions = ["xeofs.cross.cpcca_rotator:CPCCARotator._fit_algorithm/_sort_by_variance/transform/_compute_rot_mat_inv_trans (+ inherited CPCCA._inverse_transform_algorithm)", "xeofs.cross.base_model_cross_set:BaseModelCrossSet public methods (composition of preprocessor/PCA/whitener per field)", "xeofs.single.eof:EOF._transform_algorithm", "xeofs.cross.cpcca:CPCCA._transform_algorithm",
                     "xeofs.single.eof_rotator:EOFRotator._transform_algorithm", "EOFRotator._compute_rot_mat_inv_trans",
                     "EOFRotator._sort_by_variance", "xeofs.single.eof:EOF._fit_algorithm", "xeofs.cross.cpcca:CPCCA._fit_algorithm",
                     "EOFRotator._fit_algorithm"]
    res.assumptions = ["callee contracts as in C01/C09/C11 (SVD_k, promax, argsort, sign multiplier, Whitener.fit)",
                       "Preprocessor.transform(X_fit) reproduces the fitted 2-d matrix and the score inverse chains agree on fit coordinates: bounded here (structural part under C02/C05)",
                       "SparsePCA (definitional projection), POP, cross-set rotators, multi.CCA: bounded only", "float arithmetic exact"]
    res.trusted = ["CPython on proxies", "vf/sym normaliser", "z3"]
    agg = Agg(res, "C04")
    deductive(res, agg)
    from vf.contracts import crosschain
    crosschain.obligations(agg, ("fit", "transform"))      # cross-set public methods: every field through its own chain, in order
    from vf.contracts import crossrot
    crossrot.obligations(res, agg, ("C04",))      # the real CPCCARotator traced against its callees' contracts
    agg.flush()
    run_bounded(res, tier, seed)
    return res

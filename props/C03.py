"""C03 Full-mode inverse_transform restores the fitted data in its original units.

Deductive: (1) the real Scaler inside the real Preprocessor chain: inverse_transform_data(fit_transform(X)) = X for all
16 combinations of centring / standardisation / latitude weights / user weights (z3 on the generic element);
(2) Whitener and PCA data / pattern maps (shared with C16); (3) the real EOF / ComplexEOF algorithms with all modes kept:
reconstruction from the model's own scores = the fitted matrix (full-rank clauses of SVD_k); (4) the real
BaseModelSingleSet / BaseModelCrossSet transform and inverse_transform with the preprocessing chain replaced by its
contract: transform(inverse_transform(s)) = s for arbitrary s, and the `normalized` switches differ from the default
exactly by the per-mode norms.  Bounded: real models, all flags, alpha grid, PCA on/off, foreign sample coordinates.
"""
import itertools

import numpy as np
import xarray as xr
import z3

import xeofs
import xeofs.cross.base_model_cross_set as bcmod
import xeofs.cross.cpcca as cpmod
import xeofs.preprocessing.pca as pcamod
import xeofs.preprocessing.whitener as whmod
import xeofs.single.base_model_single_set as bsmod
import xeofs.single.eof as eofmod
import xeofs.utils.sanity_checks as scmod
import xeofs.utils.xarray_utils as xumod

from vf import real
from vf.contracts.common import Agg, DecomposerStub, F, S, std_names, struct_vc
from vf.report import Result
from vf.sym import lib
from vf.sym import terms as tm
from vf.sym import xda
from vf.sym.core import PNum, PathLimit, assume, ctx, explore, patched_globals, use_ctx
from vf.sym.nd import passthrough
from vf.sym.prove import prove_eq
from vf.sym.terms import named_ext
from vf.sym.xda import SymDA, mk_da

LEVEL = "proof"
EXPLANATION = ("Scaler round trip for all 16 flag combinations, Whitener/PCA maps, full-mode EOF reconstruction = fitted matrix, "
               "transform(inverse_transform(s)) = s for EOF/ComplexEOF and the CPCCA family (real and complex, X-only / Y-only / both), and the "
               "normalized switches = multiplication / division by the norms: discharged on the real code. Hilbert models, cross-set full "
               "reconstruction and the complete public path on real data are bounded runs")
n, p, q = named_ext("n"), named_ext("p"), named_ext("q")
F1, F2 = "§F1", "§F2"


class IdPrep:
    """contract stand-in for Preprocessor at the 2-d level (proved in the structural domain, C02/C05):
    transform returns the 2-d matrix of its argument, the inverse maps return their 2-d argument re-labelled"""

    def __init__(self, sample_name=S, feature_name=F):
        self.sample_name, self.feature_name = sample_name, feature_name

    def transform(self, X): return X
    def inverse_transform_data(self, X): return X
    def inverse_transform_scores(self, X): return X
    def inverse_transform_scores_unseen(self, X): return X
    def inverse_transform_components(self, X): return X


def deductive_scaler(res, agg):
    from props import C02
    fn = "Scaler.transform/inverse_transform_data (in the real chain)"
    for c_, s_, cl, w in itertools.product((True, False), repeat=4):
        cfg = f"center={c_},standardize={s_},coslat={cl},weights={w}"
        st = dict(sample=("time",), feature=("lat", "lon"), order=("time", "lat", "lon"), flags=dict(center=c_, std=s_, coslat=cl, weights=w))
        try:
            paths = C02.trace_struct(**st)
        except PathLimit as e:
            res.undecided_reasons.append(f"{fn}[{cfg}]: {e}")
            continue
        res.paths += len(paths)
        for pth in paths:
            if pth.kind != "return":
                agg.vc(fn, "within-supported-subset", {"status": "undecided" if pth.kind == "unsupported" else "failed", "residue": f"{pth.exc} {pth.tb[-2:]}"}, cfg)
                continue
            o = pth.value
            env = {}
            try:
                e = C02.to_z3(o["back"].val, env)
                fwd = C02.to_z3(o["X2"].val, env)
            except KeyError as ex:
                agg.vc(fn, "value terms within the calculus", {"status": "undecided", "residue": str(ex)}, cfg)
                continue
            x = env[("in", "X")]
            pre = [v > 0 for k, v in env.items() if isinstance(k, tuple) and k[0] in ("std", "coslat")] + [v != 0 for k, v in env.items() if k == ("in", "W")]
            def valid(goal):
                sv = z3.Solver()
                sv.set("timeout", 10000)
                sv.add(pre)
                sv.add(z3.Not(goal))
                r = sv.check()
                return {"status": "discharged" if r == z3.unsat else ("failed" if r == z3.sat else "undecided"), "backend": "z3", "residue": str(r) + " " + str(e)[:150]}
            agg.vc(fn, "inverse_transform_data(transform(X)) = X in physical units", valid(e == x), cfg)
            # direct postcondition (also the C08 clause): (x - mean)/std * coslat * w with exactly the enabled options
            m_ = [v for k, v in env.items() if isinstance(k, tuple) and k[0] == "mean"]
            sd = [v for k, v in env.items() if isinstance(k, tuple) and k[0] == "std"]
            co = [v for k, v in env.items() if k == ("coslat",)]
            ww = [v for k, v in env.items() if k == ("in", "W")]
            ok_shape = len(m_) == int(c_) and len(sd) == int(s_) and len(co) == int(cl) and len(ww) == int(w)
            want = x
            if c_ and m_:
                want = want - m_[0]
            if s_ and sd:
                want = want / sd[0]
            if cl and co:
                want = want * co[0]
            if w and ww:
                want = want * ww[0]
            r = valid(fwd == want)
            if not ok_shape:
                r = {"status": "failed", "backend": "z3", "residue": f"statistics used: mean {len(m_)}, std {len(sd)}, coslat {len(co)}, weights {len(ww)}"}
            agg.vc(fn, "transform = (x - mean)/std * sqrt(cos lat) * weights with exactly the enabled options", r, cfg)
            # the statistics are those of the fitted data over the sample dims
            stats = [k for k in env if isinstance(k, tuple) and k[0] in ("mean", "std")]
            agg.vc(fn, "mean and std are taken over the sample dimensions of the fitted data", struct_vc(all(k[1] == ("time",) and k[2] == ("in", "X") for k in stats), str(stats)), cfg)


def trace_single(cls, cplx):
    names, xrf, npf = std_names(Decomposer=DecomposerStub)

    def run():
        assume(n.z >= 2)
        assume(p.z >= 1)
        m = cls(n_modes=PNum(z3.Int("kreq")), sample_name=S, feature_name=F)
        m.preprocessor = IdPrep()
        X = mk_da("X", (S, F), (n, p), cplx=cplx, owner="caller")
        eofmod.EOF._fit_algorithm(m, X)
        k = m.data["scores"]._ext["mode"]
        ns = named_ext("ns")
        assume(ns.z >= 1)
        cm = m.data["scores"]._cid["mode"]
        sarb = mk_da("Sarb", (S, "mode"), (ns, k), cplx=cplx, cid={S: ("in", "Sarb", S), "mode": cm})
        out = {"m": m, "X": X, "sarb": sarb}
        out["rec_own"] = m.inverse_transform(m.scores())
        out["rec_own_norm"] = m.inverse_transform(m.scores(normalized=True), normalized=True)
        out["rt"] = m.transform(m.inverse_transform(sarb))
        out["rt_norm"] = m.transform(m.inverse_transform(sarb, normalized=True), normalized=True)
        out["scores"] = m.scores()
        out["scores_norm"] = m.scores(normalized=True)
        out["comps_norm"] = m.components(normalized=True)
        out["comps_raw"] = m.components(normalized=False)
        out["tr"] = m.transform(X)
        out["tr_norm"] = m.transform(X, normalized=True)
        return out

    with patched_globals([eofmod, bsmod, xumod, scmod], names):
        return explore(run, maxpaths=96)


def deductive_single(res, agg):
    for cls, cplx in ((xeofs.single.EOF, False), (xeofs.single.ComplexEOF, True)):
        cfg = "complex" if cplx else "real"
        fn = "BaseModelSingleSet.inverse_transform"
        try:
            paths = trace_single(cls, cplx)
        except PathLimit as e:
            res.undecided_reasons.append(f"{fn}[{cfg}]: {e}")
            continue
        res.paths += len(paths)
        nret = nfull = 0
        for pth in paths:
            if pth.kind == "unsupported":
                agg.vc(fn, "within-supported-subset", {"status": "undecided", "residue": f"{pth.exc} {pth.tb[-3:]}"}, cfg)
                continue
            if pth.kind != "return":
                continue
            nret += 1
            with use_ctx(pth.ctx):
                o = pth.value
                m, X, sarb = o["m"], o["X"], o["sarb"]
                norms = m.data["norms"].term
                k = m.data["scores"]._ext["mode"]
                vc = lambda f, clause, l, r: agg.vc(f, clause, prove_eq(pth.ctx, l, r), cfg)
                t = lambda a, *dims: a.transpose(*dims).term
                vc("BaseModelSingleSet.transform", "transform(inverse_transform(s)) = s for arbitrary scores s", t(o["rt"], S, "mode"), sarb.term)
                vc("BaseModelSingleSet.transform", "the same with normalized=True on both sides", t(o["rt_norm"], S, "mode"), sarb.term)
                vc("BaseModelSingleSet.scores", "scores(normalized=True) = scores / norms", t(o["scores_norm"], S, "mode"), tm.mul(t(o["scores"], S, "mode"), tm.inv(norms)))
                vc("BaseModelSingleSet.components", "components(normalized=False) = components * norms", t(o["comps_raw"], F, "mode"), tm.mul(t(o["comps_norm"], F, "mode"), norms))
                vc("BaseModelSingleSet.transform", "transform(normalized=True) = transform / norms", t(o["tr_norm"], S, "mode"), tm.mul(t(o["tr"], S, "mode"), tm.inv(norms)))
                vc(fn, "inverse_transform(normalized scores, normalized=True) = inverse_transform(scores)", t(o["rec_own_norm"], S, F), t(o["rec_own"], S, F))
                from vf.sym.prove import prove_scalar
                full = prove_scalar(pth.ctx, z3.Or(k.z == p.z, k.z == n.z))["status"] == "discharged"
                if full:
                    nfull += 1
                    vc(fn, "all modes kept: reconstruction from the model's own scores = the fitted matrix", t(o["rec_own"], S, F), X.term)
        agg.vc(fn, "a returning path with all modes kept exists (vacuity guard)", struct_vc(nfull > 0 and nret > 0, f"{nret} returning, {nfull} full-rank"), cfg)


def trace_cross(cplx, identity, which):
    names, xrf, npf = std_names(Decomposer=DecomposerStub, argsort_dask=lib.argsort_dask)
    xrf.ufuncs = {"CPCCA._compute_cross_covariance_numpy": passthrough(xda)}

    def run():
        from props.C09 import _set_whitener
        assume(n.z >= 2)
        assume(p.z >= 1)
        assume(q.z >= 1)
        cls = xeofs.cross.ComplexCPCCA if cplx else xeofs.cross.CPCCA
        m = cls(n_modes=PNum(z3.Int("kreq")), alpha=1.0, sample_name=S, feature_name=[F1, F2], use_pca=True, n_pca_modes=3)
        m.preprocessor1, m.preprocessor2 = IdPrep(S, F1), IdPrep(S, F2)
        # PCA under the contract of PCA.fit (V^H V = I), whitener under the contract of Whitener.fit
        pr = () if cplx else ("real",)
        pe, qe = named_ext("pp"), named_ext("qq")          # numbers of retained PCs
        for e_ in (pe, qe):
            assume(e_.z >= 1)
        V1 = tm.sym("Vp1", p, pe, pr)
        V2 = tm.sym("Vp2", q, qe, pr)
        c = ctx()
        c.hyps += [(tm.mul(tm.H(V1), V1), tm.I(pe), "PCA.fit contract"), (tm.mul(tm.H(V2), V2), tm.I(qe), "PCA.fit contract")]
        m.pca1.V = SymDA(V1, (F1, "mode"), {F1: p, "mode": pe}, {F1: ("in", "X", F1), "mode": ("range", "1", pe.name)}, cplx, owner="pca")
        m.pca2.V = SymDA(V2, (F2, "mode"), {F2: q, "mode": qe}, {F2: ("in", "Y", F2), "mode": ("range", "1", qe.name)}, cplx, owner="pca")
        Xw = mk_da("Xw", (S, F1), (n, pe), cplx=cplx, cid={S: ("in", "X", S), F1: ("range", "1", pe.name)})
        Yw = mk_da("Yw", (S, F2), (n, qe), cplx=cplx, cid={S: ("in", "X", S), F2: ("range", "1", qe.name)})
        T1 = _set_whitener(m.whitener1, "1", pe, cplx, identity)
        T2 = _set_whitener(m.whitener2, "2", qe, cplx, identity)
        if not identity:
            for w_, e_, fnm in ((m.whitener1, pe, F1), (m.whitener2, qe, F2)):
                cf = ("range", "1", e_.name)
                w_.T._cid = {fnm: cf, "mode": cf}
                w_.Tinv._cid = {"mode": cf, fnm: cf}
        cpmod.CPCCA._fit_algorithm(m, Xw, Yw)
        k = m.data["scores1"]._ext["mode"]
        ns = named_ext("ns")
        assume(ns.z >= 1)
        cm = m.data["scores1"]._cid["mode"]
        s1 = mk_da("S1", (S, "mode"), (ns, k), cplx=cplx, cid={S: ("in", "Sarb", S), "mode": cm})
        s2 = mk_da("S2", (S, "mode"), (ns, k), cplx=cplx, cid={S: ("in", "Sarb", S), "mode": cm})
        out = {"m": m, "s1": s1, "s2": s2}
        if which == "X":
            out["rt"] = m.transform(X=m.inverse_transform(X=s1))
        elif which == "Y":
            out["rt"] = m.transform(Y=m.inverse_transform(Y=s2))
        else:
            rx, ry = m.inverse_transform(X=s1, Y=s2)
            out["rt"] = m.transform(X=rx, Y=ry)
        sx, sy = m.scores()
        nx, ny = m.scores(normalized=True)
        out["norm"] = (sx, sy, nx, ny)
        return out

    with patched_globals([cpmod, bcmod, whmod, pcamod, scmod], names):
        return explore(run, maxpaths=96)


def deductive_cross(res, agg):
    fn = "BaseModelCrossSet.transform/inverse_transform"
    for cplx in (False, True):
        for identity in (True, False):
            for which in ("X", "Y", "XY"):
                cfg = f"{'complex' if cplx else 'real'},{'alpha=1' if identity else 'whitened'},{which}"
                try:
                    paths = trace_cross(cplx, identity, which)
                except PathLimit as e:
                    res.undecided_reasons.append(f"{fn}[{cfg}]: {e}")
                    continue
                res.paths += len(paths)
                nret = 0
                for pth in paths:
                    if pth.kind == "unsupported":
                        agg.vc(fn, "within-supported-subset", {"status": "undecided", "residue": f"{pth.exc} {pth.tb[-3:]}"}, cfg)
                        continue
                    if pth.kind != "return":
                        continue
                    nret += 1
                    with use_ctx(pth.ctx):
                        o = pth.value
                        rt = o["rt"]
                        pairs = [(rt, o["s1"] if which == "X" else o["s2"])] if which != "XY" else [(rt[0], o["s1"]), (rt[1], o["s2"])]
                        for got, want in pairs:
                            agg.vc(fn, "transform(inverse_transform(s)) = s for arbitrary scores (PCA and whitening undone and redone)",
                                   prove_eq(pth.ctx, got.transpose(S, "mode").term, want.term), cfg)
                        sx, sy, nx, ny = o["norm"]
                        d = o["m"].data
                        agg.vc("CPCCA._get_scores", "scores(normalized=True) = scores / norm", prove_eq(
                            pth.ctx, nx.transpose(S, "mode").term, tm.mul(sx.transpose(S, "mode").term, tm.inv(d["norm1"].term)),
                            extra_hyps=()), cfg)
                if nret == 0:
                    agg.vc(fn, "has-returning-path", struct_vc(False, "vacuity guard"), cfg)


# ---------------------------------------------------------------- bounded
def eval_case(c):
    rng = np.random.default_rng(c["seed"])
    nn, nlat, nlon = 14, 2, 3
    X = rng.standard_normal((nn, nlat * nlon)) * np.linspace(2, 1, nlat * nlon) + 5.0 + np.arange(nlat * nlon)
    da = real.da3(X, nlat)
    W = xr.DataArray(rng.uniform(0.5, 2.0, (nlat, nlon)), dims=("lat", "lon"), coords={"lat": da.lat, "lon": da.lon}) if c.get("weights") else None
    model = c["model"]
    msgs = []
    tol = 1e-8
    if model in ("EOF", "ComplexEOF", "HilbertEOF"):
        D = da * (1 + 0.5j) + 0.25j * da.shift(lon=1, fill_value=1.0) if model == "ComplexEOF" else da
        kmax = min(nn, nlat * nlon) if not c["center"] else min(nn - 1, nlat * nlon)
        kmax = min(nn, nlat * nlon)
        m = getattr(xeofs.single, model)(n_modes=kmax, center=c["center"], standardize=c["std"], use_coslat=c["coslat"], solver="full").fit(D, "time", weights=W)
        rec = m.inverse_transform(m.scores())
        ref = D if model != "HilbertEOF" else D
        if real.relerr(rec.transpose(*ref.dims).values, ref.values) > tol:
            msgs.append(f"full-mode reconstruction differs from the fitted data (rel {real.relerr(rec.transpose(*ref.dims).values, ref.values):.2e})")
        rec2 = m.inverse_transform(m.scores(normalized=True), normalized=True)
        if real.relerr(rec2.transpose(*ref.dims).values, ref.values) > tol:
            msgs.append("full-mode reconstruction from normalized scores differs from the fitted data")
        if model != "HilbertEOF":
            k = m.data["norms"].size
            s = xr.DataArray(rng.standard_normal((5, k)) + (1j * rng.standard_normal((5, k)) if model == "ComplexEOF" else 0),
                             dims=("time", "mode"), coords={"time": np.arange(100, 105), "mode": np.arange(1, k + 1)})
            back = m.transform(m.inverse_transform(s))
            if real.relerr(back.transpose("time", "mode").values, s.values) > 1e-7:
                msgs.append(f"transform(inverse_transform(s)) != s (rel {real.relerr(back.transpose('time', 'mode').values, s.values):.2e})")
            norms = m.data["norms"].values
            if real.relerr(m.scores(normalized=True).transpose("time", "mode").values * norms, m.scores().transpose("time", "mode").values) > 1e-10:
                msgs.append("scores(normalized=True) * norms != scores()")
            if real.relerr((m.components(normalized=True) * m.data["norms"]).transpose("mode", "lat", "lon").values, m.components(normalized=False).transpose("mode", "lat", "lon").values) > 1e-10:
                msgs.append("components(normalized=False) != components * norms")
            if real.relerr(m.transform(D, normalized=True).transpose("time", "mode").values * norms, m.transform(D).transpose("time", "mode").values) > 1e-10:
                msgs.append("transform(normalized=True) * norms != transform()")
    else:
        cplx = model.startswith("Complex")
        Y = (da.isel(lon=slice(0, 2)) * 0.7 + 0.3 * rng.standard_normal((nn, nlat, 2)) + 1.0).rename({"lat": "lat2", "lon": "lon2"})
        # genuinely complex fields (a complex multiple of real data has a real covariance and hides conjugation errors)
        Dx, Dy = (da + 0.6j * da.roll(time=3, roll_coords=False), Y - 0.5j * Y.roll(time=5, roll_coords=False)) if cplx else (da, Y)
        px, py = nlat * nlon, nlat * 2
        k = min(px, py) if not c["use_pca"] else min(c["n_pca"], py)
        k = min(k, nn - 2)
        kw = dict(n_modes=k, standardize=c["std"], use_coslat=[c["coslat"], False], use_pca=c["use_pca"],
                  n_pca_modes=[min(c["n_pca"], px), min(c["n_pca"], py)] if c["use_pca"] else "all", solver="full")
        if "CPCCA" in model:
            kw["alpha"] = c["alpha"]
        m = getattr(xeofs.cross, model)(**kw).fit(Dx, Dy, "time")
        sx, sy = m.scores()
        rx, ry = m.inverse_transform(X=sx, Y=sy)
        # a field is restored exactly when its feature count (after PCA) does not exceed the number of modes
        fx = px if not c["use_pca"] else min(c["n_pca"], px)
        fy = py if not c["use_pca"] else min(c["n_pca"], py)
        full_pca = (not c["use_pca"]) or c["n_pca"] >= max(px, py)
        if fx <= k and (not c["use_pca"] or c["n_pca"] >= px):
            if real.relerr(rx.transpose(*Dx.dims).values, Dx.values) > 1e-6:
                msgs.append(f"X is not restored by the full-mode reconstruction (rel {real.relerr(rx.transpose(*Dx.dims).values, Dx.values):.2e})")
        if fy <= k and (not c["use_pca"] or c["n_pca"] >= py):
            if real.relerr(ry.transpose(*Dy.dims).values, Dy.values) > 1e-6:
                msgs.append(f"Y is not restored by the full-mode reconstruction (rel {real.relerr(ry.transpose(*Dy.dims).values, Dy.values):.2e})")
        s = xr.DataArray(rng.standard_normal((4, k)) + (1j * rng.standard_normal((4, k)) if cplx else 0), dims=("time", "mode"),
                         coords={"time": np.arange(50, 54), "mode": np.arange(1, k + 1)})
        for kwx in (dict(X=s), dict(Y=s)):
            inv = m.inverse_transform(**kwx)
            bk = m.transform(**{list(kwx)[0]: inv})
            if real.relerr(bk.transpose("time", "mode").values, s.values) > 1e-6:
                msgs.append(f"transform(inverse_transform(s)) != s for {list(kwx)[0]} (rel {real.relerr(bk.transpose('time', 'mode').values, s.values):.2e})")
        nsx, _ = m.scores(normalized=True)
        if real.relerr((nsx * m.data["norm1"]).transpose("time", "mode").values, sx.transpose("time", "mode").values) > 1e-10:
            msgs.append("scores(normalized=True) * norm1 != scores()")
    return (not msgs), "; ".join(msgs[:3])


def eval_struct(c):
    """full-mode reconstruction and the normalized switches for Dataset / list inputs and for scalar mode selections"""
    rng = np.random.default_rng(c["seed"])
    nn = 12
    t = np.arange(nn)
    def fld(shape, names, off):
        dims = ("time",) + names
        co = {"time": t}
        co.update({n: np.arange(k) * 1.5 + i for i, (n, k) in enumerate(zip(names, shape))})
        v = rng.standard_normal((nn,) + shape) * rng.uniform(0.5, 2.0, shape) + off
        return xr.DataArray(v * (1 + 0.3j) + 0.2j * rng.standard_normal((nn,) + shape) if c["cplx"] else v, dims=dims, coords=co)
    a, b, d = fld((2, 2), ("lat", "lon"), 3.0), fld((3,), ("x",), -1.0), fld((2,), ("y",), 0.5)
    if c["struct"] in ("two-sample-dims", "sample-multiindex"):
        return eval_sample_struct(c, rng)
    if c["struct"] == "list":
        D = [a, b, d][: c["nitems"]]
    elif c["struct"] == "dataset":
        D = xr.Dataset({"a": a, "b": a * 0.5 + 1.0})
    else:
        D = a
    Model = xeofs.single.ComplexEOF if c["cplx"] else xeofs.single.EOF
    nfeat = {"da": 4, "dataset": 8}.get(c["struct"], [4, 7, 9][c["nitems"] - 1])
    m = Model(n_modes=min(nn, nfeat), center=c["center"], standardize=c["std"], solver="full").fit(D, "time")
    msgs = []

    def cmp(rec, ref, what):
        recs, refs = (rec, ref) if isinstance(ref, list) else ([rec], [ref])
        if isinstance(ref, list) and (not isinstance(rec, list) or len(rec) != len(ref)):
            msgs.append(f"{what}: container changed")
            return
        for i, (r_, f_) in enumerate(zip(recs, refs)):
            if isinstance(f_, xr.Dataset):
                for v in f_.data_vars:
                    if real.relerr(r_[v].transpose(*f_[v].dims).values, f_[v].values) > 1e-8:
                        msgs.append(f"{what}: variable {v} not restored")
            elif real.relerr(r_.transpose(*f_.dims).values, f_.values) > 1e-8:
                msgs.append(f"{what}: item {i} not restored (rel {real.relerr(r_.transpose(*f_.dims).values, f_.values):.2e})")
    sc = m.scores()
    cmp(m.inverse_transform(sc), D, "full-mode reconstruction")
    cmp(m.inverse_transform(m.scores(normalized=True), normalized=True), D, "full-mode reconstruction from normalized scores")
    # scalar mode selection == one-element selection, for both settings of the switch; the switch = the mode's norm
    k = 2
    for flag in (False, True):
        s_ = m.scores(normalized=flag)
        one = m.inverse_transform(s_.sel(mode=[k]), normalized=flag)
        sca = m.inverse_transform(s_.sel(mode=k), normalized=flag)
        cmp(sca, one if isinstance(one, list) else one, f"inverse_transform(scores.sel(mode={k}), normalized={flag}) vs the one-element selection")
    cmp(m.inverse_transform(m.scores(normalized=True).sel(mode=k), normalized=True), m.inverse_transform(sc.sel(mode=k)), "normalized switch for a scalar mode selection")
    if not c["cplx"] or True:
        s = xr.DataArray(rng.standard_normal((4, m.data["norms"].size)) + (1j * rng.standard_normal((4, m.data["norms"].size)) if c["cplx"] else 0), dims=("time", "mode"),
                         coords={"time": np.arange(70, 74), "mode": m.data["norms"].mode.values})
        back = m.transform(m.inverse_transform(s))
        if real.relerr(back.transpose("time", "mode").values, s.values) > 1e-7:
            msgs.append("transform(inverse_transform(s)) != s")
    return (not msgs), "; ".join(msgs[:3])


def eval_sample_struct(c, rng):
    """transform(inverse_transform(s)) = s for score arrays with their own sample coordinates, when the sample axis is made of two
    dimensions or is a MultiIndex (single- and cross-set)"""
    msgs = []
    if c["struct"] == "two-sample-dims":
        def mk(off, n1, p):
            return xr.DataArray(rng.standard_normal((n1, 3, p)), dims=("t", "run", "x"), coords={"t": np.arange(n1) + off, "run": ["a", "b", "c"], "x": np.arange(p)})
        sd = ("t", "run")
        mks = lambda off, n1, k: xr.DataArray(rng.standard_normal((n1, 3, k)), dims=("t", "run", "mode"), coords={"t": np.arange(n1) + off, "run": ["a", "b", "c"], "mode": np.arange(1, k + 1)})
    else:
        def mk(off, n1, p):
            d_ = xr.DataArray(rng.standard_normal((n1 * 2, p)), dims=("s", "x"), coords={"yr": ("s", np.repeat(np.arange(n1) + off, 2)), "half": ("s", np.tile([1, 2], n1)), "x": np.arange(p)})
            return d_.set_index(s=("yr", "half"))
        sd = ("s",)
        def mks(off, n1, k):
            d_ = xr.DataArray(rng.standard_normal((n1 * 2, k)), dims=("s", "mode"), coords={"yr": ("s", np.repeat(np.arange(n1) + off, 2)), "half": ("s", np.tile([1, 2], n1)), "mode": np.arange(1, k + 1)})
            return d_.set_index(s=("yr", "half"))
    X = mk(0, 8, 4)
    for n_new in (8, 5):
        if c["cross"]:
            Y = (X.isel(x=slice(0, 3)) * 0.5 + 0.1 * mk(0, 8, 3).values).rename(x="y")
            m = xeofs.cross.MCA(n_modes=3, use_pca=False, solver="full").fit(X, Y, sd)
            s = mks(500, n_new, 3)
            back = m.transform(X=m.inverse_transform(X=s))
        else:
            m = xeofs.single.EOF(n_modes=4, solver="full").fit(X, sd)
            s = mks(500, n_new, 4)
            back = m.transform(m.inverse_transform(s))
        try:
            bb = back.transpose(*s.dims)
            same_labels = all(bb.indexes[d_].equals(s.indexes[d_]) for d_ in sd)
        except Exception as e:  # noqa: BLE001
            msgs.append(f"{n_new} new samples: result cannot be compared ({type(e).__name__}: {str(e)[:60]})")
            continue
        if not same_labels:
            msgs.append(f"{n_new} new samples: transform(inverse_transform(s)) does not carry s's own sample labels")
        elif bb.shape != s.shape or real.relerr(bb.values, s.values) > 1e-7:
            msgs.append(f"{n_new} new samples: transform(inverse_transform(s)) != s")
    return (not msgs), "; ".join(msgs[:3])


def bounded_cases(tier, seed):
    rng = np.random.default_rng(seed)
    cases = []
    for struct in ("two-sample-dims", "sample-multiindex"):
        for cross in (False, True):
            cases.append(dict(kind="struct", struct=struct, nitems=1, cplx=False, center=True, std=False, cross=cross, keep=True))
    for struct, nitems in (("da", 1), ("dataset", 1), ("list", 2), ("list", 3)):
        for cplx in (False, True):
            for center, std in ((True, False), (True, True), (False, False)):
                cases.append(dict(kind="struct", struct=struct, nitems=nitems, cplx=cplx, center=center, std=std, keep=(struct == "list" and center and not std) or (struct == "da" and not cplx and center and not std)))
    for model in ("EOF", "ComplexEOF", "HilbertEOF"):
        for c_, s_, cl, w in itertools.product((True, False), repeat=4):
            if model == "HilbertEOF" and not c_:
                continue            # the Hilbert augmentation re-centres: without centring the exact identity is not claimed
            cases.append(dict(model=model, center=c_, std=s_, coslat=cl, weights=w, keep=(not c_ and s_)))
    for model in ("CPCCA", "ComplexCPCCA", "MCA", "CCA", "RDA"):
        for alpha in ((0.0, 0.5, 1.0) if "CPCCA" in model else (None,)):
            for use_pca, npc in ((False, 0), (True, 6), (True, 3)):
                for s_ in (False, True):
                    cases.append(dict(model=model, alpha=alpha, use_pca=use_pca, n_pca=npc, std=s_, coslat=bool(npc % 2), center=True,
                                      keep=model == "ComplexCPCCA" and alpha is not None and alpha < 1 and not use_pca and not s_))
    for i, c in enumerate(cases):
        c["seed"] = int(seed) * 1000 + i
    if tier == "quick":
        cases = [c for c in cases if c.get("keep")] + real.subsample([c for c in cases if not c.get("keep")], 50, rng)
    return cases


def run_bounded(res, tier, seed):
    for c in bounded_cases(tier, seed):
        sig = {k: c.get(k) for k in ("model", "center", "std", "coslat", "weights", "alpha", "use_pca", "n_pca", "kind", "struct", "nitems", "cplx", "cross")}
        try:
            ok, detail = eval_struct(c) if c.get("kind") == "struct" else eval_case(c)
        except Exception as e:  # noqa: BLE001
            ok, detail = False, f"{type(e).__name__}: {str(e)[:150]}"
            sig["exception"] = type(e).__name__
        res.case("C03.reconstruction", sig, ok, detail, payload=c)


def replay(payload):
    c = payload["payload"]
    ok, detail = eval_struct(c) if c.get("kind") == "struct" else eval_case(c)
    return ok, f"C03 replay {payload['payload']}: {'ok' if ok else detail}"


def run(tier, seed):
    res = Result("C03")
    res.functions = ["xeofs.cross.base_model_cross_set:BaseModelCrossSet public methods (composition of preprocessor/PCA/whitener per field)", "xeofs.preprocessing.scaler:Scaler.fit/transform/inverse_transform_data (inside the real Preprocessor chain)",
                     "xeofs.single.base_model_single_set:BaseModelSingleSet.transform/inverse_transform/components/scores",
                     "xeofs.single.eof:EOF._fit_algorithm/_transform_algorithm/_inverse_transform_algorithm", "xeofs.cross.base_model_cross_set:BaseModelCrossSet.transform/inverse_transform/scores",
                     "xeofs.cross.cpcca:CPCCA._fit_algorithm/_transform_algorithm/_inverse_transform_algorithm/_get_scores",
                     "xeofs.preprocessing.pca:PCA.transform/inverse_transform_data", "xeofs.preprocessing.whitener:Whitener.transform/inverse_transform_data (shared with C16)"]
    res.assumptions = ["Preprocessor at the 2-d level is replaced by its contract (identity on 2-d matrices, proved structurally under C02/C05) when the model-level methods are traced",
                       "SVD_k with its full-rank clauses (proved under C01), PCA.fit: V^H V = I, Whitener.fit: T Hermitian invertible with Tinv = T^-1 (proved under C16)",
                       "standard deviation, latitude weights > 0 and user weights != 0 (the property's own preconditions); float arithmetic exact",
                       "HilbertEOF (real part restored), cross-set exact reconstruction for fields with few features, whole public path: bounded"]
    res.trusted = ["CPython on proxies", "vf/sym normaliser", "vf/sym/ldom.py", "z3"]
    agg = Agg(res, "C03")
    class _Not:
        """C03 needs the round trip; what the forward map is belongs to C08"""
        def __init__(self, agg, words):
            self.agg, self.words = agg, words

        def vc(self, function, clause, r, config=""):
            if any(w in clause for w in self.words):
                return True
            return self.agg.vc(function, clause, r, config)
    deductive_scaler(res, _Not(agg, ("exactly the enabled options", "taken over the sample dimensions")))
    deductive_single(res, agg)
    deductive_cross(res, agg)
    # list inputs: every item is cut from its own block of the concatenated matrix and restored value by value (real Concatenator / chain)
    from props.C02 import deductive as c02_structures
    class _OnlyValues:
        def __init__(self, agg):
            self.agg = agg

        def vc(self, function, clause, r, config=""):
            if "cut from the i-th block" in clause or "values equal the input" in clause or clause in ("within-supported-subset", "has-returning-path"):
                return self.agg.vc(function, clause, r, config)
            return True
    c02_structures(res, _OnlyValues(agg), only_lists=True)
    from props import C16

    class Only:
        def __init__(self, agg):
            self.agg = agg

        def vc(self, function, clause, r, config=""):
            if function.startswith(("Whitener.inverse_transform", "Whitener.transform_components", "PCA.")) or clause in ("T Tinv = I", "Tinv T = I", "dims and labels of T/Tinv"):
                return self.agg.vc(function, clause, r, config)
            return True
    C16.deductive(res, Only(agg))
    from vf.contracts import crosschain
    crosschain.obligations(agg, ("inverse_transform", "components", "scores"))      # cross-set public methods: every field through its own chain, in order
    agg.flush()
    run_bounded(res, tier, seed)
    return res

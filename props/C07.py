"""C07 Results do not depend on how the same data is laid out or named.

Deductive: (1) name-genericity - the real preprocessing chain and the real EOF / ComplexEOF / CPCCA / EOFRotator
algorithms are traced with fresh, otherwise meaningless sample/feature dimension names and complete with results
that carry exactly those names; a syntactic contract forbids the default names 'sample'/'feature' as literals inside
the method bodies of the model, cross-set, rotator and bootstrapper modules; (2) layout - for every order of the same
dims the chain hands the model a matrix with the same value provenance and the same sample coordinate identity, the
feature axis being a relabelling (column order) only.
Bounded: transposition, feature permutation, splitting into Dataset variables / list items, custom names and sample
permutation on real models of every class.
"""
import ast
import glob
import itertools
import os

import numpy as np
import xarray as xr

import xeofs

from vf import real
from vf.contracts.common import Agg, struct_vc
from vf.contracts.prep import trace_chain
from vf.report import Result
from vf.sym.core import PathLimit

LEVEL = "other"
EXPLANATION = ("contracts: part proved, part bounded. Proved: the traced algorithms are generic in the sample/feature dimension names, no "
               "default name is hard-coded in the model modules, and the 2-d matrix handed to a model is independent of the dimension "
               "order of the input up to column order. Bounded: equality of singular values / components at each label / scores under "
               "transposition, feature permutation, Dataset / list splitting, custom names and sample permutation on real models")

REPO = os.path.dirname(os.path.dirname(os.path.abspath(xeofs.__file__)))     # the tree xeofs is imported from (/repo)
SCAN = ["xeofs/single/eof.py", "xeofs/single/eeof.py", "xeofs/single/opa.py", "xeofs/single/pop.py", "xeofs/single/sparse_pca.py",
        "xeofs/single/eof_rotator.py", "xeofs/single/base_model_single_set.py", "xeofs/cross/base_model_cross_set.py", "xeofs/cross/cpcca.py",
        "xeofs/cross/cpcca_rotator.py", "xeofs/cross/mca.py", "xeofs/cross/cca.py", "xeofs/cross/rda.py", "xeofs/validation/bootstrapper.py",
        "xeofs/linalg/decomposer.py", "xeofs/linalg/svd.py", "xeofs/preprocessing/pca.py", "xeofs/preprocessing/whitener.py",
        "xeofs/preprocessing/stacker.py", "xeofs/preprocessing/sanitizer.py", "xeofs/preprocessing/concatenator.py", "xeofs/preprocessing/preprocessor.py"]


def literal_scan():
    hits = []
    for rel in SCAN:
        f = os.path.join(REPO, rel)
        if not os.path.exists(f):
            hits.append(f"{rel}: file missing")
            continue
        tree = ast.parse(open(f).read())
        for fn in ast.walk(tree):
            if not isinstance(fn, ast.FunctionDef):
                continue
            skip = set()
            for d in fn.args.defaults + fn.args.kw_defaults:
                if d is not None:
                    skip |= {id(x) for x in ast.walk(d)}
            if fn.body and isinstance(fn.body[0], ast.Expr) and isinstance(getattr(fn.body[0], "value", None), ast.Constant):
                skip.add(id(fn.body[0].value))
            for node in ast.walk(fn):
                if isinstance(node, ast.Constant) and node.value in ("sample", "feature") and id(node) not in skip:
                    hits.append(f"{rel}:{node.lineno} {fn.name}: literal {node.value!r}")
                if isinstance(node, ast.Attribute) and node.attr in ("sample", "feature") and not (
                        isinstance(node.value, ast.Name) and node.value.id in ("self",)):
                    hits.append(f"{rel}:{node.lineno} {fn.name}: attribute access .{node.attr}")
                if isinstance(node, ast.keyword) and node.arg in ("sample", "feature"):
                    hits.append(f"{rel}:{node.lineno} {fn.name}: keyword {node.arg}=")
    return hits


def deductive(res, agg):
    hits = literal_scan()
    agg.vc("model modules", "no default dimension name ('sample'/'feature') is hard-coded inside a method body",
           {"status": "discharged" if not hits else "failed", "backend": "ast-scan", "residue": "; ".join(hits[:5])}, "")
    # ---- name genericity of the traced algorithms
    from props import C01, C09
    from vf.contracts.rotator import trace_eof_rotator
    S, F = "§S", "§F"
    for name, paths, pick in (
            ("EOF._fit_algorithm/_transform_algorithm/_inverse_transform_algorithm", lambda: C01.trace_eof(xeofs.single.EOF, False, True), lambda v: v[0].data),
            ("ComplexEOF._fit_algorithm", lambda: C01.trace_eof(xeofs.single.ComplexEOF, True, True), lambda v: v[0].data),
            ("CPCCA._fit_algorithm/_transform_algorithm", lambda: C09.trace_fit(xeofs.cross.CPCCA, False, True), lambda v: v[0].data),
            ("EOFRotator._fit_algorithm/_transform_algorithm", lambda: trace_eof_rotator(2, False), lambda v: v["rot"].data)):
        try:
            ps = paths()
        except PathLimit as e:
            res.undecided_reasons.append(f"{name}: {e}")
            continue
        res.paths += len(ps)
        ret = [p_ for p_ in ps if p_.kind == "return"]
        unsup = [p_ for p_ in ps if p_.kind == "unsupported"]
        bad = [p_ for p_ in ps if p_.kind == "raise" and isinstance(p_.exc, (KeyError,))]
        for p_ in unsup[:1]:
            agg.vc(name, "within-supported-subset", {"status": "undecided", "residue": f"{p_.exc} {p_.tb[-3:]}"}, "")
        other = [p_ for p_ in ps if p_.kind == "raise" and not isinstance(p_.exc, (KeyError,))]
        if not ret and not bad and other:
            # the traced function raised something that is not about names (e.g. it now needs a part of the model the
            # harness does not provide): nothing can be said about names
            agg.vc(name, "within-supported-subset", {"status": "undecided", "residue": f"{type(other[0].exc).__name__}: {other[0].exc} {other[0].tb[-2:]}"}, "")
        elif ret or bad or not unsup:
            agg.vc(name, "runs with fresh sample/feature dimension names (no reliance on the defaults)",
                   struct_vc(bool(ret) and not bad, "; ".join(f"{type(p_.exc).__name__}: {p_.exc}" for p_ in bad[:2])), "")
        for p_ in ret:
            data = pick(p_.value)
            names = set()
            for k, v in data.items():
                names |= set(v.dims)
            ok = names <= {S, F, "§F1", "§F2", "mode", "mode_m", "mode_n"}
            agg.vc(name, "results carry only the configured names and 'mode'", struct_vc(ok, str(names)), "")
    # ---- models built on top of EOF hand the user's settings to the inner model (symbolic tokens = all values)
    deductive_inner_models(res, agg, aspects=("names", "solver"))    # an exact-solver request is what makes the inner PCA independent of the feature order
    # ---- layout independence of the preprocessing chain
    fn = "Preprocessor.fit_transform"
    for sample, feature in ((("time",), ("x",)), (("time",), ("lat", "lon")), (("t1", "t2"), ("x",)), (("time",), ("a", "b", "c"))):
        dims = list(sample) + list(feature)
        ref = None
        for order in itertools.permutations(dims):
            cfg = f"dims={','.join(order)}"
            try:
                ps = trace_chain(check_nans=False, sample=sample, feature=feature, order=order)
            except PathLimit as e:
                res.undecided_reasons.append(f"{fn}[{cfg}]: {e}")
                continue
            res.paths += len(ps)
            for pth in ps:
                if pth.kind != "return":
                    agg.vc(fn, "within-supported-subset", {"status": "undecided" if pth.kind == "unsupported" else "failed", "residue": f"{pth.exc} {pth.tb[-2:]}"}, cfg)
                    continue
                x2 = pth.value["fit2D"]
                sig = (x2.val, x2.dims, x2._coords["§S"].cid.key)
                fparts = x2._coords["§F"].cid.key
                if ref is None:
                    ref = (sig, order)
                agg.vc(fn, "the 2-d matrix (values per label, sample coordinate, dims) does not depend on the input's dimension order",
                       struct_vc(sig == ref[0], f"{order}: {sig} vs {ref[1]}: {ref[0]}"), f"sample={','.join(sample)}")
                back = pth.value["back"]


class _Tok(str):
    """an opaque parameter value: stands for every value the user may pass"""


ASPECTS = {"names": ("sample_name", "feature_name"), "solver": ("solver", "random_state", "solver_kwargs"), "deferral": ("compute",), "rescaling": ("standardize", "use_coslat"),
           "preprocessing": ("n_modes", "center", "standardize", "use_coslat", "check_nans")}


def deductive_inner_models(res, agg, aspects=("names", "solver", "preprocessing"), models=("ExtendedEOF", "OPA", "EOFBootstrapper")):
    """what ExtendedEOF / OPA / EOFBootstrapper hand to their inner EOF model; `aspects` selects the option families a
    property is concerned with (C07: names, C15: solver options, C01/C19/C20: preprocessing of the inner model)"""
    keys = {k for a in aspects for k in ASPECTS[a]}
    import xeofs.single.eeof as eeofmod
    import xeofs.single.opa as opamod
    import xeofs.validation.bootstrapper as bsmod
    rng = np.random.default_rng(0)
    X2 = xr.DataArray(rng.standard_normal((12, 5)), dims=("obs", "cell"), coords={"obs": np.arange(12), "cell": np.arange(5)})
    tok = {k: _Tok(f"<{k}>") for k in ("solver", "random_state", "compute", "standardize", "use_coslat")}
    skw = {"tok": object()}

    class Stop(Exception):
        pass
    calls = []

    class Rec:
        def __init__(self, **kw):
            calls.append(kw)
            self.kw = kw

        def fit(self, X, dim=None, **k):
            self.fit_dim = dim
            calls.append({"__fit_dim__": dim, "__dims__": tuple(X.dims)})
            raise Stop()

    def run(mod, build, go):
        calls.clear()
        old = mod.EOF
        mod.EOF = Rec
        try:
            obj = build()
            try:
                go(obj)
            except Stop:
                pass
            except Exception as e:  # noqa: BLE001
                calls.append({"__error__": f"{type(e).__name__}: {e}"})
        finally:
            mod.EOF = old
        return list(calls)

    def expect(fn, got, want, cfg=""):
        if fn.split(".")[0].split(" ")[0] not in models:
            return
        bad = {k: (got.get(k), v) for k, v in want.items() if k in keys and got.get(k) is not v and got.get(k) != v}
        agg.vc(fn, "the inner EOF model receives the user's " + " / ".join(aspects) + " options", struct_vc(not bad, str(bad)[:220]), cfg)

    # ExtendedEOF: inner pre-PCA and inner decomposition
    cs = run(eeofmod, lambda: xeofs.single.ExtendedEOF(n_modes=3, tau=1, embedding=2, n_pca_modes=4, sample_name="obs", feature_name="cell",
                                                      solver=tok["solver"], random_state=tok["random_state"], solver_kwargs=skw, compute=tok["compute"],
                                                      standardize=tok["standardize"], use_coslat=tok["use_coslat"]),
             lambda m: eeofmod.ExtendedEOF._fit_algorithm(m, X2))
    ctor = [c_ for c_ in cs if "__fit_dim__" not in c_ and "__error__" not in c_]
    if ctor:
        expect("ExtendedEOF.__init__ (pre-PCA)", ctor[0], dict(n_modes=4, center=True, standardize=False, use_coslat=False, sample_name="obs", feature_name="cell", solver_kwargs=skw,
                                                               compute=tok["compute"]))
    cs = run(eeofmod, lambda: xeofs.single.ExtendedEOF(n_modes=3, tau=1, embedding=2, sample_name="obs", feature_name="cell",
                                                      solver=tok["solver"], random_state=tok["random_state"], solver_kwargs=skw, compute=tok["compute"],
                                                      standardize=tok["standardize"], use_coslat=tok["use_coslat"]),
             lambda m: eeofmod.ExtendedEOF._fit_algorithm(m, X2))
    ctor = [c_ for c_ in cs if "__fit_dim__" not in c_ and "__error__" not in c_]
    fits = [c_ for c_ in cs if "__fit_dim__" in c_]
    errs = [c_ for c_ in cs if "__error__" in c_]
    if "names" in aspects and "ExtendedEOF" in models:
        agg.vc("ExtendedEOF._fit_algorithm", "reaches the inner EOF fit with custom dimension names", struct_vc(bool(ctor) and bool(fits) and not errs, str(errs)[:200]), "")
    if ctor:
        expect("ExtendedEOF._fit_algorithm", ctor[-1], dict(n_modes=3, center=True, standardize=False, use_coslat=False, sample_name="obs", feature_name="cell",
                                                            solver=tok["solver"], solver_kwargs=skw, check_nans=False, compute=tok["compute"]))
    if fits and "names" in aspects and "ExtendedEOF" in models:
        agg.vc("ExtendedEOF._fit_algorithm", "the delay-embedded matrix is fitted along the model's sample dimension",
               struct_vc(fits[-1]["__fit_dim__"] == "obs" and "embedding" in fits[-1]["__dims__"], str(fits[-1])), "")
    # OPA: inner pre-PCA
    cs = run(opamod, lambda: xeofs.single.OPA(n_modes=2, tau_max=2, n_pca_modes=4, sample_name="obs", feature_name="cell", solver=tok["solver"],
                                             random_state=tok["random_state"], solver_kwargs=skw, compute=tok["compute"]),
             lambda m: opamod.OPA._fit_algorithm(m, X2))
    ctor = [c_ for c_ in cs if "__fit_dim__" not in c_ and "__error__" not in c_]
    if ctor:
        expect("OPA._fit_algorithm", ctor[0], dict(n_modes=4, standardize=False, use_coslat=False, sample_name="obs", feature_name="cell", solver=tok["solver"],
                                                   random_state=tok["random_state"], solver_kwargs=skw, check_nans=False, compute=tok["compute"]))
        if "preprocessing" in aspects and "OPA" in models:
            agg.vc("OPA._fit_algorithm", "the pre-PCA is centred (default or explicit center=True)", struct_vc(ctor[0].get("center", True) is True, str(ctor[0].get("center"))), "")
    elif "OPA" in models:
        agg.vc("OPA._fit_algorithm", "constructs its inner EOF", struct_vc(False, str(cs)[:200]), "")
    # Bootstrapper: member models
    base = xeofs.single.EOF(n_modes=2, sample_name="obs", feature_name="cell", solver="full").fit(X2.rename(obs="time"), "time")
    cs = run(bsmod, lambda: xeofs.validation.EOFBootstrapper(n_bootstraps=2, seed=3), lambda b: b.fit(base))
    ctor = [c_ for c_ in cs if "__fit_dim__" not in c_ and "__error__" not in c_]
    errs = [c_ for c_ in cs if "__error__" in c_]
    if "names" in aspects and "EOFBootstrapper" in models:
        agg.vc("EOFBootstrapper.fit", "reaches the member fit for a model with custom dimension names", struct_vc(bool(ctor) and not errs, str(errs)[:200]), "")
    if ctor:
        expect("EOFBootstrapper.fit", ctor[0], dict(n_modes=2, standardize=False, use_coslat=False, sample_name="obs", feature_name="cell"))
        agg.vc("EOFBootstrapper.fit", "member models are centred EOF analyses", struct_vc(ctor[0].get("center", True) is True, str(ctor[0].get("center"))), "")


# ---------------------------------------------------------------- bounded
def _base(rng, nn=24, nlat=3, nlon=4):
    t = np.arange(nn)
    X = rng.standard_normal((nn, nlat * nlon)) * np.linspace(3, 1, nlat * nlon) + np.sin(t / 4.0)[:, None] * np.linspace(0, 2, nlat * nlon)
    return real.da3(X, nlat)


def _fit(model, X, dim="time", names=None, Y=None):
    kw = dict(names or {})
    S_, C_ = xeofs.single, xeofs.cross
    if model in ("EOF", "ComplexEOF", "HilbertEOF", "SparsePCA"):
        return getattr(S_, model)(n_modes=3, solver="full", **kw).fit(X, dim)
    if model == "ExtendedEOF":
        return S_.ExtendedEOF(n_modes=2, tau=1, embedding=2, solver="full", **kw).fit(X, dim)
    if model == "OPA":
        return S_.OPA(n_modes=2, tau_max=2, n_pca_modes=4, solver="full", **kw).fit(X, dim)
    if model == "POP":
        return S_.POP(n_modes=2, n_pca_modes=4, solver="full", **kw).fit(X, dim)
    if model == "EOFRotator":
        return S_.EOFRotator(n_modes=2).fit(S_.EOF(n_modes=3, solver="full", **kw).fit(X, dim))
    if model == "Bootstrapper":
        b = xeofs.validation.EOFBootstrapper(n_bootstraps=3, seed=5)
        b.fit(S_.EOF(n_modes=2, solver="full", **kw).fit(X, dim))
        return b
    if model in ("MCA", "CPCCA"):
        ekw = dict(alpha=0.5) if model == "CPCCA" else {}
        if names:
            kw = dict(sample_name=names["sample_name"], feature_name=[names["feature_name"] + "A", names["feature_name"] + "B"])
        return getattr(C_, model)(n_modes=2, use_pca=False, solver="full", **ekw, **kw).fit(X, Y, dim)
    raise KeyError(model)


def _summary(m, model):
    """singular values (or their analogue), components and scores as label-addressable objects"""
    if model in ("MCA", "CPCCA"):
        return m.data["singular_values"].values, m.components()[0], m.scores()[0]
    if model == "OPA":
        return m.decorrelation_time().values, m.components(), m.scores()
    if model == "POP":
        comps = m.components()
        comps = [abs(x) for x in comps] if isinstance(comps, (list, tuple)) else abs(comps)
        return np.abs(m.eigenvalues().values), comps, abs(m.scores())
    if model == "Bootstrapper":
        return m.explained_variance().values.ravel(), m.components(), m.scores()
    sv = m.data["norms"].values
    return sv, m.components(), m.scores()


def _cmp(a, b, what, msgs, tol=1e-7, abs_=False):
    if isinstance(a, (list, tuple)):
        a = a[0]
    if isinstance(b, (list, tuple)):
        b = b[0]
    if isinstance(a, xr.Dataset):
        a = a.to_array("variable")
    if isinstance(b, xr.Dataset):
        b = b.to_array("variable")
    if set(a.dims) != set(b.dims):
        msgs.append(f"{what}: dims {a.dims} vs {b.dims}")
        return
    a2, b2 = xr.align(a, b.transpose(*a.dims), join="inner")
    if a2.shape != a.shape:
        msgs.append(f"{what}: labels differ")
        return
    x, y = (np.abs(a2.values), np.abs(b2.values)) if abs_ else (a2.values, b2.values)
    ok = np.isfinite(x) & np.isfinite(y)
    if not np.array_equal(np.isfinite(x), np.isfinite(y)):
        msgs.append(f"{what}: missing values at different labels ({int((~np.isfinite(x)).sum())} vs {int((~np.isfinite(y)).sum())})")
        return
    if real.relerr(x[ok], y[ok]) <= tol:
        return
    # do the two differ only by the sign / phase of whole modes?
    if "mode" in a2.dims and not abs_:
        am, bm = a2.transpose("mode", ...).values, b2.transpose("mode", ...).values
        am, bm = am.reshape(am.shape[0], -1), bm.reshape(bm.shape[0], -1)
        fin = np.isfinite(am) & np.isfinite(bm)
        ph = np.array([np.vdot(bm[i][fin[i]], am[i][fin[i]]) for i in range(am.shape[0])])
        ph = ph / np.where(np.abs(ph) > 0, np.abs(ph), 1)
        if real.relerr((bm * ph[:, None])[fin], am[fin]) <= tol * 10:
            msgs.append(f"{what} differ only by the sign/phase of whole modes")
            return
    msgs.append(f"{what} differ (rel {real.relerr(x[ok], y[ok]):.2e})")


def eval_case(c):
    rng = np.random.default_rng(c["seed"])
    da = _base(rng)
    model, rel = c["model"], c["relation"]
    cross = model in ("MCA", "CPCCA")
    Y = (da.isel(lon=slice(0, 2)) * 0.5 + 0.2 * rng.standard_normal((24, 3, 2))).rename({"lat": "lat2", "lon": "lon2"}) if cross else None
    cplx = model == "ComplexEOF"
    if cplx:
        da = da * (1 + 0.4j) + 0.3j * da.shift(lon=1, fill_value=0)
    msgs = []
    ref = _fit(model, da, Y=Y)
    sv0, c0, s0 = _summary(ref, model)
    tol = 1e-6
    def check(other, comp_map=None, abs_=model in ("POP",)):
        sv1, c1, s1 = _summary(other, model)
        if real.relerr(np.sort(np.ravel(sv1)), np.sort(np.ravel(sv0))) > tol:
            msgs.append(f"{rel}: singular values change ({np.ravel(sv1)[:3]} vs {np.ravel(sv0)[:3]})")
        if comp_map is not None:
            c1 = comp_map(c1)
        if c1 is not None:
            _cmp(c0, c1, f"{rel}: components", msgs, tol, abs_)
        _cmp(s0, s1, f"{rel}: scores", msgs, tol, abs_)
    if rel == "transpose":
        perm = ("lon", "time", "lat") if c.get("variant", 0) == 0 else ("lat", "lon", "time")
        check(_fit(model, da.transpose(*perm), Y=Y))
    elif rel == "transpose-2d":
        X2 = da.stack(x=("lat", "lon")).reset_index("x", drop=True).assign_coords(x=np.arange(12))
        if model == "EOF":
            a = xeofs.single.EOF(n_modes=0.8, solver="full").fit(X2, "time")
            b = xeofs.single.EOF(n_modes=0.8, solver="full").fit(X2.transpose("x", "time"), "time")
            if a.data["norms"].size != b.data["norms"].size or real.relerr(a.data["norms"].values, b.data["norms"].values) > tol:
                msgs.append(f"transpose-2d: fractional n_modes keeps {b.data['norms'].size} modes for the transposed layout, {a.data['norms'].size} otherwise")
            else:
                _cmp(a.scores(), b.scores(), "transpose-2d: scores", msgs, tol)
        else:
            Y2 = Y.stack(y=("lat2", "lon2")).reset_index("y", drop=True).assign_coords(y=np.arange(6))
            a = _fit(model, X2, Y=Y2)
            b = _fit(model, X2.transpose("x", "time"), Y=Y2.transpose("y", "time"))
            if real.relerr(a.data["singular_values"].values, b.data["singular_values"].values) > tol:
                msgs.append("transpose-2d: singular values change")
            _cmp(a.scores()[0], b.scores()[0], "transpose-2d: scores", msgs, tol)
    elif rel == "feature-permutation":
        idx = rng.permutation(da.sizes["lon"])
        check(_fit(model, da.isel(lon=idx), Y=Y))
    elif rel == "split-dataset":
        ds = xr.Dataset({"west": da.isel(lon=slice(0, 2)), "east": da.isel(lon=slice(2, None))})
        o = _fit(model, ds, Y=Y)
        def glue(cds):
            return cds["west"].fillna(cds["east"]) if isinstance(cds, xr.Dataset) else cds
        check(o, comp_map=glue)
    elif rel == "split-list":
        lst = [da.isel(lon=slice(0, 2)), da.isel(lon=slice(2, None))]
        o = _fit(model, lst, Y=Y)
        def glue(cl):
            return xr.concat(list(cl), "lon") if isinstance(cl, (list, tuple)) else cl
        if cross:
            sv1 = o.data["singular_values"].values
            if real.relerr(sv1, sv0) > tol:
                msgs.append("split-list: singular values change")
            _cmp(s0, o.scores()[0], "split-list: scores", msgs, tol)
        else:
            check(o, comp_map=glue)
    elif rel == "split-list-many":
        # 12 list items (more than one decimal digit counts) of two features each, every item with its own labels
        X2 = xr.DataArray(rng.standard_normal((da.sizes["time"], 24)) * np.linspace(1, 3, 24), dims=("time", "x"),
                          coords={"time": da.time.values, "x": np.arange(24.0) * 3 + 1})
        lst = [X2.isel(x=slice(2 * k, 2 * k + 2)) for k in range(12)]
        a, o = _fit(model, X2, Y=Y), _fit(model, lst, Y=Y)
        sva, ca, sa = _summary(a, model)
        svo, co, so = _summary(o, model)
        if real.relerr(np.ravel(svo), np.ravel(sva)) > tol:
            msgs.append(f"{rel}: singular values change")
        _cmp(sa, so, f"{rel}: scores", msgs, tol)
        if [list(np.asarray(x_.x.values)) for x_ in co] != [list(np.asarray(x_.x.values)) for x_ in lst]:
            msgs.append(f"{rel}: item k of the components does not carry the labels of item k of the input")
        else:
            _cmp(ca.sortby("x"), xr.concat(list(co), "x").sortby("x"), f"{rel}: components", msgs, tol)
    elif rel == "split-list-item-order":
        # the second item stores the same labelled samples in another order
        perm = rng.permutation(da.sizes["time"])
        lst = [da.isel(lon=slice(0, 2)), da.isel(lon=slice(2, None)).isel(time=perm)]
        o = _fit(model, lst, Y=Y)
        def glue(cl):
            return xr.concat(list(cl), "lon") if isinstance(cl, (list, tuple)) else cl
        check(o, comp_map=glue)
    elif rel == "custom-names":
        names = dict(sample_name=c.get("sname", "obs"), feature_name=c.get("fname", "gridcell"))
        check(_fit(model, da, names=names, Y=Y))
    elif rel == "transpose-two-sample-dims":
        # two sample dimensions given in the same order by the user; the array stores them in different axis orders
        X3 = xr.DataArray(rng.standard_normal((6, 5, 4)).cumsum(0), dims=("t1", "t2", "x"), coords={"t1": np.arange(6), "t2": np.arange(5), "x": np.arange(4)})
        cls = getattr(xeofs.single, model)
        kw = dict(tau=1, embedding=2) if model == "ExtendedEOF" else {}
        a = cls(n_modes=2, solver="full", **kw).fit(X3, ("t1", "t2"))
        for perm in (("x", "t2", "t1"), ("t2", "x", "t1")):
            b = cls(n_modes=2, solver="full", **kw).fit(X3.transpose(*perm), ("t1", "t2"))
            if real.relerr(b.singular_values().values, a.singular_values().values) > tol:
                msgs.append(f"{rel}: singular values change with the axis order {perm} ({b.singular_values().values} vs {a.singular_values().values})")
            else:
                _cmp(a.scores(), b.scores(), f"{rel}: scores", msgs, tol)
    elif rel == "labelled-weights":
        # the same labelled weight field with the data's latitudes reversed and longitudes shuffled: weights go by label
        W = xr.DataArray(rng.uniform(0.3, 3.0, (da.sizes["lat"], da.sizes["lon"])), dims=("lat", "lon"), coords={"lat": da.lat, "lon": da.lon})
        Xp = da.isel(lat=slice(None, None, -1), lon=rng.permutation(da.sizes["lon"]))
        if cross:
            a = getattr(xeofs.cross, model)(n_modes=2, use_pca=False, solver="full", **({"alpha": 0.5} if model == "CPCCA" else {})).fit(da, Y, "time", weights_X=W)
            b = getattr(xeofs.cross, model)(n_modes=2, use_pca=False, solver="full", **({"alpha": 0.5} if model == "CPCCA" else {})).fit(Xp, Y, "time", weights_X=W)
            if real.relerr(b.data["singular_values"].values, a.data["singular_values"].values) > tol:
                msgs.append("labelled-weights: singular values change when the data (not the weights) is re-ordered")
            _cmp(a.scores()[0], b.scores()[0], "labelled-weights: scores", msgs, tol)
        else:
            a = xeofs.single.EOF(n_modes=3, solver="full").fit(da, "time", weights=W)
            b = xeofs.single.EOF(n_modes=3, solver="full").fit(Xp, "time", weights=W)
            if real.relerr(b.singular_values().values, a.singular_values().values) > tol:
                msgs.append("labelled-weights: singular values change when the data (not the weights) is re-ordered")
            _cmp(a.components(), b.components(), "labelled-weights: components", msgs, tol)
            _cmp(a.scores(), b.scores(), "labelled-weights: scores", msgs, tol)
    elif rel == "near-tie-sign":
        # a dipole whose largest positive and most negative loadings differ by a relative 3e-7 (far above round-off):
        # the orientation must not depend on which feature comes first
        nt, p = 30, 8
        u = rng.standard_normal(nt)
        u = u - u.mean()
        v = np.array([1.0, -(1.0 - 3e-7), 0.4, -0.3, 0.2, 0.1, -0.05, 0.02])
        u2 = rng.standard_normal(nt)
        u2 = u2 - u2.mean()
        u2 = u2 - u * (u @ u2) / (u @ u)
        v2 = np.array([0.0, 0.0, 1.0, 1.0, -1.0, 0.5, 0.3, -0.2])
        v2 = v2 - v * (v @ v2) / (v @ v)
        X = 5.0 * np.outer(u, v) + 0.5 * np.outer(u2, v2)
        d2 = xr.DataArray(X, dims=("time", "x"), coords={"time": np.arange(nt), "x": np.arange(p)})
        a = xeofs.single.EOF(n_modes=2, solver="full").fit(d2, "time")
        for perm in (np.array([1, 0, 2, 3, 4, 5, 6, 7]), np.arange(p)[::-1].copy(), rng.permutation(p)):
            b = xeofs.single.EOF(n_modes=2, solver="full").fit(d2.isel(x=perm), "time")
            _cmp(a.components(), b.components(), "near-tie-sign: components", msgs, tol)
            _cmp(a.scores(), b.scores(), "near-tie-sign: scores", msgs, tol)
        b = xeofs.single.EOF(n_modes=2, solver="full").fit(d2.transpose("x", "time"), "time")
        _cmp(a.scores(), b.scores(), "near-tie-sign (transposed): scores", msgs, tol)
        # the two sign functions themselves are invariant under a permutation of the entries
        import xeofs.linalg._numpy._svd as nsvd
        import xeofs.utils.xarray_utils as xu
        for gap in (3e-7, 1e-9, 1e-3):
            col = np.array([0.7, -(0.7 * (1 - gap)), 0.1, -0.2, 0.3])
            for pm in (np.arange(5), np.array([1, 0, 2, 3, 4]), np.array([4, 3, 2, 1, 0])):
                M = np.stack([col[pm], -col[pm]], axis=1)
                sg = np.asarray(nsvd.get_deterministic_sign_multiplier(M, axis=0)).ravel()
                sx = xu.get_deterministic_sign_multiplier(xr.DataArray(M, dims=("f", "mode")), "f").values.ravel()
                if list(sg) != [1.0, -1.0] or list(sx) != [1.0, -1.0]:
                    msgs.append(f"sign multiplier depends on the order of the entries (gap {gap}, order {pm.tolist()}): numpy {sg}, xarray {sx}")
    elif rel == "sample-permutation":
        idx = rng.permutation(da.sizes["time"])
        Xp = da.isel(time=idx)
        Yp = Y.isel(time=idx) if cross else None
        check(_fit(model, Xp, Y=Yp))
    return (not msgs), "; ".join(msgs[:3])


def bounded_cases(tier, seed):
    rng = np.random.default_rng(seed)
    cases = []
    models = ["EOF", "ComplexEOF", "HilbertEOF", "SparsePCA", "ExtendedEOF", "OPA", "POP", "EOFRotator", "Bootstrapper", "MCA", "CPCCA"]
    order_dependent = {"ExtendedEOF", "OPA", "POP", "HilbertEOF", "Bootstrapper"}
    for model in models:
        for rel in ("transpose", "feature-permutation", "split-dataset", "split-list", "custom-names", "sample-permutation"):
            if rel == "sample-permutation" and model in order_dependent:
                continue
            if model in ("MCA", "CPCCA") and rel == "split-dataset":
                pass
            for variant in ((0, 1) if rel == "transpose" else (0,)):
                cases.append(dict(model=model, relation=rel, variant=variant, keep=rel == "custom-names"))
    for model in ("EOF", "MCA", "CPCCA"):
        cases.append(dict(model=model, relation="transpose-2d", keep=True))
    for model in ("EOF", "MCA", "CPCCA"):
        cases.append(dict(model=model, relation="labelled-weights", keep=True))
    cases.append(dict(model="EOF", relation="near-tie-sign", keep=True))
    for model in ("EOF", "ComplexEOF", "SparsePCA"):
        cases.append(dict(model=model, relation="split-list-many", keep=model == "EOF"))
        cases.append(dict(model=model, relation="split-list-item-order", keep=model == "EOF"))
    for model in ("EOF", "HilbertEOF", "ExtendedEOF"):
        cases.append(dict(model=model, relation="transpose-two-sample-dims", keep=True))
    for (sn, fn_) in (("sample_", "feat"), ("time2", "space"), ("n", "p")):
        cases.append(dict(model="EOF", relation="custom-names", sname=sn, fname=fn_, keep=True))
    for i, c in enumerate(cases):
        c["seed"] = int(seed) * 1000 + i
    if tier == "quick":
        cases = [c for c in cases if c.get("keep")] + real.subsample([c for c in cases if not c.get("keep")], 45, rng)
    return cases


def run_bounded(res, tier, seed):
    for c in bounded_cases(tier, seed):
        sig = {k: c.get(k) for k in ("model", "relation")}
        try:
            ok, detail = eval_case(c)
        except Exception as e:  # noqa: BLE001
            ok, detail = False, f"{type(e).__name__}: {str(e)[:150]}"
            sig["exception"] = type(e).__name__
        if not ok and "differ" in detail and all("only by the sign/phase" in part for part in detail.split("; ") if "differ" in part):
            sig["sign_or_phase_only"] = True
        res.case("C07.layout-and-naming", sig, ok, detail, payload=c)


def replay(payload):
    ok, detail = eval_case(payload["payload"])
    return ok, f"C07 replay {payload['payload']}: {'ok' if ok else detail}"


def run(tier, seed):
    res = Result("C07")
    res.functions = ["every method body of " + f for f in SCAN[:14]] + ["Preprocessor chain (layout)", "EOF/ComplexEOF/CPCCA/EOFRotator algorithms (name genericity, shared traces)"]
    res.assumptions = ["parametricity: a function that only compares / concatenates / passes on dimension names behaves alike for every name that does not collide with a literal the code introduces ('mode', 'dummy_dim', 'embedding', suffixes '_x'/'_y'); collisions are not explored",
                       "equivariance of the SVD itself under row/column permutations (uniqueness up to sign for simple singular values) is a mathematical fact taken as given; bounded runs exercise it",
                       "list items with the sample dimension at different axis positions: known finding under C02"]
    res.trusted = ["CPython on proxies", "vf/sym proxies", "Python ast (literal scan)"]
    agg = Agg(res, "C07")
    deductive(res, agg)
    # the sign convention is what makes results independent of the feature order: its contract (shared with C15)
    from props.C15 import deductive_sign
    deductive_sign(res, agg)
    # splitting over list items: items are combined by label, and each item is cut back from its own block with its own
    # labels (real Concatenator / chain on structural proxies, contract shared with C02)
    from props.C02 import deductive as c02_structures

    class _OnlyListClauses:
        KEEP = ("combined by label", "list item i is cut from the i-th block", "components carry the input's feature coordinates")

        def __init__(self, agg):
            self.agg = agg

        def vc(self, function, clause, r, config=""):
            if any(k in clause for k in self.KEEP) or clause in ("within-supported-subset", "has-returning-path"):
                return self.agg.vc(function, clause, r, config)
            return True
    c02_structures(res, _OnlyListClauses(agg), only_lists=True)
    agg.flush()
    run_bounded(res, tier, seed)
    return res

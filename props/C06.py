"""C06 Fully missing features/samples are ignored exactly; isolated NaNs are refused.

Deductive (domain L, real Sanitizer inside the real Preprocessor chain): every decision the chain takes on the NaN
mask is explored symbolically; obligations on the paths: data with an isolated NaN never passes fit or transform, a
feature mask differing from the fitted one never passes transform, what is kept is selected by valid-feature AND
valid-sample of the data itself, everything is re-inserted (re-indexed to the full fitted coordinates) on the way
back, and with check_nans=False nothing is dropped.  Bounded: exhaustive small mask enumeration on real models against
the model fitted on pre-deleted data.
"""
import itertools

import numpy as np
import xarray as xr

import xeofs

from vf import real
from vf.contracts.common import Agg, struct_vc
from vf.contracts.prep import trace_chain
from vf.report import Result
from vf.sym.core import PathLimit
from vf.sym.ldom import ops_in

LEVEL = "other"
EXPLANATION = ("contracts: part proved, part bounded. Proved on the real Sanitizer/Preprocessor for all extents and all NaN masks "
               "(every mask-dependent decision explored): isolated NaNs and changed feature masks are refused, the kept block is "
               "valid-features x valid-samples of the data itself, dropped labels are re-inserted on every inverse path. Bounded: "
               "equality with the model fitted on pre-deleted data (singular values, scores, components, NaN positions) for every "
               "small mask, single-set, rotated and cross-set models")


def _find(val, head):
    out = []
    def walk(v):
        if isinstance(v, tuple):
            if v and v[0] == head:
                out.append(v)
            for x in v:
                walk(x)
    walk(val)
    return out


def deductive(res, agg):
    fn = "Sanitizer.transform"
    for cfg, kw in {"1 sample dim": dict(), "2 sample dims": dict(sample=("t1", "t2"), feature=("x",)), "standardised": dict(with_std=True),
                    "sample MultiIndex": dict(multiindex=("time",))}.items():
        try:
            paths = trace_chain(check_nans=True, **kw)
        except PathLimit as e:
            res.undecided_reasons.append(f"{fn}[{cfg}]: {e}")
            continue
        res.paths += len(paths)
        saw = {"partial": 0, "mask": 0, "ret": 0}
        for pth in paths:
            pcs = " ".join(pth.pc)
            if pth.kind == "unsupported":
                agg.vc(fn, "within-supported-subset", {"status": "undecided", "residue": f"{pth.exc} at {pth.tb[-3:]}"}, cfg)
                continue
            # the isolated-NaN test: any(~isin(count of valid features per sample, [0, number of valid features]))
            iso_true = [x for x in pth.pc if x.startswith("truth[") and "isin" in x]
            iso_false = [x for x in pth.pc if x.startswith("Not(truth[") and "isin" in x]
            if pth.kind == "raise":
                msg = str(pth.exc)
                if "partial NaN" in msg:
                    saw["partial"] += 1
                    agg.vc(fn, "data with an isolated NaN is refused (fit and transform)", struct_vc(bool(iso_true) and isinstance(pth.exc, ValueError), pcs[:200]), cfg)
                elif "different locations" in msg:
                    saw["mask"] += 1
                    neq = [x for x in pth.pc if x.startswith("Not(equals[")]
                    agg.vc(fn, "transform data whose missing features differ from the fitted ones is refused", struct_vc(bool(neq), pcs[:200]), cfg)
                else:
                    agg.vc(fn, "no other refusal of well-formed data", struct_vc(False, f"{type(pth.exc).__name__}: {msg}"), cfg)
                continue
            saw["ret"] += 1
            o = pth.value
            agg.vc(fn, "returns only if neither the fitted nor the new data has an isolated NaN", struct_vc(len(iso_false) >= 2 and not iso_true, pcs[:200]), cfg)
            eq = [x for x in pth.pc if x.startswith("equals[") and "notnull" in x]
            agg.vc(fn, "returns only if the new data's missing features are the fitted ones", struct_vc(bool(eq), pcs[:200]), cfg)
            for key, name in (("fit2D", "X"), ("new2D", "Xnew")):
                ks = _find(o[key].val, "kept")
                ok = len(ks) == 1 and ks[0][2][0] == "&" and {ks[0][2][1][0], ks[0][2][2][0]} == {"any"} and \
                    {ks[0][2][1][1], ks[0][2][2][1]} == {("§S",), ("§F",)}
                agg.vc(fn, "the kept block is (features valid in some sample) x (samples valid in some feature) of the data itself",
                       struct_vc(ok, repr(ks)[:200]), cfg)
            # re-insertion on the inverse paths: an output coordinate may be a kept[...] sub-selection only on paths where nothing was dropped
            def complete(arr, dims):
                import z3
                KEPT = pth.ctx.notes.get("kept", {})
                for d, c in arr._coords.items():
                    if d not in dims:
                        continue
                    cid = c.cid
                    while cid.kind == "sorted":
                        cid = cid.parts[0]
                    if cid.kind == "kept":
                        e, full = KEPT.get((cid.key, c.ext.name), (None, None))
                        if e is None:
                            return False
                        sv = z3.Solver()
                        sv.add(pth.ctx.all_facts())
                        sv.add(e.z < full.z)
                        if sv.check() != z3.unsat:
                            return False          # something may have been dropped and was not re-inserted
                return True
            back, comps, fs = o["back"], o["comps"], o["fitscores"]
            fdims = [d for d in comps.dims if d != "mode"]
            sdims = [d for d in fs.dims if d != "mode"]
            agg.vc("Sanitizer.inverse_transform_data", "features dropped at fit are re-inserted (re-indexed to the full fitted coordinate, NaN-filled) in reconstructions",
                   struct_vc(complete(back, fdims), repr(back)[:200]), cfg)
            agg.vc("Sanitizer.inverse_transform_components", "features dropped at fit are re-inserted in components", struct_vc(complete(comps, fdims), repr(comps)[:200]), cfg)
            agg.vc("Sanitizer.inverse_transform_scores", "samples dropped at fit are re-inserted in the fitted scores",
                   struct_vc(complete(fs, sdims) or "nanfill-unstack" in ops_in(fs.val), repr(fs)[:200]), cfg)
        for k, what in (("partial", "isolated-NaN refusal"), ("mask", "feature-mask refusal"), ("ret", "returning")):
            agg.vc(fn, f"a {what} path exists (vacuity guard)", struct_vc(saw[k] > 0, str(saw)), cfg)
    # check_nans=False: nothing is dropped, nothing is looked at
    for cfg, kw in {"1 sample dim": dict(), "2 sample dims": dict(sample=("t1", "t2"), feature=("x",))}.items():
        for pth in trace_chain(check_nans=False, **kw):
            res.paths += 1
            if pth.kind != "return":
                agg.vc(fn, "check_nans=False: no refusal", struct_vc(False, f"{pth.exc}"), cfg)
                continue
            o = pth.value
            agg.vc(fn, "check_nans=False: nothing dropped", struct_vc(not _find(o["fit2D"].val, "kept") and not _find(o["new2D"].val, "kept"), repr(o["fit2D"])[:150]), cfg)


# ---------------------------------------------------------------- bounded
def _data(rng, nn=7, nlat=2, nlon=3):
    X = rng.standard_normal((nn, nlat * nlon)) + np.arange(nlat * nlon)
    return real.da3(X, nlat)


def _fit(model, da, Y=None):
    if model == "EOF":
        return xeofs.single.EOF(n_modes=2, solver="full").fit(da, "time")
    if model == "EOF-nocenter":
        return xeofs.single.EOF(n_modes=2, solver="full", center=False).fit(da, "time")
    if model == "EOF-std":
        return xeofs.single.EOF(n_modes=2, solver="full", standardize=True).fit(da, "time")
    if model == "EOFRotator":
        return xeofs.single.EOFRotator(n_modes=2).fit(xeofs.single.EOF(n_modes=3, solver="full").fit(da, "time"))
    if model == "MCA":
        return xeofs.cross.MCA(n_modes=2, use_pca=False, solver="full").fit(da, Y, "time")
    if model == "MCA-std":
        return xeofs.cross.MCA(n_modes=2, use_pca=False, solver="full", standardize=True).fit(da, Y, "time")
    raise KeyError(model)


def eval_list(c):
    """list input whose items miss whole samples: same positions -> as if deleted beforehand; different positions ->
    refused, or treated as deleted from every item, never paired across different time steps"""
    rng = np.random.default_rng(c["seed"])
    da = _data(rng)
    nn = da.sizes["time"]
    a = da.copy()
    b = (da.isel(lat=0, drop=True) * 0.7 + 0.2 * rng.standard_normal((nn, da.sizes["lon"]))).copy()
    for s in c["samples"]:
        a[s] = np.nan
    for s in c["samples_b"]:
        b[s] = np.nan
    msgs = []
    union = sorted(set(c["samples"]) | set(c["samples_b"]))
    keep = [t for t in range(nn) if t not in union]
    ref = xeofs.single.EOF(n_modes=2, solver="full").fit([da.isel(time=keep), b.isel(time=keep)], "time")
    try:
        m = xeofs.single.EOF(n_modes=2, solver="full").fit([a, b], "time")
    except ValueError:
        if list(c["samples"]) == list(c["samples_b"]):
            msgs.append("items missing the same samples were refused")
        return (not msgs), "; ".join(msgs)
    sv, svr = m.singular_values().values, ref.singular_values().values
    if real.relerr(sv, svr) > 1e-8:
        msgs.append(f"list items missing samples {c['samples']} / {c['samples_b']}: singular values {sv} differ from the model fitted after deleting those samples from every item {svr}")
    sc = m.scores().sel(time=da.time.values[keep]).transpose("time", "mode").values
    scr = ref.scores().transpose("time", "mode").values
    if sc.shape == scr.shape and real.relerr(np.abs(sc), np.abs(scr)) > 1e-8:
        msgs.append("scores at the remaining samples differ from the model fitted on pre-deleted data")
    if np.isnan(sc).any():
        msgs.append("NaN scores at samples that are valid in every item")
    return (not msgs), "; ".join(msgs[:3])


def eval_case(c):
    if c.get("kind") == "list":
        return eval_list(c)
    rng = np.random.default_rng(c["seed"])
    da = _data(rng)
    nn = da.sizes["time"]
    feats = [(i, j) for i in range(2) for j in range(3)]
    miss_f = [feats[i] for i in c["features"]]
    miss_s = list(c["samples"])
    X = da.copy()
    for (i, j) in miss_f:
        X[:, i, j] = np.nan
    for s in miss_s:
        X[s] = np.nan
    model = c["model"]
    cross = model in ("MCA", "MCA-std")
    Yfull = (da.isel(lon=slice(0, 2)) * 0.5 + 0.3 * rng.standard_normal((nn, 2, 2))).rename({"lat": "lat2", "lon": "lon2"})
    if cross and c.get("samples_y") is None and (c.get("isolated") is not None or c.get("other_mask") is not None):
        Yfull = Yfull.copy()
        for s_ in miss_s:
            Yfull[s_] = np.nan            # the same samples are missing in both fields
    msgs = []
    if c.get("isolated") is not None:
        s, (i, j) = c["isolated"]
        Xi = X.copy()
        keep_s = [t for t in range(nn) if t not in miss_s]
        keep_f = [f for f in feats if f not in miss_f]
        Xi[keep_s[s % len(keep_s)], keep_f[(i * 3 + j) % len(keep_f)][0], keep_f[(i * 3 + j) % len(keep_f)][1]] = np.nan
        try:
            _fit(model, Xi, Yfull)
            msgs.append("data with an isolated NaN was accepted at fit")
        except ValueError:
            pass
        m = _fit(model, X, Yfull)
        try:
            (m.transform(X=Xi) if cross else m.transform(Xi))
            msgs.append("data with an isolated NaN was accepted at transform")
        except ValueError:
            pass
        return (not msgs), "; ".join(msgs)
    if c.get("other_mask") is not None:
        m = _fit(model, X, Yfull)
        X2 = da.copy()
        for s in miss_s:
            X2[s] = np.nan
        alt = [feats[i] for i in c["other_mask"]]
        for (i, j) in alt:
            X2[:, i, j] = np.nan
        try:
            (m.transform(X=X2) if cross else m.transform(X2))
            msgs.append(f"transform data with missing features {alt} accepted by a model fitted with missing features {miss_f}")
        except ValueError:
            pass
        return (not msgs), "; ".join(msgs)
    # reference: delete beforehand
    keep_t = [t for t in range(nn) if t not in miss_s]
    Xd = da.isel(time=keep_t).stack(space=("lat", "lon"))
    keep_sp = [k for k, f in enumerate(feats) if f not in miss_f]
    Xd = Xd.isel(space=keep_sp)
    if cross:
        Y = Yfull.copy()
        for s in (c.get("samples_y") if c.get("samples_y") is not None else miss_s):
            Y[s] = np.nan
        try:
            m = _fit(model, X, Y)
        except ValueError as e:
            if c.get("samples_y") is not None and sorted(c["samples_y"]) != sorted(miss_s):
                return True, "refused (samples missing at different positions)"
            raise
        both = sorted(set(miss_s) | set(c.get("samples_y") or miss_s))
        keep_t = [t for t in range(nn) if t not in both]
        ref = xeofs.cross.MCA(n_modes=2, use_pca=False, solver="full", standardize=model == "MCA-std").fit(da.isel(time=keep_t).stack(space=("lat", "lon")).isel(space=keep_sp).reset_index("space", drop=True).assign_coords(space=np.arange(len(keep_sp))),
                                                                           Yfull.isel(time=keep_t), "time")
        sv, svr = m.data["singular_values"].values, ref.data["singular_values"].values
        if real.relerr(sv, svr) > 1e-8:
            msgs.append(f"singular values differ from the fit on pre-deleted data ({sv} vs {svr})")
        sx = m.scores()[0]
        if not np.isnan(sx.isel(time=both).values).all() and len(both):
            msgs.append("scores at samples missing in either field are not NaN")
        return (not msgs), "; ".join(msgs)
    Xd = Xd.reset_index("space", drop=True).assign_coords(space=np.arange(len(keep_sp)))
    m = _fit(model, X)
    ref = _fit(model, Xd)
    sv = (m.singular_values() if hasattr(m, "singular_values") else m.data["norms"]).values
    svr = (ref.singular_values() if hasattr(ref, "singular_values") else ref.data["norms"]).values
    if real.relerr(sv, svr) > 1e-8:
        msgs.append(f"singular values differ from the model fitted on pre-deleted data ({sv} vs {svr})")
    sc, scr = m.scores(), ref.scores()
    if real.relerr(sc.isel(time=keep_t).values, scr.values) > 1e-7:
        msgs.append("scores at the remaining samples differ from the model fitted on pre-deleted data")
    if miss_s and not np.isnan(sc.isel(time=miss_s).values).all():
        msgs.append("scores at deleted samples are not NaN")
    if np.isnan(sc.isel(time=keep_t).values).any():
        msgs.append("NaN scores at valid samples")
    comp = m.components().stack(space=("lat", "lon")).transpose("mode", "space")
    compr = ref.components().transpose("mode", "space")
    if real.relerr(comp.isel(space=keep_sp).values, compr.values) > 1e-7:
        msgs.append("components at the remaining features differ from the model fitted on pre-deleted data")
    gone = [k for k in range(len(feats)) if k not in keep_sp]
    if gone and not np.isnan(comp.isel(space=gone).values).all():
        msgs.append("components at deleted features are not NaN")
    if np.isnan(comp.isel(space=keep_sp).values).any():
        msgs.append("NaN components at valid features")
    rec = m.inverse_transform(m.scores())
    nanpos = np.isnan(rec.values)
    expect = np.isnan(X.values)
    if not np.array_equal(nanpos, expect):
        msgs.append("reconstruction has NaN at other positions than the deleted labels")
    tr = m.transform(X)
    tt = tr.sel(time=[t for t in tr.time.values if t in keep_t])
    if real.relerr(tt.transpose("mode", "time").values, sc.isel(time=keep_t).transpose("mode", "time").values) > 1e-6:
        msgs.append("transform of the same masked data differs from the scores")
    return (not msgs), "; ".join(msgs[:3])


def bounded_cases(tier, seed):
    rng = np.random.default_rng(seed)
    cases = []
    fsets = [c for r in range(0, 3) for c in itertools.combinations(range(6), r)]
    ssets = [c for r in range(0, 3) for c in itertools.combinations(range(7), r)]
    for model in ("EOF", "EOF-std", "EOFRotator"):
        for f in fsets:
            for s in ssets:
                if model != "EOF" and (len(f) + len(s)) % 3:
                    continue
                cases.append(dict(model=model, features=list(f), samples=list(s)))
    for f in ((), (0,), (2, 5)):
        for s in ((), (3,)):
            for iso in ((0, (0, 0)), (2, (1, 1)), (4, (0, 2))):
                for model in ("EOF", "MCA"):
                    cases.append(dict(model=model, features=list(f), samples=list(s), isolated=[iso[0], list(iso[1])], keep=True))
            for alt in ((1,), (0, 1), ()):
                if tuple(alt) != tuple(f):
                    cases.append(dict(model="EOF", features=list(f), samples=list(s), other_mask=list(alt), keep=True))
    for f, alt in (((0,), (1,)), ((2, 5), (0, 5)), ((3,), (3, 4)), ((1,), ())):
        cases.append(dict(model="EOF-nocenter", features=list(f), samples=[], other_mask=list(alt), keep=True))
    for s in ((), (2,), (0, 6)):
        for f in ((), (4,)):
            cases.append(dict(model="MCA", features=list(f), samples=list(s), keep=True))
    cases.append(dict(model="MCA", features=[], samples=[2], samples_y=[4], keep=True))
    cases.append(dict(model="MCA", features=[], samples=[1, 2], samples_y=[2, 5], keep=True))
    cases.append(dict(model="MCA", features=[], samples=[3], samples_y=[], keep=True))          # missing in one field only
    cases.append(dict(model="MCA-std", features=[], samples=[], samples_y=[2, 6], keep=True))
    for sa, sb in (([3], [3]), ([1, 4], [1, 4]), ([3], [5]), ([0, 2], [2, 6]), ([], [4])):
        cases.append(dict(kind="list", model="EOF-list", features=[], samples=sa, samples_b=sb, keep=True))
    for i, c in enumerate(cases):
        c["seed"] = int(seed) * 1000 + i
    if tier == "quick":
        cases = [c for c in cases if c.get("keep")] + real.subsample([c for c in cases if not c.get("keep")], 50, rng)
    return cases


def run_bounded(res, tier, seed):
    for c in bounded_cases(tier, seed):
        sig = {"model": c["model"], "n_missing_features": len(c["features"]), "n_missing_samples": len(c["samples"]),
               "kind": "isolated" if c.get("isolated") is not None else "other-mask" if c.get("other_mask") is not None else
               "cross-different-positions" if c.get("samples_y") is not None else "deletion-equivalence"}
        if c.get("other_mask") is not None:
            sig["new_missing_subset_of_fitted"] = set(c["other_mask"]) < set(c["features"])
        if c.get("samples_y") is not None:
            sig["same_count"] = len(c["samples_y"]) == len(c["samples"])
        if c.get("kind") == "list":
            sig["kind"] = "list-items-missing-samples"
            sig["same_positions"] = list(c["samples"]) == list(c["samples_b"])
        try:
            ok, detail = eval_case(c)
        except Exception as e:  # noqa: BLE001
            ok, detail = False, f"{type(e).__name__}: {str(e)[:150]}"
            sig["exception"] = type(e).__name__
        res.case("C06.nan-masks", sig, ok, detail, payload=c)


def replay(payload):
    ok, detail = eval_case(payload["payload"])
    return ok, f"C06 replay {payload['payload']}: {'ok' if ok else detail}"


def run(tier, seed):
    res = Result("C06")
    res.functions = ["xeofs.preprocessing.sanitizer:Sanitizer.fit/transform/_get_valid_features/_get_valid_samples/_get_valid_features_per_sample",
                     "Sanitizer.inverse_transform_data/_components/_scores/_scores_unseen", "Sanitizer._check_input_dims/_check_input_coords",
                     "xeofs.preprocessing.preprocessor:Preprocessor (whole chain around it)", "xeofs.preprocessing.concatenator:Concatenator.*",
                     "xeofs.preprocessing.multi_index_converter:MultiIndexConverter.*", "xeofs.preprocessing.stacker:Stacker.*"]
    res.assumptions = ["xarray: notnull/any/sum/isin/where(drop=True)/reindex semantics as modelled in vf/sym/ldom.py; mean/std skip NaN (skipna default for floats)",
                       "finite-set lemma: a mask whose per-sample valid counts are all 0 or the number of valid features is an outer product (taken as the meaning of 'no isolated NaN')",
                       "equality with the fit on pre-deleted data, cross-set pairing of missing samples, rotated models: bounded",
                       "DataArray inputs in the deductive part"]
    res.trusted = ["CPython on proxies", "vf/sym/ldom.py", "z3 (path feasibility)"]
    agg = Agg(res, "C06")
    deductive(res, agg)
    # list inputs: items are combined by label, never by position (real Concatenator / chain on structural proxies, shared with C02)
    from props.C02 import deductive as c02_structures
    class _OnlyJoin:
        def __init__(self, agg):
            self.agg = agg

        def vc(self, function, clause, r, config=""):
            if "combined by label" in clause or clause in ("within-supported-subset", "has-returning-path"):
                return self.agg.vc(function, clause, r, config)
            return True
    c02_structures(res, _OnlyJoin(agg), only_lists=True)
    agg.flush()
    run_bounded(res, tier, seed)
    return res

"""C08 Centering, standardisation and weights mean exactly what the options say.

Deductive: (1) the direct postcondition of the real Scaler inside the real chain, for all 16 option combinations:
out = (x - mean_s x) / std_s x * sqrt(cos lat) * w with exactly the enabled factors (shared with C03); (2) the
invariances of the property derived from that postcondition alone by z3 (mean linear, std positively homogeneous and
shift invariant): shifts with centring, positive affine maps with standardisation, weights = pre-multiplied data
(standardisation off), use_coslat = weights sqrt(cos lat), global factor c; (3) the real _np_sqrt_cos_lat_weights and
extract_latitude_dimension; (4) constructor contracts: the options of BaseModelSingleSet / BaseModelCrossSet reach the
right Preprocessor (symbolic option tokens), weights reach the right preprocessor.
Bounded: pairs of real fits on transformed copies over 12 orders of magnitude, weight containers, cross-set models.
"""
import itertools

import numpy as np
import xarray as xr
import z3

import xeofs
import xeofs.cross.base_model_cross_set as bcmod
import xeofs.single.base_model_single_set as bsmod
import xeofs.utils.xarray_utils as xumod
from xeofs.utils.constants import VALID_LATITUDE_NAMES

from vf import real
from vf.contracts.common import Agg, struct_vc
from vf.report import Result
from vf.sym.core import PNum, explore, patched_globals, assume

LEVEL = "proof"
EXPLANATION = ("the Scaler's direct postcondition for all option combinations, the invariances that follow from it, the latitude-weight "
               "formula and name detection, and the routing of every option and weight to the right preprocessor are discharged; "
               "the SVD homogeneity under a global factor and the end-to-end invariances are evaluated on pairs of real fits")


def z3valid(goal, pre=()):
    s = z3.Solver()
    s.set("timeout", 10000)
    s.add(list(pre))
    s.add(z3.Not(goal))
    r = s.check()
    out = {"status": "discharged" if r == z3.unsat else ("failed" if r == z3.sat else "undecided"), "backend": "z3", "residue": str(r)}
    if r == z3.sat:
        out["residue"] = "counter-model " + str(s.model())[:200]
    return out


def deductive(res, agg):
    from props import C03

    class Only:
        def __init__(self, agg):
            self.agg = agg

        def vc(self, function, clause, r, config=""):
            if "exactly the enabled options" in clause or "taken over the sample dimensions" in clause or clause == "within-supported-subset":
                return self.agg.vc(function, clause, r, config)
            return True
    C03.deductive_scaler(res, Only(agg))
    # ---- corollaries of the postcondition  out(x) = (x - [c] mean(x)) / [s] std(x) * [cl] coslat * [w] w
    x, m, sd, a, b, w, cl, c = z3.Reals("x m sd a b w cl c")
    pre = [sd > 0, w > 0, cl > 0]
    fn = "Scaler (postcondition corollaries)"
    # statistics of a transformed feature (mean linear; std positively homogeneous, shift invariant):
    def stats(scale, shift):
        return scale * m + shift, z3.If(scale >= 0, scale, -scale) * sd
    def out(xx, mm, ss, center, std, coslat=False, weights=False):
        v = xx - mm if center else xx
        v = v / ss if std else v
        v = v * cl if coslat else v
        v = v * w if weights else v
        return v
    for std in (False, True):
        m2, s2 = stats(z3.RealVal(1), b)
        agg.vc(fn, "with centring, adding a constant per feature changes nothing", z3valid(out(x + b, m2, s2, True, std) == out(x, m, sd, True, std), pre), f"standardize={std}")
    m2, s2 = stats(a, b)
    agg.vc(fn, "with standardisation (and centring), a positive affine rescaling per feature changes nothing",
           z3valid(out(a * x + b, m2, s2, True, True) == out(x, m, sd, True, True), pre + [a > 0]), "")
    m2, s2 = stats(a, z3.RealVal(0))
    agg.vc(fn, "with standardisation without centring, a positive rescaling per feature changes nothing",
           z3valid(out(a * x, m2, s2, False, True) == out(x, m, sd, False, True), pre + [a > 0]), "")
    for center in (False, True):
        m2, s2 = stats(w, z3.RealVal(0))
        agg.vc(fn, "user weights are equivalent to fitting the pre-multiplied data (standardisation off)",
               z3valid(out(x, m, sd, center, False, weights=True) == out(w * x, m2, s2, center, False), pre), f"center={center}")
        agg.vc(fn, "use_coslat is equivalent to user weights sqrt(cos(latitude))",
               z3valid(out(x, m, sd, center, False, coslat=True) == z3.substitute(out(x, m, sd, center, False, weights=True), (w, cl)), pre), f"center={center}")
        for std in (False, True):
            m2, s2 = stats(c, z3.RealVal(0))
            goal = out(c * x, m2, s2, center, std) == (out(x, m, sd, center, std) * (z3.If(c > 0, z3.RealVal(1), z3.RealVal(-1)) if std else c))
            agg.vc(fn, "a global factor c scales the preprocessed matrix by c (by sign(c) when standardised)", z3valid(goal, pre + [c != 0]), f"center={center},standardize={std}")
    # canary: a false corollary must be refuted
    m2, s2 = stats(a, b)
    r = z3valid(out(a * x + b, m2, s2, True, False) == out(x, m, sd, True, False), pre + [a > 0])
    if r["status"] == "discharged":
        raise RuntimeError("engine self-check failed: affine invariance without standardisation was 'proved'")

    # ---- latitude weights
    fn = "_np_sqrt_cos_lat_weights"

    class U:
        def __init__(self, t): self.t = t
        def clip(self, lo, hi): return U(("clip", self.t, lo, hi))

    class NPs:
        deg2rad = staticmethod(lambda v: U(("deg2rad", v.t)))
        cos = staticmethod(lambda v: U(("cos", v.t)))
        sqrt = staticmethod(lambda v: U(("sqrt", v.t)))
    old = xumod.np
    xumod.np = NPs
    try:
        got = xumod._np_sqrt_cos_lat_weights(U("lat")).t
    except Exception as e:  # noqa: BLE001
        got = f"{type(e).__name__}: {e}"
    finally:
        xumod.np = old
    agg.vc(fn, "weights = sqrt(clip(cos(latitude in radians), 0, 1))", struct_vc(got == ("sqrt", ("clip", ("cos", ("deg2rad", "lat")), 0, 1)), repr(got)), "")
    lat = np.linspace(-90, 90, 37)
    wts = xumod._np_sqrt_cos_lat_weights(lat)
    agg.vc(fn, "numerically sqrt(cos(lat)) on [-90, 90] (37 points)", struct_vc(np.allclose(wts, np.sqrt(np.clip(np.cos(lat * np.pi / 180), 0, 1)), atol=1e-15), "differs"), "")
    fn = "extract_latitude_dimension"
    for nm in VALID_LATITUDE_NAMES:
        try:
            got = xumod.extract_latitude_dimension(("time", nm, "lon"))
        except Exception as e:  # noqa: BLE001
            got = type(e).__name__
        agg.vc(fn, "each accepted latitude name is found", struct_vc(got == nm, repr(got)), nm)
    for dims, what in ((("time", "lon"), "none"), (("lat", "latitude"), "two")):
        try:
            got = xumod.extract_latitude_dimension(dims)
        except ValueError:
            got = "ValueError"
        agg.vc(fn, "no or ambiguous latitude dimension is refused", struct_vc(got == "ValueError", repr(got)), what)

    # ---- the DataArray / Dataset wrapper hands the latitude coordinate to that kernel and returns its weights untouched
    fn = "compute_sqrt_cos_lat_weights"

    class Wt:
        def __init__(self, of):
            self.of, self.name = of, None

    class FakeDA:
        def __init__(self, lat_dim):
            self.coords = {lat_dim: ("coord", lat_dim), "lon": ("coord", "lon")}

        @property
        def __class__(self):
            return xr.DataArray
    old_k = xumod.sqrt_cos_lat_weights
    xumod.sqrt_cos_lat_weights = lambda lat: Wt(lat)
    try:
        for nm in ("lat", "Latitude"):
            try:
                w = xumod.compute_sqrt_cos_lat_weights(FakeDA(nm), (nm, "lon"))
                ok = isinstance(w, Wt) and w.of == ("coord", nm)      # (the array's name matters to serialisation, C13, not here)
                det = repr(getattr(w, "of", w))
            except Exception as e:  # noqa: BLE001
                ok, det = False, f"{type(e).__name__}: {e}"
            agg.vc(fn, "returns exactly the kernel's weights of the latitude coordinate (no later adjustment)", struct_vc(ok, det), nm)
    finally:
        xumod.sqrt_cos_lat_weights = old_k

    # ---- routing of options and weights (opaque tokens stand for every value)
    deductive_routing(res, agg)


class _T:
    """opaque option value"""
    def __init__(self, n): self.n = n
    def __repr__(self): return f"<{self.n}>"


def deductive_routing(res, agg):
    rec = []

    class RecPrep:
        def __init__(self, **kw):
            rec.append(("init", kw))
            self.kw = kw

        def fit_transform(self, X, sample_dims, weights=None):
            rec.append(("fit_transform", self.kw.get("feature_name"), X, weights))
            raise Stop()

    class Stop(Exception):
        pass
    # single-set
    fn = "BaseModelSingleSet.__init__/fit"
    tk = {k: _T(k) for k in ("center", "standardize", "use_coslat", "check_nans", "compute", "sample_name", "feature_name")}
    old = bsmod.Preprocessor
    bsmod.Preprocessor = RecPrep
    try:
        rec.clear()
        m = xeofs.single.EOF(n_modes=2, **tk)
        Xtok, Wtok = xr.DataArray(np.zeros((2, 2)), dims=("a", "b")), xr.DataArray(np.ones(2), dims=("b",))
        try:
            m.fit(Xtok, "a", weights=Wtok)
        except Stop:
            pass
    finally:
        bsmod.Preprocessor = old
    init = [r for r in rec if r[0] == "init"]
    ft = [r for r in rec if r[0] == "fit_transform"]
    want = dict(with_center=tk["center"], with_std=tk["standardize"], with_coslat=tk["use_coslat"], check_nans=tk["check_nans"],
                compute=tk["compute"], sample_name=tk["sample_name"], feature_name=tk["feature_name"])
    ok = len(init) == 1 and all(init[0][1].get(k) is v for k, v in want.items())
    agg.vc(fn, "center / standardize / use_coslat / check_nans / compute / names reach the Preprocessor unchanged", struct_vc(ok, str(init)[:200]), "")
    agg.vc(fn, "the data and the weights are handed to the preprocessor exactly once", struct_vc(len(ft) == 1 and ft[0][2] is Xtok and ft[0][3] is Wtok, str(ft)[:200]), "")
    # cross-set
    fn = "BaseModelCrossSet.__init__/fit"
    pairs = {k: [_T(k + "0"), _T(k + "1")] for k in ("standardize", "use_coslat", "check_nans")}
    old = bcmod.Preprocessor
    bcmod.Preprocessor = RecPrep
    try:
        rec.clear()
        m = xeofs.cross.CPCCA(n_modes=2, alpha=1.0, use_pca=False, feature_name=["fa", "fb"], sample_name="smp", compute=True, **pairs)
        Xt, Yt = xr.DataArray(np.zeros((2, 2)), dims=("a", "b")), xr.DataArray(np.zeros((2, 3)), dims=("a", "c"))
        Wx, Wy = xr.DataArray(np.ones(2), dims=("b",)), xr.DataArray(np.ones(3), dims=("c",))
        calls = []
        for _ in range(2):
            try:
                m.fit(Xt, Yt, "a", weights_X=Wx, weights_Y=Wy)
            except Stop:
                pass
            break
    finally:
        bcmod.Preprocessor = old
    init = [r[1] for r in rec if r[0] == "init"]
    ok = len(init) == 2
    if ok:
        for i in (0, 1):
            ok = ok and init[i].get("with_std") is pairs["standardize"][i] and init[i].get("with_coslat") is pairs["use_coslat"][i] \
                and init[i].get("check_nans") is pairs["check_nans"][i] and init[i].get("feature_name") == ["fa", "fb"][i] and init[i].get("sample_name") == "smp" \
                and init[i].get("with_center") is True
    agg.vc(fn, "per-field options (standardize, use_coslat, check_nans, feature name; centring on) reach preprocessor 1 / 2 respectively", struct_vc(ok, str(init)[:300]), "")
    ft = [r for r in rec if r[0] == "fit_transform"]
    agg.vc(fn, "X and weights_X go to preprocessor 1 (first)", struct_vc(len(ft) >= 1 and ft[0][1] == "fa" and ft[0][2] is Xt and ft[0][3] is Wx, str(ft)[:200]), "")
    # second preprocessor: let the first one through
    class RecPrep2(RecPrep):
        n = 0

        def fit_transform(self, X, sample_dims, weights=None):
            rec.append(("fit_transform", self.kw.get("feature_name"), X, weights))
            RecPrep2.n += 1
            if RecPrep2.n >= 2:
                raise Stop()
            return X
    bcmod.Preprocessor = RecPrep2
    try:
        rec.clear()
        m = xeofs.cross.CPCCA(n_modes=2, alpha=1.0, use_pca=False, feature_name=["fa", "fb"], sample_name="smp")
        try:
            m.fit(Xt, Yt, "a", weights_X=Wx, weights_Y=Wy)
        except Stop:
            pass
    finally:
        bcmod.Preprocessor = old
    ft = [r for r in rec if r[0] == "fit_transform"]
    agg.vc(fn, "Y and weights_Y go to preprocessor 2, each exactly once", struct_vc(len(ft) == 2 and ft[1][1] == "fb" and ft[1][2] is Yt and ft[1][3] is Wy, str(ft)[:200]), "")


# ---------------------------------------------------------------- bounded
def _summ(m, cross):
    if cross:
        return m.data["singular_values"].values, m.components()[0], m.scores()[0], m.squared_covariance_fraction().values
    return m.singular_values().values, m.components(), m.scores(), m.explained_variance_ratio().values


def _same(a, b, what, msgs, tol, scale_scores=1.0, scale_sv=1.0, scale_comp=1.0):
    sva, ca, sa, fa = a
    svb, cb, sb, fb = b
    if real.relerr(svb, sva * scale_sv) > tol:
        msgs.append(f"{what}: singular values {svb} vs {sva * scale_sv}")
    cb2 = cb if not isinstance(cb, (list, tuple)) else cb[0]
    ca2 = ca if not isinstance(ca, (list, tuple)) else ca[0]
    if isinstance(ca2, xr.Dataset):
        ca2, cb2 = ca2.to_array(), cb2.to_array()
    if real.relerr(cb2.transpose(*ca2.dims).values, ca2.values * scale_comp) > tol * 10:
        msgs.append(f"{what}: components change")
    if real.relerr(sb.transpose(*sa.dims).values, sa.values * scale_scores) > tol * 10:
        msgs.append(f"{what}: scores change")
    if real.relerr(fb, fa) > tol * 10:
        msgs.append(f"{what}: variance / covariance fractions change")


def eval_case(c):
    rng = np.random.default_rng(c["seed"])
    nn, nlat, nlon = 30, 3, 4
    X = rng.standard_normal((nn, nlat * nlon)) * np.linspace(2, 0.5, nlat * nlon) + np.sin(np.arange(nn) / 3.0)[:, None] * np.linspace(-1, 1, nlat * nlon)
    da = real.da3(X, nlat)
    if c.get("grid") == "poles":
        da = da.assign_coords(lat=np.linspace(-90.0, 90.0, nlat))          # both poles exactly
    elif c.get("grid") == "north-pole":
        da = da.assign_coords(lat=np.array([-30.0, 45.0, 90.0]))
    if c.get("dtype"):
        da = (da * 20).round().astype(c["dtype"])                         # integer-typed input (counts, packed variables)
    latname = c.get("latname", "lat")
    if latname != "lat":
        da = da.rename(lat=latname)
    cross = c["model"] in ("MCA", "CPCCA")
    Y = (da.isel(lon=slice(0, 2)) * 0.5 + 0.2 * rng.standard_normal((nn, nlat, 2))).rename({latname: "lat2", "lon": "lon2"}) if cross else None
    def fit(D, Yv=None, weights=None, **kw):
        if cross:
            base = dict(n_modes=2, use_pca=False, solver="full")
            if c["model"] == "CPCCA":
                base["alpha"] = 0.5
            base.update({k: ([v, False] if k in ("standardize", "use_coslat") else v) for k, v in kw.items() if k != "center"})
            return getattr(xeofs.cross, c["model"])(**base).fit(D, Y if Yv is None else Yv, "time", weights_X=weights)
        base = dict(n_modes=3, solver="full")
        base.update(kw)
        return getattr(xeofs.single, c["model"] if c["model"] in ("ComplexEOF",) else "EOF")(**base).fit(D, "time", weights=weights)
    msgs = []
    tol = 1e-7
    rel = c["relation"]
    fshape = (nlat, nlon)
    fdims = (latname, "lon")
    def field(vals):
        return xr.DataArray(vals, dims=fdims, coords={latname: da[latname], "lon": da.lon})
    mag = 10.0 ** rng.uniform(-c["decades"], c["decades"], fshape)
    if rel == "shift":
        for std in (False, True):
            ref = _summ(fit(da, standardize=std), cross)
            other = _summ(fit(da + field(rng.standard_normal(fshape) * 10.0 ** c["decades"]), standardize=std), cross)
            _same(ref, other, f"per-feature shift (standardize={std})", msgs, max(tol, 1e-15 * 10.0 ** (2 * c["decades"])))
    elif rel == "complex-shift":
        # genuinely complex samples, complex constant per feature; phases of complex modes are free, so moduli are compared
        Z = da + 1j * real.da3(rng.standard_normal((nn, nlat * nlon)) * np.linspace(0.5, 2, nlat * nlon), nlat).assign_coords(da.coords)
        shift = field(rng.standard_normal(fshape) * 10.0 ** c["decades"]) + 1j * field(rng.standard_normal(fshape) * 10.0 ** c["decades"])
        (sva, ca, sa, fa), (svb, cb, sb, fb) = _summ(fit(Z), False), _summ(fit(Z + shift), False)
        t = max(tol, 1e-15 * 10.0 ** (2 * c["decades"]))
        if real.relerr(svb, sva) > t:
            msgs.append(f"complex per-feature shift: singular values {svb} vs {sva}")
        if real.relerr(fb, fa) > t * 10:
            msgs.append("complex per-feature shift: variance fractions change")
        if real.relerr(np.abs(cb.transpose(*ca.dims).values), np.abs(ca.values)) > t * 10:
            msgs.append("complex per-feature shift: component moduli change")
        if real.relerr(np.abs(sb.transpose(*sa.dims).values), np.abs(sa.values)) > t * 10:
            msgs.append("complex per-feature shift: score moduli change")
    elif rel == "factor-fraction":
        # a fractional n_modes is a variance FRACTION: the number of modes kept does not depend on the units of the input
        f = c["factor"]
        for frac in (0.5, 0.9):
            ka = fit(da, n_modes=frac).singular_values().size
            kb = fit(da * f, n_modes=frac).singular_values().size
            if ka != kb:
                msgs.append(f"global factor {f}: n_modes={frac} keeps {kb} modes instead of {ka}")
    elif rel == "affine":
        ref = _summ(fit(da, standardize=True), cross)
        other = _summ(fit(da * field(mag) + field(rng.standard_normal(fshape)), standardize=True), cross)
        _same(ref, other, "positive affine rescaling per feature with standardisation", msgs, 1e-6)
    elif rel == "weights":
        wv = field(rng.uniform(0.2, 3.0, fshape))
        kind = c.get("container", "da")
        if kind == "da":
            ref = _summ(fit(da * wv), cross)
            other = _summ(fit(da, weights=wv), cross)
        elif kind == "ds":
            ds = xr.Dataset({"a": da, "b": da * 2.0})
            wds = xr.Dataset({"a": wv, "b": wv * 0.5})
            ref = _summ(fit(ds * wds), cross)
            other = _summ(fit(ds, weights=wds), cross)
        else:
            lst = [da, da.isel({latname: 0}, drop=True) * 2.0]
            wl = [wv, wv.isel({latname: 0}, drop=True) * 0.5]
            ref = _summ(fit([a_ * b_ for a_, b_ in zip(lst, wl)]), cross)
            other = _summ(fit(lst, weights=wl), cross)
        _same(ref, other, f"user weights vs pre-multiplied data ({kind})", msgs, tol)
    elif rel == "coslat":
        wv = np.sqrt(np.cos(np.deg2rad(da[latname]))).clip(0, 1)
        ref = _summ(fit(da, weights=wv * xr.ones_like(da.isel(time=0, drop=True))), cross)
        other = _summ(fit(da, use_coslat=True), cross)
        _same(ref, other, f"use_coslat vs weights sqrt(cos(lat)) (latitude name {latname!r})", msgs, tol)
    elif rel == "global-factor":
        f = c["factor"]
        ref = _summ(fit(da), cross)
        if cross:
            other = _summ(fit(da * f, Yv=Y * f), cross)
            sva, ca, sa, fa = ref
            svb, cb, sb, fb = other
            ratio = svb / sva
            if np.max(np.abs(ratio / ratio[0] - 1)) > 1e-6:
                msgs.append(f"global factor {f}: singular values are not scaled by one common factor ({ratio})")
            if real.relerr(fb, fa) > 1e-6:
                msgs.append(f"global factor {f}: squared covariance fractions change")
            A, B = np.abs(ca.values), np.abs(cb.transpose(*ca.dims).values)
            if c["model"] != "MCA":
                # partially whitened patterns carry physical units: only their shape (direction) is scale free
                A, B = A / np.linalg.norm(A), B / np.linalg.norm(B)
            if real.relerr(B, A) > 1e-6:
                msgs.append(f"global factor {f}: components change")
        else:
            other = _summ(fit(da * f), cross)
            sva, ca, sa, fa = ref
            svb, cb, sb, fb = other
            if real.relerr(svb, sva * abs(f)) > 1e-7:
                msgs.append(f"global factor {f}: singular values do not scale by |c|")
            if real.relerr(fb, fa) > 1e-7:
                msgs.append(f"global factor {f}: variance fractions change")
            sgn = np.sign(np.sum(cb.values * ca.values, axis=tuple(range(1, ca.ndim)))) if ca.dims[0] == "mode" else None
            ev_a, ev_b = fit(da).explained_variance().values, fit(da * f).explained_variance().values
            if real.relerr(ev_b, ev_a * f * f) > 1e-7:
                msgs.append(f"global factor {f}: explained variance does not scale by c^2")
            A, B = np.abs(ca.values), np.abs(cb.transpose(*ca.dims).values)
            if c["model"] != "MCA":
                # partially whitened patterns carry physical units: only their shape (direction) is scale free
                A, B = A / np.linalg.norm(A), B / np.linalg.norm(B)
            if real.relerr(B, A) > 1e-6:
                msgs.append(f"global factor {f}: components change")
            if real.relerr(np.abs(sb.transpose(*sa.dims).values), np.abs(sa.values) * abs(f)) > 1e-6:
                msgs.append(f"global factor {f}: scores do not scale by c")
    return (not msgs), "; ".join(msgs[:3])


def bounded_cases(tier, seed):
    rng = np.random.default_rng(seed)
    cases = []
    for model in ("EOF", "MCA", "CPCCA"):
        for dec in (0, 2, 4, 6):
            cases.append(dict(model=model, relation="shift", decades=dec))
            cases.append(dict(model=model, relation="affine", decades=dec, keep=dec == 6 and model == "EOF"))
        for cont in ("da", "ds", "list"):
            if model != "EOF" and cont != "da":
                continue
            cases.append(dict(model=model, relation="weights", container=cont, decades=0))
        for ln in ("lat", "latitude", "Lats"):
            cases.append(dict(model=model, relation="coslat", latname=ln, decades=0, keep=model != "EOF"))
        for f in (-3.0, 1e-6, 1e6, 0.5):
            cases.append(dict(model=model, relation="global-factor", factor=f, decades=0))
    for model in ("EOF", "MCA"):
        for grid in ("poles", "north-pole"):
            cases.append(dict(model=model, relation="coslat", latname="lat", decades=0, grid=grid, keep=True))
        for dt in ("int64", "int32"):
            cases.append(dict(model=model, relation="shift", decades=0, dtype=dt, keep=model == "EOF"))
            cases.append(dict(model=model, relation="weights", container="da", decades=0, dtype=dt, keep=model == "EOF" and dt == "int32"))
            cases.append(dict(model=model, relation="global-factor", factor=0.5, decades=0, dtype=dt))
    for dec in (0, 2):
        cases.append(dict(model="ComplexEOF", relation="complex-shift", decades=dec, keep=dec == 0))
    for f in (1e-5, 1e-8, 1e7, -2.0):
        cases.append(dict(model="EOF", relation="factor-fraction", factor=f, decades=0, keep=f in (1e-5, 1e-8)))
    for i, c in enumerate(cases):
        c["seed"] = int(seed) * 1000 + i
    if tier == "quick":
        cases = [c for c in cases if c.get("keep")] + real.subsample([c for c in cases if not c.get("keep")], 45, rng)
    return cases


def run_bounded(res, tier, seed):
    for c in bounded_cases(tier, seed):
        sig = {k: c.get(k) for k in ("model", "relation", "decades", "container", "latname", "factor", "grid", "dtype")}
        try:
            ok, detail = eval_case(c)
        except Exception as e:  # noqa: BLE001
            ok, detail = False, f"{type(e).__name__}: {str(e)[:150]}"
            sig["exception"] = type(e).__name__
        res.case("C08.preprocessing-options", sig, ok, detail, payload=c)


def replay(payload):
    ok, detail = eval_case(payload["payload"])
    return ok, f"C08 replay {payload['payload']}: {'ok' if ok else detail}"


def run(tier, seed):
    res = Result("C08")
    res.functions = ["xeofs.cross.base_model_cross_set:BaseModelCrossSet public methods (composition of preprocessor/PCA/whitener per field)", "xeofs.preprocessing.scaler:Scaler.fit/transform (inside the real chain)", "xeofs.utils.xarray_utils:_np_sqrt_cos_lat_weights", "xeofs.utils.xarray_utils:compute_sqrt_cos_lat_weights (DataArray branch)",
                     "xeofs.utils.xarray_utils:extract_latitude_dimension", "xeofs.single.base_model_single_set:BaseModelSingleSet.__init__/fit",
                     "xeofs.cross.base_model_cross_set:BaseModelCrossSet.__init__/fit", "xeofs.cross.cpcca:CPCCA.__init__"]
    res.assumptions = ["mean over samples is linear, std over samples is positively homogeneous and shift invariant (properties of xarray's mean/std, taken as axioms of the corollaries)",
                       "every feature's standard deviation stays above the clipping floor (the property's own precondition): clip(std, eps) = std",
                       "the weight equivalence is evaluated numerically on grids that include both poles exactly (weight 0 mathematically, 7.8e-9 in floats)",
                       "SVD homogeneity (scores c, singular values |c|, variance c^2) under a global factor: mathematics of the SVD, exercised by the bounded runs",
                       "option routing is checked with opaque tokens on the real constructors / fit (the inner Preprocessor class is replaced by a recorder)"]
    res.trusted = ["CPython on proxies", "vf/sym/ldom.py", "z3 (NRA)"]
    agg = Agg(res, "C08")
    deductive(res, agg)
    from vf.contracts import crosschain
    crosschain.obligations(agg, ("fit",))      # cross-set public methods: every field through its own chain, in order
    agg.flush()
    run_bounded(res, tier, seed)
    return res

"""C18 POP modes are eigen-pairs of the lag-1 feedback matrix.

Deductive: the real POP._np_solve_pop_system is traced on positional proxies (np.linalg.eig / inv as assumed
contracts): the matrix handed to eig is C1 C0^-1 with the independently written lag-1 / lag-0 covariances, the returned
patterns and eigenvalues are eig's (A P = P diag(lambda)), damping times are -1/log|lambda| and periods 2 pi/arg(lambda);
the real POP._fit_algorithm / _sort_by_variance (PCA under its contract, coefficient kernel as a stub): norms are the
standard deviations of the coefficient series over samples, every mode-indexed result is re-ordered by the same
descending argsort of those norms, components are mapped back from PC space by the PCA basis; _transform_algorithm
recomputes coefficients with the same kernel on the same PC-space patterns.
Bounded: random series and synthetic damped oscillators (period and damping recovered), conjugate pairing, A p = lambda p
against an independently formed A, coefficients vs transform.
"""
import warnings

import numpy as np
import xarray as xr
import z3

import xeofs
import xeofs.linalg.utils as lumod
import xeofs.preprocessing.pca as pcamod
import xeofs.single.pop as popmod
import xeofs.utils.sanity_checks as scmod

from vf import real
from vf.contracts.common import Agg, F, S, std_names, struct_vc
from vf.report import Result
from vf.sym import lib
from vf.sym import terms as tm
from vf.sym import xda
from vf.sym.core import PathLimit, assume, ctx, explore, patched_globals, use_ctx
from vf.sym.nd import SymND, passthrough
from vf.sym.prove import prove_eq
from vf.sym.terms import named_ext
from vf.sym.xda import mk_da

LEVEL = "other"
EXPLANATION = ("contracts: part proved, part bounded. Proved on the real kernel and the real fit algorithm (eig/inv under assumed contracts): "
               "feedback matrix = lag-1 covariance times inverse lag-0 covariance, eigen-pair relation, damping-time and period formulas, "
               "ordering of every mode-indexed result by descending coefficient standard deviation, PCA back-projection of the patterns. "
               "Bounded: conjugate pairing (a property of eig on real matrices), recovery of known periods / damping times, the coefficient "
               "kernel (Storch et al. eq. 19) against transform, all on real fits")
n, p = named_ext("n"), named_ext("p")


class SVDStub:
    """contract of xeofs.linalg.svd.SVD as used by PCA.fit: V with orthonormal columns"""

    def __init__(self, **kw):
        self.kw = kw

    def fit_transform(self, X):
        k = named_ext("kp")
        assume(k.z >= 2)
        assume(k.z <= p.z)
        assume(k.z < n.z - 1)
        V = tm.sym("Vp", p, k, ("real",))
        ctx().hyps.append((tm.mul(tm.H(V), V), tm.I(k), "PCA.fit contract: V^H V = I"))
        return None, None, xda.SymDA(V, (F, "mode"), {F: p, "mode": k}, {F: X._cid[F], "mode": ("range", "1", "kp")}, False)


def trace_kernel(cplx):
    names, xrf, npf = std_names(warnings=warnings)
    calls = []

    def run():
        assume(n.z >= 3)
        assume(p.z >= 1)
        m = xeofs.single.POP(n_modes=2, sample_name=S, feature_name=F)

        def coef(X, P):
            calls.append((X, P))
            return SymND(tm.sym("Z", X.term.rows, P.term.cols, ()), 2, True)
        m._np_compute_pop_coefficients = coef
        X = SymND(tm.sym("X", n, p, () if cplx else ("real",)), 2, cplx)
        calls.clear()
        out = m._np_solve_pop_system(X)
        return out, X, list(calls)

    with patched_globals([popmod], names):
        return explore(run, maxpaths=16)


def trace_fit():
    names, xrf, npf = std_names(warnings=warnings, argsort_dask=lib.argsort_dask, SVD=SVDStub)
    xrf.ufuncs = {"POP._np_solve_pop_system": passthrough(xda), "POP._np_compute_pop_coefficients": passthrough(xda)}
    kcalls = []

    def run():
        assume(n.z >= 4)
        assume(p.z >= 2)
        m = xeofs.single.POP(n_modes=2, sample_name=S, feature_name=F)

        def coef(X, P):
            kcalls.append((X.term, P.term))
            return SymND(tm.sym(f"Z{len(kcalls)}", X.term.rows, P.term.cols, ()), 2, True)
        m._np_compute_pop_coefficients = coef
        xrf.ufuncs[coef] = passthrough(xda)
        X = mk_da("X", (S, F), (n, p), owner="caller")
        kcalls.clear()
        m._fit_algorithm(X)
        pre = dict(m.data.items())
        fitcalls = list(kcalls)
        m._post_compute()
        kcalls.clear()
        Zt = m._transform_algorithm(X)
        return m, X, pre, fitcalls, list(kcalls), Zt

    with patched_globals([popmod, pcamod, lumod, scmod], names):
        return explore(run, maxpaths=32)


def deductive(res, agg):
    fn = "POP._np_solve_pop_system"
    for cplx in (False, True):
        cfg = "complex" if cplx else "real"
        try:
            paths = trace_kernel(cplx)
        except PathLimit as e:
            res.undecided_reasons.append(f"{fn}: {e}")
            continue
        res.paths += len(paths)
        for pth in paths:
            if pth.kind != "return":
                agg.vc(fn, "within-supported-subset", {"status": "undecided" if pth.kind == "unsupported" else "failed", "residue": f"{pth.exc} {pth.tb[-3:]}"}, cfg)
                continue
            with use_ctx(pth.ctx):
                (P, Z, lbda, T, tau), X, calls = pth.value
                e = pth.ctx.notes.get("eig_calls", [])
                agg.vc(fn, "exactly one eigen-decomposition", struct_vc(len(e) == 1, str(len(e))), cfg)
                if len(e) != 1:
                    continue
                e = e[0]
                # independent formula with the windows the trace introduced (X[1:], X[:-1])
                wins = sorted({h[0].args[0].args[0].args[0] for h in pth.ctx.hyps if "window" in h[2]}, key=str)
                def win(a, b):
                    nm = f"Win[{a}:{b}|{n.name}]"
                    new = tm.ext_of(n.z - 1)
                    return tm.sym(nm, n, new, ("real",))
                W1, W0 = win(1, "n"), win(0, "-1 + n")
                X1, X0 = tm.mul(tm.Tr(W1), X.term), tm.mul(tm.Tr(W0), X.term)
                c = 1 / tm.rv(n.z - 2)
                C1 = tm.smul(c, tm.mul(tm.H(X1), X0))
                C0 = tm.smul(c, tm.mul(tm.H(X0), X0))
                agg.vc(fn, "feedback matrix A = (lag-1 covariance) (lag-0 covariance)^-1", prove_eq(pth.ctx, e["A"], tm.mul(C1, tm.inv(C0))), cfg)
                agg.vc(fn, "the returned patterns and eigenvalues are the eigen-pairs of A (A P = P diag(lambda))",
                       struct_vc(P.term is e["P"] and lbda.term is e["lam"], "returned P / lambda are not eig's"), cfg)
                agg.vc(fn, "A P = P diag(lambda) for the returned pair", prove_eq(pth.ctx, tm.mul(e["A"], P.term), tm.mul(P.term, lbda.term)), cfg)
                lam = e["lam"]
                want_tau = tm.smul(-1, tm.inv(tm.fn("log", tm.fn("abs", lam, props=("diag", "real", "herm", "nonneg")), props=("diag", "real", "herm"))))
                want_T = tm.smul(2 * np.pi, tm.inv(tm.fn("angle", lam, props=("diag", "real", "herm"))))
                agg.vc(fn, "damping times = -1 / log|lambda|", prove_eq(pth.ctx, tau.term, want_tau), cfg)
                agg.vc(fn, "periods = 2 pi / arg(lambda)", prove_eq(pth.ctx, T.term, want_T), cfg)
                agg.vc(fn, "coefficients are computed by the coefficient kernel from the data and the patterns",
                       struct_vc(len(calls) == 1 and calls[0][0].term is X.term and calls[0][1].term is P.term, str(len(calls))), cfg)
    fn = "POP._fit_algorithm"
    try:
        paths = trace_fit()
    except PathLimit as e:
        res.undecided_reasons.append(f"{fn}: {e}")
        paths = []
    res.paths += len(paths)
    nret = 0
    for pth in paths:
        if pth.kind != "return":
            agg.vc(fn, "within-supported-subset", {"status": "undecided" if pth.kind == "unsupported" else "failed", "residue": f"{type(pth.exc).__name__}: {pth.exc} {pth.tb[-3:]}"}, "")
            continue
        nret += 1
        with use_ctx(pth.ctx):
            m, X, pre, fitcalls, trcalls, Zt = pth.value
            V = m.pca.V.term
            Xpc = tm.mul(X.term, V)
            e = pth.ctx.notes["eig_calls"][0]
            agg.vc(fn, "the POP system is solved on the PCA-reduced data X V", prove_eq(pth.ctx, pre["input_data"].term, Xpc), "")
            Zs = pre["scores"].term
            k = pre["scores"]._ext["mode"]
            want = tm.dpow(tm.smul(1 / tm.rv(n.z), tm.dg(tm.mul(tm.mul(tm.H(Zs), tm.J(n)), Zs))), 0.5)
            agg.vc(fn, "norms = standard deviation over samples of each coefficient series", prove_eq(pth.ctx, pre["norms"].term, want), "")
            agg.vc(fn, "stored components = PCA basis times the PC-space patterns", prove_eq(pth.ctx, pre["components"].term, tm.mul(V, e["P"])), "")
            idx = pre["idx_modes_sorted"]
            agg.vc(fn, "ordering index = descending argsort of the norms", struct_vc(
                getattr(idx.mark, "rev", None) is True and idx.mark.of is pre["norms"].term, repr(getattr(idx, "mark", None))), "")
            d = m.data
            keys = [kk for kk, v in d.items() if "mode" in v.dims and kk != "idx_modes_sorted"]
            perm_ok = all("Perm[" in repr(d[kk].term) for kk in keys) and {"components", "scores", "norms", "eigenvalues", "damping_times", "periods"} <= set(keys)
            agg.vc("POP._sort_by_variance", "after compute every mode-indexed result (patterns, coefficients, eigenvalues, periods, damping times, norms) carries the same permutation", struct_vc(perm_ok, str(keys)), "")
            agg.vc("POP._sort_by_variance", "norms descending after compute", struct_vc("desc" in d["norms"].tags, str(d["norms"].tags)), "")
            agg.vc("POP._sort_by_variance", "sorted flag set; a new fit resets it", struct_vc(m.sorted is True, "flag"), "")
            # C04 / coefficients returned for the training data are those transform computes: same kernel, same arguments (after sorting: permuted patterns)
            ok = len(fitcalls) == 1 and len(trcalls) == 1
            agg.vc("POP._transform_algorithm", "coefficients are recomputed with the same kernel", struct_vc(ok, f"{len(fitcalls)} fit calls, {len(trcalls)} transform calls"), "")
            if ok:
                agg.vc("POP._transform_algorithm", "... on the same PCA-reduced data", prove_eq(pth.ctx, trcalls[0][0], fitcalls[0][0]), "")
                Pm = d["components"].transpose(F, "mode").term
                agg.vc("POP._transform_algorithm", "... and on the stored patterns mapped back into PC space (V^H V P = P, re-ordered like everything else)",
                       prove_eq(pth.ctx, trcalls[0][1], tm.mul(tm.H(V), Pm)), "")
    if paths and nret == 0:
        agg.vc(fn, "has-returning-path", struct_vc(False, "vacuity guard"), "")


# ---------------------------------------------------------------- bounded
def eval_case(c):
    rng = np.random.default_rng(c["seed"])
    msgs = []
    nn = c["n"]
    if c["kind"] == "random":
        pp = 6
        A0 = rng.standard_normal((pp, pp))
        A0 *= 0.8 / np.max(np.abs(np.linalg.eigvals(A0)))          # stable process
        x = np.zeros((nn, pp))
        x[0] = rng.standard_normal(pp)
        for t in range(1, nn):
            x[t] = A0 @ x[t - 1] + rng.standard_normal(pp)
        da = real.da2(x * c.get("scale", 1.0))          # e.g. precipitation in m/s: values around 1e-8
        use_pca, npc = c["use_pca"], c["npc"]
        m = xeofs.single.POP(n_modes=2, use_pca=use_pca, n_pca_modes=npc, center=c["center"]).fit(da, "time")
        Xp = m.data["input_data"].values                      # PCA-reduced, preprocessed matrix (samples x pcs)
        X0, X1 = Xp[:-1], Xp[1:]
        Aref = (X1.T @ X0 / (nn - 2)) @ np.linalg.inv(X0.T @ X0 / (nn - 2))
        lam = m.eigenvalues().values
        P = m.pca.transform_components(m.data["components"]).transpose("feature", "mode").values
        resid = np.linalg.norm(Aref @ P - P * lam) / np.linalg.norm(P * lam)
        if resid > 1e-8:
            msgs.append(f"A p != lambda p against the independently formed feedback matrix (rel. residual {resid:.2e})")
        ev_ref = np.linalg.eigvals(Aref)
        if real.relerr(np.sort_complex(lam), np.sort_complex(ev_ref)) > 1e-8:
            msgs.append("eigenvalues are not those of the feedback matrix")
        cx = [l for l in lam if abs(l.imag) > 1e-12]
        if any(min(abs(np.conj(l) - lam)) > 1e-9 * max(1, abs(l)) for l in cx):
            msgs.append("complex modes do not come in conjugate pairs")
        tau, T = m.damping_times().values, m.periods().values
        if real.relerr(tau, -1 / np.log(np.abs(lam))) > 1e-10:
            msgs.append("damping times != -1/log|lambda|")
        with np.errstate(divide="ignore"):
            Tref = 2 * np.pi / np.angle(lam)
        fin = np.isfinite(Tref)
        if real.relerr(T[fin], Tref[fin]) > 1e-10 or not np.all(np.isinf(T[~fin])):
            msgs.append("periods != 2 pi/arg(lambda) (infinite for real positive eigenvalues)")
        Z = m.scores().transpose("time", "mode").values
        sd = Z.std(axis=0)
        if np.any(np.diff(sd) > 1e-10 * sd[0]):
            msgs.append(f"modes are not ordered by descending standard deviation of their coefficients: {sd}")
        if real.relerr(m.data["norms"].values, sd) > 1e-10:
            msgs.append("norms are not the coefficient standard deviations")
        Zt = m.transform(da).transpose("time", "mode").values
        if real.relerr(Zt, Z) > 1e-7:
            msgs.append("coefficients of the training data differ from what transform computes")
        if c.get("history"):
            # the same holds for a model that was fitted and used before, and for one rebuilt from its tree and computed again
            x2 = np.zeros((nn, pp))
            x2[0] = rng.standard_normal(pp)
            for t in range(1, nn):
                x2[t] = 0.9 * (A0.T @ x2[t - 1]) + rng.standard_normal(pp)
            db = real.da2(x2)
            m.fit(db, "time")
            Zb, Ztb = m.scores().transpose("time", "mode").values, m.transform(db).transpose("time", "mode").values
            if real.relerr(Ztb, Zb) > 1e-7:
                msgs.append("after fit, transform, refit: coefficients of the new training data differ from what transform computes")
            r = type(m).deserialize(m.serialize())
            r.compute()
            sdr = r.scores().transpose("time", "mode").values.std(axis=0)
            if np.any(np.diff(sdr) > 1e-10 * sdr[0]):
                msgs.append(f"rebuilt from its tree and computed: modes no longer ordered by descending standard deviation: {sdr}")
            if real.relerr(r.scores().transpose("time", "mode").values, Zb) > 1e-9:
                msgs.append("rebuilt from its tree and computed: coefficients changed")
    else:
        # noise-free damped oscillation, fitted without centring: true period and damping time recovered
        period, damp = c["period"], c["damp"]
        r, th = np.exp(-1.0 / damp), 2 * np.pi / period
        t = np.arange(nn)
        a, b = r ** t * np.cos(th * t), r ** t * np.sin(th * t)
        Q = rng.standard_normal((2, 5))
        x = np.stack([a, b], 1) @ Q
        m = xeofs.single.POP(n_modes=2, center=False, use_pca=True, n_pca_modes=2).fit(real.da2(x), "time")
        T, tau = np.abs(m.periods().values), m.damping_times().values
        if real.relerr(T, [period, period]) > 1e-6:
            msgs.append(f"recovered periods {T} != {period}")
        if real.relerr(tau, [damp, damp]) > 1e-6:
            msgs.append(f"recovered damping times {tau} != {damp}")
    return (not msgs), "; ".join(msgs[:3])


def bounded_cases(tier, seed):
    rng = np.random.default_rng(seed)
    cases = []
    for nn in (60, 200):
        for use_pca, npc in ((False, 6), (True, 4), (True, 2), (True, 6)):
            for center in (True, False):
                cases.append(dict(kind="random", n=nn, use_pca=use_pca, npc=npc, center=center, keep=not center))
    for use_pca, npc in ((False, 6), (True, 6)):
        cases.append(dict(kind="random", n=80, use_pca=use_pca, npc=npc, center=True, history=True, keep=True))
    for scale in (1e-8, 1e6):
        cases.append(dict(kind="random", n=80, use_pca=True, npc=6, center=True, scale=scale, keep=True))
    for period, damp in ((8.0, 30.0), (12.5, 10.0), (5.0, 200.0), (20.0, 15.0)):
        cases.append(dict(kind="oscillator", n=80, period=period, damp=damp, keep=True))
    for i, c in enumerate(cases):
        c["seed"] = int(seed) * 1000 + i
    if tier == "quick":
        cases = [c for c in cases if c.get("keep")] + real.subsample([c for c in cases if not c.get("keep")], 6, rng)
    return cases


def run_bounded(res, tier, seed):
    for c in bounded_cases(tier, seed):
        sig = {k: c.get(k) for k in ("kind", "use_pca", "npc", "center", "period")}
        try:
            ok, detail = eval_case(c)
        except Exception as e:  # noqa: BLE001
            ok, detail = False, f"{type(e).__name__}: {str(e)[:150]}"
            sig["exception"] = type(e).__name__
        res.case("C18.pop", sig, ok, detail, payload=c)


def replay(payload):
    ok, detail = eval_case(payload["payload"])
    return ok, f"C18 replay {payload['payload']}: {'ok' if ok else detail}"


def run(tier, seed):
    res = Result("C18")
    res.functions = ["xeofs.single.pop:POP._np_solve_pop_system", "POP._fit_algorithm", "POP._post_compute/_sort_by_variance", "POP._transform_algorithm",
                     "xeofs.preprocessing.pca:PCA.fit/transform/transform_components/inverse_transform_components/inverse_transform_scores",
                     "xeofs.linalg.utils:total_variance"]
    res.assumptions = ["np.linalg.eig: A P = P diag(lambda); np.linalg.inv exact; the lag-0 covariance of the retained PCs is invertible (more samples than PCs)",
                       "conjugate pairing of complex eigenvalues is a property of eig on real matrices (bounded runs)",
                       "the coefficient kernel _np_compute_pop_coefficients (least-squares fit per mode, Storch et al. 1995 eq. 19) is a stub in the traces: only its call sites are verified; its values are compared with transform in bounded runs",
                       "SVD wrapper under PCA.fit replaced by its contract (orthonormal V); log / abs / angle are uninterpreted functions"]
    res.trusted = ["CPython on proxies", "vf/sym normaliser", "z3"]
    agg = Agg(res, "C18")
    deductive(res, agg)
    agg.flush()
    run_bounded(res, tier, seed)
    return res

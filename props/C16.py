"""C16 Fractional whitening and PCA reduction are exact, invertible changes of basis.

Deductive: the real Whitener.__init__/fit/_compute_whitener_transform/_compute_whitener_transform_numpy ->
_fractional_matrix_power -> _SVD.fit_transform chain is traced on proxies (np.linalg.svd = assumed contract +
PD lemma); Whitener.transform / inverse_transform_data / (inverse_)transform_components and the PCA maps are
verified against the contract of fit (T, Tinv Hermitian and mutually inverse; V^H V = I).
Bounded: real Whitener / PCA on matrices with condition number up to 1e6, complex, dask.
"""
import numpy as np
import xarray as xr
import z3

import xeofs.linalg._numpy._svd as svdmod
import xeofs.linalg._numpy._utils as utilmod
import xeofs.preprocessing.whitener as whmod
import xeofs.utils.sanity_checks as scmod
from xeofs.preprocessing import PCA, Whitener

from vf import real
from vf.contracts import whiten as W
from vf.contracts.common import Agg, F, S, struct_vc
from vf.report import Result
from vf.sym import lib
from vf.sym import terms as tm
from vf.sym import xda
from vf.sym.core import PNum, PathLimit, assume, ctx, explore, patched_globals, use_ctx
from vf.sym.nd import passthrough
from vf.sym.prove import prove_eq, prove_scalar
from vf.sym.xda import mk_da, cid_equal

LEVEL = "proof"
EXPLANATION = ("whitened covariance = C^alpha, T/Tinv Hermitian and mutually inverse, data and pattern maps inverse, "
               "identity at alpha=1, PCA maps inverse on the retained subspace: discharged on the real code for all "
               "shapes n>p, all alpha in [0,1], real and complex; numerical conditioning (cond<=1e6), the eps cut-off, "
               "PCA's leading-subspace property through the SVD wrapper and dask are covered by bounded runs")
n, p = W.n, W.p


def trace_fit(cplx, alpha_mode):
    names, xrf, npf = W.kernel_names()
    xrf.ufuncs = {"Whitener._compute_whitener_transform_numpy": passthrough(xda)}

    def run():
        assume(n.z >= 2)
        assume(p.z >= 1)
        assume(n.z > p.z)
        if alpha_mode == "zero":
            alpha = 0
        elif alpha_mode == "one":
            alpha = 1.0
        elif alpha_mode == "neg":
            alpha = PNum(z3.Real("alpha"))
            assume(alpha.z < 0)
        else:
            alpha = PNum(z3.Real("alpha"))
            assume(alpha.z >= 0)
        w = Whitener(alpha=alpha, sample_name=S, feature_name=F)
        X = mk_da("X", (S, F), (n, p), cplx=cplx, owner="caller")
        C = tm.smul(1 / tm.rv(n.z), tm.mul(tm.H(X.term), X.term))
        ctx().notes["posdef"] = [C]          # precondition of the property: full column rank, n > p
        w.fit(X)
        Xw = w.transform(X)
        return w, X, C, Xw, alpha

    with patched_globals([whmod, utilmod, svdmod, scmod], names):
        return explore(run, maxpaths=64)


def deductive(res, agg):
    # ---- Whitener.fit (kernel traced through)
    for cplx in (False, True):
        for am in ("sym", "zero", "one", "neg"):
            cfg = f"{'complex' if cplx else 'real'},alpha={am}"
            fn = "Whitener.fit"
            try:
                paths = trace_fit(cplx, am)
            except PathLimit as e:
                res.undecided_reasons.append(f"{fn}[{cfg}]: {e}")
                continue
            res.paths += len(paths)
            for pth in paths:
                if pth.kind == "unsupported":
                    agg.vc(fn, "within-supported-subset", {"status": "undecided", "residue": f"{pth.exc} at {pth.tb[-2:]}"}, cfg)
                    continue
                if pth.kind == "raise":
                    ok = am == "neg" and isinstance(pth.exc, ValueError)
                    agg.vc("Whitener.__init__", "raises only for alpha < 0", struct_vc(ok, f"{type(pth.exc).__name__}: {pth.exc}"), cfg)
                    continue
                if am == "neg":
                    agg.vc("Whitener.__init__", "alpha < 0 refused", struct_vc(False, "returned for negative alpha"), cfg)
                    continue
                with use_ctx(pth.ctx):
                    w, X, C, Xw, alpha = pth.value
                    if w.is_identity:
                        # identity branch must be exactly alpha >= 1 (up to machine eps)
                        if am in ("sym",):
                            agg.vc("Whitener._check_identity_transform", "identity only if alpha >= 1 - eps",
                                   prove_scalar(pth.ctx, alpha.z >= 1 - z3.RealVal("1/1000000")), cfg)
                        else:
                            agg.vc("Whitener._check_identity_transform", "identity only if alpha >= 1 - eps",
                                   struct_vc(am == "one", f"identity for alpha mode {am}"), cfg)
                        agg.vc("Whitener.transform", "alpha = 1: data unchanged", struct_vc(Xw is X, "transform is not the identity"), cfg)
                        continue
                    if am == "one":
                        agg.vc("Whitener._check_identity_transform", "alpha = 1 is the identity", struct_vc(False, "not identity"), cfg)
                        continue
                    T, Tinv = w.T, w.Tinv
                    sv = pth.ctx.notes["svd_calls"][0]
                    V, s = tm.H(sv["VT"]), sv["s"]
                    a = alpha.z if am == "sym" else z3.RealVal(0)
                    Tt = T.transpose(F, "mode").term
                    Ti = Tinv.transpose("mode", F).term
                    vc = lambda clause, l, r, f=fn: agg.vc(f, clause, prove_eq(pth.ctx, l, r), cfg)
                    vc("C = V s V^H (eigen-decomposition used as the definition of C^alpha)", C, tm.mul(tm.mul(V, s), tm.H(V)))
                    vc("T^H C T = C^alpha", tm.mul(tm.mul(tm.H(Tt), C), Tt), tm.mul(tm.mul(V, tm.dpow(s, a)), tm.H(V)))
                    vc("T Tinv = I", tm.mul(Tt, Ti), tm.I(p))
                    vc("Tinv T = I", tm.mul(Ti, Tt), tm.I(p))
                    vc("T Hermitian", tm.H(Tt), Tt)
                    vc("Tinv Hermitian", tm.H(Ti), Ti)
                    XwT = Xw.transpose(S, F).term
                    vc("covariance of whitened data = C^alpha", tm.smul(1 / tm.rv(n.z), tm.mul(tm.H(XwT), XwT)),
                       tm.mul(tm.mul(V, tm.dpow(s, a)), tm.H(V)), "Whitener.transform")
                    if am == "zero":
                        vc("alpha = 0: whitened covariance = I", tm.smul(1 / tm.rv(n.z), tm.mul(tm.H(XwT), XwT)), tm.I(p), "Whitener.transform")
                    agg.vc(fn, "dims and labels of T/Tinv", struct_vc(
                        T.dims == (F, "mode") and Tinv.dims == ("mode", F) and cid_equal(T._cid["mode"], X._cid[F])
                        and cid_equal(Tinv._cid["mode"], X._cid[F]), f"{T.dims} {Tinv.dims} {T._cid}"), cfg)
                    agg.vc("Whitener.transform", "dims", struct_vc(Xw.dims == (S, F), str(Xw.dims)), cfg)
    # ---- data / pattern maps against the contract of fit
    for cplx in (False, True):
        cfg = "complex" if cplx else "real"
        for pth in W.trace_whitener_methods(cplx):
            res.paths += 1
            if pth.kind != "return":
                agg.vc("Whitener.transform", "within-supported-subset",
                       {"status": "undecided" if pth.kind == "unsupported" else "failed", "residue": f"{pth.exc} at {pth.tb[-2:]}"}, cfg)
                continue
            with use_ctx(pth.ctx):
                o = pth.value
                X, P, T = o["X"], o["P"], o["T"]
                vc = lambda f, clause, l, r: agg.vc(f, clause, prove_eq(pth.ctx, l, r), cfg)
                vc("Whitener.transform", "X -> X T", o["Xw"].transpose(S, F).term, tm.mul(X.term, T))
                vc("Whitener.inverse_transform_data", "un-whitening restores the data", o["Xback"].transpose(S, F).term, X.term)
                vc("Whitener.transform_components", "P -> T^H P", o["Pw"].transpose(F, "mode").term, tm.mul(tm.H(T), P.term))
                vc("Whitener.inverse_transform_components", "patterns come back unchanged (into then out of)", o["Pback"].transpose(F, "mode").term, P.term)
                vc("Whitener.transform_components", "patterns come back unchanged (out of then into)", o["Pi_back"].transpose(F, "mode").term, P.term)
                agg.vc("Whitener.inverse_transform_scores", "scores untouched", struct_vc(o["scores_id"], "scores changed"), cfg)
                agg.vc("Whitener.inverse_transform_data", "dims/labels", struct_vc(
                    o["Xback"].dims == (S, F) and cid_equal(o["Xback"]._cid[F], X._cid[F]), f"{o['Xback'].dims} {o['Xback']._cid}"), cfg)
                agg.vc("Whitener.inverse_transform_components", "dims/labels", struct_vc(
                    set(o["Pback"].dims) == {F, "mode"} and cid_equal(o["Pback"]._cid[F], X._cid[F]), f"{o['Pback'].dims}"), cfg)
        for pth in W.trace_pca_methods(cplx):
            res.paths += 1
            if pth.kind != "return":
                agg.vc("PCA.transform", "within-supported-subset",
                       {"status": "undecided" if pth.kind == "unsupported" else "failed", "residue": f"{pth.exc} at {pth.tb[-2:]}"}, cfg)
                continue
            with use_ctx(pth.ctx):
                o = pth.value
                X, V, Q, Y, k = o["X"], o["V"], o["Q"], o["Y"], o["k"]
                vc = lambda f, clause, l, r: agg.vc(f, clause, prove_eq(pth.ctx, l, r), cfg)
                vc("PCA.transform", "X -> X V", o["Xp"].transpose(S, F).term, tm.mul(X.term, V))
                vc("PCA.inverse_transform_data", "transform(inverse(Y)) = Y", o["Yback"].transpose(S, F).term, Y.term)
                vc("PCA.inverse_transform_data", "inverse(transform(X)) = X V V^H (projection on the retained subspace)",
                   o["Xrec"].transpose(S, F).term, tm.mul(tm.mul(X.term, V), tm.H(V)))
                vc("PCA.inverse_transform_components", "Q -> V Q", o["Qfull"].transpose(F, "mode").term, tm.mul(V, Q.term))
                vc("PCA.transform_components", "patterns in the retained subspace come back unchanged", o["Qback"].transpose(F, "mode").term, Q.term)


# ---------------------------------------------------------------- bounded
def eval_refit(c):
    rng = np.random.default_rng(c["seed"])
    def data(nn, pp):
        X = rng.standard_normal((nn, pp)) * np.geomspace(1, 0.1, pp) + (1j * rng.standard_normal((nn, pp)) if c["cplx"] else 0)
        X = X - X.mean(0)
        return X, real.da2(X, "sample", "feature")
    (XA, A), (XB, B) = data(c["n"], c["p"]), data(c["n"] + 6, c["p"] + 3)
    msgs = []
    t = Whitener(alpha=c["alpha"]) if c["kind"] == "refit-whitener" else PCA(n_modes=c["n_modes"], compute_eagerly=True)
    t.fit(A)
    t.inverse_transform_data(t.transform(A))                    # use both directions after the first fit
    t.fit(B)
    fresh = (Whitener(alpha=c["alpha"]) if c["kind"] == "refit-whitener" else PCA(n_modes=c["n_modes"], compute_eagerly=True)).fit(B)
    back = t.inverse_transform_data(t.transform(B)).transpose("sample", "feature").values
    if real.relerr(back, XB) > 1e-8:
        msgs.append(f"after a refit, inverse_transform_data(transform(X)) != X ({real.relerr(back, XB):.2e})")
    if real.relerr(t.transform(B).values, fresh.transform(B).values) > 1e-8:
        msgs.append("after a refit, transform differs from a freshly fitted transformer")
    if c["kind"] == "refit-whitener":
        T = t.T.transpose("feature", "mode").values
        Ti = t.Tinv.transpose("mode", "feature").values
        if real.abserr(T @ Ti, np.eye(T.shape[0])) > 1e-8:
            msgs.append(f"after a refit, T Tinv != I ({real.abserr(T @ Ti, np.eye(T.shape[0])):.2e})")
    else:
        if t.V.sizes["mode"] != min(XB.shape):
            msgs.append(f"after a refit, n_modes='all' keeps {t.V.sizes['mode']} of {min(XB.shape)} modes")
    return (not msgs), "; ".join(msgs[:3])


def eval_case(c):
    if c["kind"].startswith("refit-"):
        return eval_refit(c)
    rng = np.random.default_rng(c["seed"])
    nn, pp, cond = c["n"], c["p"], c["cond"]
    U, _ = np.linalg.qr(rng.standard_normal((nn, pp)) + (1j * rng.standard_normal((nn, pp)) if c["cplx"] else 0))
    V, _ = np.linalg.qr(rng.standard_normal((pp, pp)) + (1j * rng.standard_normal((pp, pp)) if c["cplx"] else 0))
    s = np.geomspace(1.0, 1.0 / cond, pp) if pp > 1 else np.ones(1)
    X = (U * s) @ V.conj().T * np.sqrt(nn)
    X = X - X.mean(0)
    da = real.da2(X, "sample", "feature")
    if c["dask"]:
        da = da.chunk({"sample": max(2, nn // 3), "feature": -1})
    msgs = []
    tol = max(1e-9, 1e-11 * cond ** 2)
    if c["kind"] == "whitener":
        a = c["alpha"]
        w = Whitener(alpha=a).fit(da)
        Xw = w.transform(da).compute().values
        C = X.conj().T @ X / nn
        ev, E = np.linalg.eigh(C)
        Ca = (E * ev ** a) @ E.conj().T
        Cw = Xw.conj().T @ Xw / nn
        if real.relerr(Cw, Ca) > tol * (1 if a > 0 else 10):
            msgs.append(f"whitened covariance != C^alpha (rel {real.relerr(Cw, Ca):.2e})")
        if 0.999 < a < 1 and real.relerr(Cw - C, Ca - C) > 1e-3:
            msgs.append(f"alpha = {a}: the whitened covariance moved away from C by {np.linalg.norm(Cw - C):.2e}, C^alpha by {np.linalg.norm(Ca - C):.2e}")
        back = w.inverse_transform_data(w.transform(da)).compute().values
        if real.relerr(back, X) > tol:
            msgs.append(f"un-whitening does not restore the data ({real.relerr(back, X):.2e})")
        if not w.is_identity:
            T = w.T.compute().transpose("feature", "mode").values
            Ti = w.Tinv.compute().transpose("mode", "feature").values
            if real.abserr(T @ Ti, np.eye(pp)) > tol * 10:
                msgs.append(f"T Tinv != I ({real.abserr(T @ Ti, np.eye(pp)):.2e})")
            if real.relerr(T, T.conj().T) > 1e-9 or real.relerr(Ti, Ti.conj().T) > max(1e-9, tol):
                msgs.append("T or Tinv not Hermitian")
        elif a < 1:
            msgs.append("identity transform used for alpha < 1")
        k = min(3, pp)
        P = rng.standard_normal((pp, k)) + (1j * rng.standard_normal((pp, k)) if c["cplx"] else 0)
        Pda = xr.DataArray(P, dims=("feature", "mode"), coords={"feature": da.feature.values, "mode": np.arange(1, k + 1)})
        P2 = w.inverse_transform_components(w.transform_components(Pda))
        P2 = P2.compute().transpose("feature", "mode").values
        if real.relerr(P2, P) > tol:
            msgs.append(f"patterns into and out of whitened space differ ({real.relerr(P2, P):.2e})")
    else:
        nm = c["n_modes"]
        pc = PCA(n_modes=nm, compute_eagerly=True).fit(da)
        Vp = pc.V.compute().transpose("feature", "mode").values
        k = Vp.shape[1]
        if real.abserr(Vp.conj().T @ Vp, np.eye(k)) > 1e-8:
            msgs.append("PCA basis not orthonormal")
        sref = np.linalg.svd(X, compute_uv=False)
        _, _, VTr = np.linalg.svd(X, full_matrices=False)
        Pr = VTr[:k].conj().T @ VTr[:k]
        gap = (sref[k - 1] - (sref[k] if k < len(sref) else 0.0)) / sref[0]
        if gap > 1e-6 and real.abserr(Vp @ Vp.conj().T, Pr) > 1e-6 / gap * 1e-3 + 1e-7:
            msgs.append(f"PCA basis does not span the leading principal subspace ({real.abserr(Vp @ Vp.conj().T, Pr):.2e})")
        if isinstance(nm, float):
            frac = np.cumsum(sref ** 2) / np.sum(sref ** 2)
            kmin = int(np.argmax(frac >= nm - 1e-12)) + 1
            kpre = max(1, int(min(nn, pp) * 0.3))
            want = kmin if kmin <= kpre else kpre
            if k != want:
                msgs.append(f"fractional n_modes={nm}: kept {k}, smallest sufficient number (within the precomputed {kpre}) is {want}")
        if nm == "all" and k != min(nn, pp):
            msgs.append("n_modes='all' did not keep all modes")
        Q = rng.standard_normal((k, 2)) + (1j * rng.standard_normal((k, 2)) if c["cplx"] else 0)
        Qda = xr.DataArray(Q, dims=("feature", "mode"), coords={"feature": np.arange(1, k + 1), "mode": [1, 2]})
        Q2 = pc.transform_components(pc.inverse_transform_components(Qda)).compute().transpose("feature", "mode").values
        if real.relerr(Q2, Q) > 1e-8:
            msgs.append("patterns out of and into PCA space differ")
        Y = pc.transform(da)
        Y2 = pc.transform(pc.inverse_transform_data(Y).transpose("sample", "feature")).compute().values
        if real.relerr(Y2, Y.compute().values) > 1e-8:
            msgs.append("transform(inverse_transform_data(Y)) != Y")
    return (not msgs), "; ".join(msgs)


def bounded_cases(tier, seed):
    rng = np.random.default_rng(seed)
    cases = []
    for (nn, pp) in ((30, 4), (12, 11), (200, 7), (9, 1)):
        for cond in (1.0, 1e2, 1e4, 3e5, 1e6):
            for alpha in (0.0, 0.25, 0.5, 0.9, 1.0):
                for cplx in (False, True):
                    for dk in (False, True):
                        if dk and cplx:
                            continue
                        cases.append(dict(kind="whitener", n=nn, p=pp, cond=cond, alpha=alpha, cplx=cplx, dask=dk))
    for (nn, pp) in ((30, 6), (12, 11), (40, 10)):
        for nm in (1, 3, "all", 0.5, 0.9, 1.0):
            for cplx in (False, True):
                if isinstance(nm, int) and nm > min(nn, pp):
                    continue
                cases.append(dict(kind="pca", n=nn, p=pp, cond=1e2, n_modes=nm, cplx=cplx, dask=False, keep=cplx and isinstance(nm, float)))
                if isinstance(nm, float):
                    cases.append(dict(kind="pca", n=nn, p=pp, cond=4.0, n_modes=nm, cplx=cplx, dask=False, keep=cplx and nn == 40))
    for i, c in enumerate(cases):
        c["seed"] = int(seed) * 1000 + i
    # dask back end with many more features than modes (the compressed solver is then genuinely approximate), gapped spectrum
    for nm in (2, 3):
        cases.append(dict(kind="pca", n=80, p=30, cond=1e4, n_modes=nm, cplx=False, dask=True, keep=True))
    # alpha just below one is NOT the identity
    for a in (1 - 1e-6, 1 - 3e-6):
        cases.append(dict(kind="whitener", n=60, p=4, cond=10.0, alpha=a, cplx=False, dask=False, keep=True))
    # refit histories: a transformer fitted, used in both directions, and fitted again on other data must be the transformer of the last fit
    for kind in ("whitener", "pca"):
        for cplx in (False, True):
            cases.append(dict(kind="refit-" + kind, n=30, p=5, cond=1e2, alpha=0.5, n_modes="all", cplx=cplx, dask=False, keep=True))
    for i, c in enumerate(cases):
        c["seed"] = int(seed) * 1000 + i
    if tier == "quick":
        cases = [c for c in cases if c.get("keep")] + real.subsample([c for c in cases if not c.get("keep")], 95, rng)
    return cases


def run_bounded(res, tier, seed):
    for c in bounded_cases(tier, seed):
        sig = {k: c.get(k) for k in ("kind", "alpha", "cond", "cplx", "dask", "n_modes")}
        sig["shape"] = f"{c['n']}x{c['p']}"
        try:
            ok, detail = eval_case(c)
        except Exception as e:  # noqa: BLE001
            ok, detail = False, f"{type(e).__name__}: {e}"
            sig["exception"] = type(e).__name__
        res.case("C16.real-whitener-pca", sig, ok, detail, payload=c)


def replay(payload):
    ok, detail = eval_case(payload["payload"])
    return ok, f"C16 replay {payload['payload']}: {'ok' if ok else detail}"


def run(tier, seed):
    res = Result("C16")
    res.functions = ["xeofs.preprocessing.whitener:Whitener.__init__", "Whitener._check_identity_transform", "Whitener._sanity_check_input",
                     "Whitener.fit", "Whitener._compute_whitener_transform", "Whitener._compute_whitener_transform_numpy",
                     "Whitener.transform", "Whitener.inverse_transform_data", "Whitener.transform_components",
                     "Whitener.inverse_transform_components", "Whitener.inverse_transform_scores(_unseen)",
                     "xeofs.linalg._numpy._utils:_fractional_matrix_power", "xeofs.linalg._numpy._svd:_SVD.__init__",
                     "_SVD._get_n_modes_precompute", "_SVD.fit_transform", "_SVD._svd",
                     "xeofs.preprocessing.pca:PCA.transform", "PCA.inverse_transform_data", "PCA.transform_components",
                     "PCA.inverse_transform_components"]
    res.assumptions = ["float arithmetic read as exact; np.finfo(...).eps cut-off in _fractional_matrix_power read as 0 under the full-rank precondition (a changed cut-off leaves the supported subset -> undecided, and is exercised by the bounded runs up to cond 1e6)",
                       "assumed contract np.linalg.svd (full_matrices) + PD lemma: for Hermitian positive definite input the left and right singular vectors coincide",
                       "contract of the numpy-level get_deterministic_sign_multiplier (entries +-1) assumed",
                       "np.linalg.inv: exact inverse; the pinv fall-back branch is unreachable for invertible T (not traced)",
                       "PCA.fit's V^H V = I is the SVD wrapper's contract (checked under C15/C01 at the Decomposer/_SVD level; here bounded)",
                       "dask: a dask-backed operation denotes the same value as numpy (bounded runs with one feature chunk)"]
    res.trusted = ["CPython on proxies", "vf/sym normaliser", "z3", "vf/sym/nd.py positional proxies", "xarray dot/rename semantics as modelled"]
    agg = Agg(res, "C16")
    deductive(res, agg)
    agg.flush()
    run_bounded(res, tier, seed)
    return res

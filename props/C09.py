"""C09 Cross-set models diagonalise the (partially whitened) cross-covariance.

Deductive: real CPCCA._fit_algorithm (callee Decomposer = SVD_k stub, kernel _compute_cross_covariance_numpy traced
through, whiteners under the contract of Whitener.fit), _compute_cross_matrix / _normalize_data in correlation
mode, MCA clauses.  Bounded: CPCCA/MCA/CCA/RDA and Complex/Hilbert variants against an independent numpy computation.
"""
import numpy as np
import xarray as xr
import z3

import xeofs
import xeofs.cross.base_model_cross_set as bmod
import xeofs.cross.cpcca as cpmod
import xeofs.preprocessing.whitener as whmod
import xeofs.utils.sanity_checks as scmod

from vf import real
from vf.contracts.common import Agg, DecomposerStub, S, std_names, struct_vc
from vf.report import Result
from vf.sym import lib
from vf.sym import terms as tm
from vf.sym import xda
from vf.sym.core import PNum, PathLimit, assume, ctx, explore, patched_globals, use_ctx
from vf.sym.nd import passthrough
from vf.sym.prove import prove_eq, prove_scalar
from vf.sym.terms import named_ext
from vf.sym.xda import SymDA, mk_da

LEVEL = "proof"
EXPLANATION = ("score cross-covariance = diag(singular values), norms, MCA orthonormality and total squared covariance, "
               "and the Pearson-correlation clauses of _compute_cross_matrix are discharged on the real code for all shapes and "
               "both fields; proportionality to the independently whitened cross-covariance, CCA/RDA and Complex/Hilbert "
               "variants, PCA pre-reduction and p > n are evaluated on real fits (bounded)")
F1, F2 = "§F1", "§F2"
n, p, q = named_ext("n"), named_ext("p"), named_ext("q")


def _set_whitener(w, name, pe, cplx, identity):
    fn = F1 if name == "1" else F2
    if identity:
        return None
    pr = () if cplx else ("real",)
    Tt = tm.sym("T" + name, pe, pe, pr + ("herm", "inv"))
    cf = ("in", "XY"[int(name) - 1], fn)
    w.is_identity = False
    w.T = SymDA(Tt, (fn, "mode"), {fn: pe, "mode": pe}, {fn: cf, "mode": cf}, cplx, owner="whitener")
    w.Tinv = SymDA(tm.inv(Tt), ("mode", fn), {"mode": pe, fn: pe}, {"mode": cf, fn: cf}, cplx, owner="whitener")
    return Tt


def trace_fit(cls, cplx, identity):
    names, xrf, npf = std_names(Decomposer=DecomposerStub, argsort_dask=lib.argsort_dask)
    xrf.ufuncs = {"CPCCA._compute_cross_covariance_numpy": passthrough(xda)}

    def run():
        assume(n.z >= 2)
        assume(p.z >= 1)
        assume(q.z >= 1)
        kw = dict(n_modes=PNum(z3.Int("kreq")), sample_name=S, feature_name=[F1, F2], use_pca=False)
        if cls in (xeofs.cross.CPCCA, xeofs.cross.ComplexCPCCA):
            kw["alpha"] = 1.0
        m = cls(**kw)
        X = mk_da("X", (S, F1), (n, p), cplx=cplx, owner="caller")
        Y = mk_da("Y", (S, F2), (n, q), cplx=cplx, owner="caller", cid={S: X._cid[S], F2: ("in", "Y", F2)})
        T1 = _set_whitener(m.whitener1, "1", p, cplx, identity)
        T2 = _set_whitener(m.whitener2, "2", q, cplx, identity)
        cpmod.CPCCA._fit_algorithm(m, X, Y)
        tr = m._transform_algorithm(X, Y)
        return m, X, Y, T1, T2, tr

    with patched_globals([cpmod, bmod, whmod, scmod], names):
        return explore(run, maxpaths=32)


def trace_corr(cplx, same, diagonal):
    """_compute_cross_matrix(method='correlation') on mode-indexed score matrices"""
    names, xrf, npf = std_names()
    xrf.ufuncs = {"CPCCA._compute_cross_covariance_numpy": passthrough(xda),
                  "CPCCA._compute_cross_covariance_diagonal_numpy": passthrough(xda)}

    def run():
        assume(n.z >= 3)
        k = named_ext("k")
        assume(k.z >= 1)
        m = xeofs.cross.CPCCA(n_modes=2, alpha=1.0, sample_name=S, feature_name=[F1, F2], use_pca=False)
        cm = ("range", "1", "k")
        Rx = mk_da("Rx", (S, "mode"), (n, k), cplx=cplx, cid={S: ("in", "X", S), "mode": cm})
        Ry = Rx if same else mk_da("Ry", (S, "mode"), (n, k), cplx=cplx, cid={S: ("in", "X", S), "mode": cm})
        c = ctx()
        for R in {id(Rx): Rx, id(Ry): Ry}.values():
            c.hyps.append((tm.mul(tm.J(n), R.term), R.term, "scores have zero column means (centred fields)"))
            c.notes.setdefault("pos_diag", []).append(tm.mul(tm.H(R.term), R.term))      # non-degenerate score series
        out = m._compute_cross_matrix(Rx, Ry, sample_dim=S, feature_dim_x="mode", feature_dim_y="mode",
                                      method="correlation", diagonal=diagonal)
        return out, Rx, Ry, k

    with patched_globals([cpmod, bmod, whmod, scmod], names):
        return explore(run, maxpaths=16)


def deductive(res, agg):
    for cls, cplx in ((xeofs.cross.CPCCA, False), (xeofs.cross.ComplexCPCCA, True), (xeofs.cross.MCA, False)):
        for identity in (True, False):
            if cls is xeofs.cross.MCA and not identity:
                continue
            cfg = f"{cls.__name__},{'complex' if cplx else 'real'},{'alpha=1' if identity else 'whitened'}"
            fn = "CPCCA._fit_algorithm"
            try:
                paths = trace_fit(cls, cplx, identity)
            except PathLimit as e:
                res.undecided_reasons.append(f"{fn}[{cfg}]: {e}")
                continue
            res.paths += len(paths)
            nret = 0
            for pth in paths:
                if pth.kind == "unsupported":
                    agg.vc(fn, "within-supported-subset", {"status": "undecided", "residue": f"{pth.exc} at {pth.tb[-2:]}"}, cfg)
                    continue
                if pth.kind == "raise":
                    kz = z3.Int("kreq")
                    agg.vc(fn, "raises-only-if-k-outside-1..rank", prove_scalar(pth.ctx, z3.Or(kz < 1, kz > p.z, kz > q.z)), cfg)
                    continue
                nret += 1
                with use_ctx(pth.ctx):
                    m, X, Y, T1, T2, trf = pth.value
                    d = m.data
                    s1, s2, sv = d["scores1"], d["scores2"], d["singular_values"]
                    Q1, Q2 = d["components1"], d["components2"]
                    k = sv._ext["mode"]
                    inv = 1 / tm.rv(n.z - 1)
                    Cw = tm.smul(inv, tm.mul(tm.H(X.term), Y.term))
                    vc = lambda clause, l, r, f=fn: agg.vc(f, clause, prove_eq(pth.ctx, l, r), cfg)
                    vc("scores1^H scores2/(n-1) = diag(singular values)", tm.smul(inv, tm.mul(tm.H(s1.term), s2.term)), sv.term)
                    agg.vc(fn, "singular values descending, non-negative", struct_vc({"desc", "nonneg"} <= sv.tags, str(sv.tags)), cfg)
                    vc("norm1^2 = diag(scores1^H scores1)", tm.dpow(d["norm1"].term, 2), tm.dg(tm.mul(tm.H(s1.term), s1.term)))
                    vc("norm2^2 = diag(scores2^H scores2)", tm.dpow(d["norm2"].term, 2), tm.dg(tm.mul(tm.H(s2.term), s2.term)))
                    vc("squared_covariance = singular values^2", d["squared_covariance"].term, tm.dpow(sv.term, 2))
                    vc("components1 orthonormal", tm.mul(tm.H(Q1.term), Q1.term), tm.I(k))
                    vc("components2 orthonormal", tm.mul(tm.H(Q2.term), Q2.term), tm.I(k))
                    vc("Cw comps2 = comps1 diag(sigma) with Cw = X^H Y/(n-1)", tm.mul(Cw, Q2.term), tm.mul(Q1.term, sv.term))
                    vc("scores1 = X comps1", s1.term, tm.mul(X.term, Q1.term))
                    vc("scores2 = Y comps2", s2.term, tm.mul(Y.term, Q2.term))
                    if identity:
                        vc("total_squared_covariance = ||X^H Y/(n-1)||_F^2", d["total_squared_covariance"].term, tm.tr(tm.mul(tm.H(Cw), Cw)))
                    else:
                        # un-whitened cross-covariance: Tinv1^H Cw Tinv2 (Hermitian T)
                        Cu = tm.mul(tm.mul(tm.inv(T1), Cw), tm.inv(T2))
                        vc("total_squared_covariance = ||T1^-1 Cw T2^-1||_F^2 (un-whitened)", d["total_squared_covariance"].term, tm.tr(tm.mul(tm.H(Cu), Cu)))
                    vc("C04: transform(fit matrices) = scores (X)", trf["X"].term, s1.term, "CPCCA._transform_algorithm")
                    vc("C04: transform(fit matrices) = scores (Y)", trf["Y"].term, s2.term, "CPCCA._transform_algorithm")
                    agg.vc(fn, "dims", struct_vc(s1.dims == (S, "mode") and s2.dims == (S, "mode") and Q1.dims == (F1, "mode")
                                                 and Q2.dims == (F2, "mode") and sv.dims == ("mode",), f"{s1.dims} {Q1.dims}"), cfg)
                    agg.vc(fn, "input data stored, not computable", struct_vc(
                        d["input_data1"].term is X.term and d["input_data2"].term is Y.term and not d._allow_compute["input_data1"]
                        and not d._allow_compute["input_data2"], "input_data"), cfg)
                    r = prove_eq(pth.ctx, tm.smul(1 / tm.rv(n.z), tm.mul(tm.H(s1.term), s2.term)), sv.term)
                    if r["status"] == "discharged":
                        raise RuntimeError("engine self-check failed: canary (1/n normalisation) was discharged")
            if nret == 0:
                agg.vc(fn, "has-returning-path", struct_vc(False, "vacuity guard"), cfg)
    # ---- Pearson correlation clauses
    fn = "CPCCA._compute_cross_matrix"
    for cplx in (False, True):
        for same, diagonal, clause in ((True, False, "self-correlation exactly one (diagonal of correlation_coefficients_X/Y)"),
                                       (False, True, "cross_correlation_coefficients = Pearson correlation of paired scores")):
            cfg = "complex" if cplx else "real"
            for pth in trace_corr(cplx, same, diagonal):
                res.paths += 1
                if pth.kind != "return":
                    agg.vc(fn, clause, {"status": "undecided" if pth.kind == "unsupported" else "failed",
                                        "residue": f"{type(pth.exc).__name__}: {pth.exc} at {pth.tb[-2:]}"}, cfg)
                    continue
                with use_ctx(pth.ctx):
                    out, Rx, Ry, k = pth.value
                    if same:
                        got = tm.dg(out.term)
                        want = tm.I(k)
                    else:
                        got = out.term
                        sx = tm.dpow(tm.dg(tm.mul(tm.H(Rx.term), Rx.term)), -0.5)
                        sy = tm.dpow(tm.dg(tm.mul(tm.H(Ry.term), Ry.term)), -0.5)
                        want = tm.mul(tm.mul(sx, tm.dg(tm.mul(tm.H(Rx.term), Ry.term))), sy)    # <x,y>/(|x||y|)
                    agg.vc(fn, clause, prove_eq(pth.ctx, got, want), cfg)


# ---------------------------------------------------------------- bounded
def _fpow(C, a):
    ev, E = np.linalg.eigh(C)
    keep = ev > 1e-12 * ev.max()
    return (E[:, keep] * ev[keep] ** a) @ E[:, keep].conj().T


def eval_case(c):
    rng = np.random.default_rng(c["seed"])
    nn, pp, qq = c["n"], c["p"], c["q"]
    cplx = c["cplx"]
    L = rng.standard_normal((nn, 3))
    X = L @ rng.standard_normal((3, pp)) + 0.7 * rng.standard_normal((nn, pp))
    Y = L @ rng.standard_normal((3, qq)) + 0.7 * rng.standard_normal((nn, qq))
    if cplx:
        X = X + 1j * (L @ rng.standard_normal((3, pp)) + 0.7 * rng.standard_normal((nn, pp)))
        Y = Y + 1j * (L @ rng.standard_normal((3, qq)) + 0.7 * rng.standard_normal((nn, qq)))
    dx, dy = real.da2(X, "time", "x"), real.da2(Y, "time", "y")
    cls = getattr(xeofs.cross, c["model"])
    kw = dict(n_modes=c["k"], use_pca=c["use_pca"], n_pca_modes=c["n_pca"], solver="full")
    if "CPCCA" in c["model"]:
        kw["alpha"] = list(c["alpha"])
    m = cls(**kw).fit(dx, dy, "time")
    msgs = []
    k = c["k"]
    hilb = c["model"].startswith("Hilbert")
    sx, sy = m.scores()
    sx, sy = sx.transpose("time", "mode").values, sy.transpose("time", "mode").values
    sv = m.data["singular_values"].values
    G = sx.conj().T @ sy / (nn - 1)
    scale = max(abs(sv[0]), 1e-300)
    if real.abserr(G, np.diag(sv)) > 1e-8 * scale:
        msgs.append(f"score cross-covariance != diag(singular values) ({real.abserr(G, np.diag(sv)) / scale:.2e})")
    if np.any(sv < -1e-12) or np.any(np.diff(sv) > 1e-10 * scale):
        msgs.append("singular values not non-negative descending")
    # independent fractionally whitened cross-covariance (all covariances with N-1)
    if True:
        Xc, Yc = X - X.mean(0), Y - Y.mean(0)
        def reduce(Z, use, npc):
            if not use:
                return Z
            U, s_, Vh = np.linalg.svd(Z, full_matrices=False)
            r = len(s_) if npc == "all" else npc
            return Z @ Vh[:r].conj().T
        Xr, Yr = reduce(Xc, c["use_pca"], c["n_pca"]), reduce(Yc, c["use_pca"], c["n_pca"])
        if hilb:
            # the Hilbert augmentation (library kernel, taken as given here) is applied to the PCA-reduced series, before whitening
            from xeofs.utils.hilbert_transform import hilbert_transform
            par = m.get_params()
            def aug(Z, i):
                da_ = xr.DataArray(Z, dims=("time", "f"), coords={"time": np.arange(Z.shape[0]), "f": np.arange(Z.shape[1])})
                return hilbert_transform(da_, dims=("time", "f"), padding=par["padding"][i], decay_factor=par["decay_factor"][i]).values
            Xr, Yr = aug(Xr, 0), aug(Yr, 1)
        a1, a2 = c["alpha"]
        Cxx, Cyy = Xr.conj().T @ Xr / (nn - 1), Yr.conj().T @ Yr / (nn - 1)
        Cw = _fpow(Cxx, (a1 - 1) / 2) @ (Xr.conj().T @ Yr / (nn - 1)) @ _fpow(Cyy, (a2 - 1) / 2)
        sref = np.linalg.svd(Cw, compute_uv=False)[:k]
        ratio = sv / sref
        if np.max(np.abs(ratio / ratio[0] - 1)) > 1e-6:
            msgs.append(f"singular values not proportional to those of the independently whitened cross-covariance (ratios {ratio})")
        if (a1, a2) == (1.0, 1.0) and abs(ratio[0] - 1) > 1e-8:
            msgs.append(f"MCA-type factor is not one ({ratio[0]})")
        if (a1, a2) == (1.0, 1.0):
            qx, qy = m.data["components1"].values, m.data["components2"].values
            if real.abserr(qx.conj().T @ qx, np.eye(k)) > 1e-8 or real.abserr(qy.conj().T @ qy, np.eye(k)) > 1e-8:
                msgs.append("MCA components not orthonormal")
            tsc = float(m.data["total_squared_covariance"].values)
            ref = np.linalg.norm(Xr.conj().T @ Yr / (nn - 1)) ** 2
            if abs(tsc - ref) > 1e-8 * ref:
                msgs.append("total squared covariance != squared Frobenius norm of the cross-covariance")
            scf = m.squared_covariance_fraction().values
            if real.abserr(scf, sv ** 2 / ref) > 1e-7:
                msgs.append(f"squared covariance fraction != sigma^2/||C||_F^2 ({scf} vs {sv ** 2 / ref})")
    # every reported correlation is a genuine correlation
    def pearson(a, b):
        a = a - a.mean(0)
        b = b - b.mean(0)
        return (a.conj() * b).sum(0) / np.sqrt((abs(a) ** 2).sum(0) * (abs(b) ** 2).sum(0))
    cc = m.cross_correlation_coefficients().values
    if real.abserr(cc, pearson(sx, sy).real) > 1e-8:
        msgs.append(f"cross_correlation_coefficients != Pearson correlation of paired scores ({cc} vs {pearson(sx, sy).real})")
    if np.any(np.abs(cc) > 1 + 1e-9):
        msgs.append(f"cross correlation outside [-1,1]: {cc}")
    for nm in ("correlation_coefficients_X", "correlation_coefficients_Y"):
        cm = getattr(m, nm)().values
        if real.abserr(np.diag(cm), np.ones(k)) > 1e-8:
            msgs.append(f"{nm}: self-correlation {np.diag(cm).real} != 1")
        if np.any(np.abs(cm) > 1 + 1e-9):
            msgs.append(f"{nm}: entries outside [-1,1]")
    if c["model"] in ("CCA", "ComplexCCA") or tuple(c["alpha"]) == (0.0, 0.0):
        # canonical correlations = correlation between paired scores
        if real.abserr(pearson(sx, sy).real, cc) > 1e-8:
            msgs.append("CCA: paired score correlation differs from the reported canonical correlations")
    for nm in ("homogeneous_patterns", "heterogeneous_patterns"):
        (p1, p2), _ = getattr(m, nm)()
        for pat in (p1, p2):
            v = np.abs(pat.values)
            if np.nanmax(v) > 1 + 1e-9:
                msgs.append(f"{nm}: |correlation| up to {np.nanmax(v):.6f} > 1")
                break
    return (not msgs), "; ".join(msgs)


def bounded_cases(tier, seed):
    rng = np.random.default_rng(seed)
    cases = []
    alphas = [(1.0, 1.0), (0.0, 0.0), (0.0, 1.0), (0.5, 0.5), (0.3, 0.8)]
    for (nn, pp, qq) in ((40, 5, 4), (25, 8, 6), (30, 3, 7)):
        for a in alphas:
            for use_pca, npc in ((False, "all"), (True, "all"), (True, 3)):
                for k in (1, 2, 3):
                    if k > min(pp, qq, npc if isinstance(npc, int) else 99):
                        continue
                    for model in ("CPCCA", "ComplexCPCCA"):
                        cases.append(dict(model=model, n=nn, p=pp, q=qq, alpha=a, use_pca=use_pca, n_pca=npc, k=k,
                                          cplx=model.startswith("Complex")))
    for model, a in (("MCA", (1.0, 1.0)), ("CCA", (0.0, 0.0)), ("RDA", (0.0, 1.0)), ("ComplexMCA", (1.0, 1.0)),
                     ("ComplexCCA", (0.0, 0.0)), ("ComplexRDA", (0.0, 1.0)), ("HilbertMCA", (1.0, 1.0)), ("HilbertCCA", (0.0, 0.0)),
                     ("HilbertRDA", (0.0, 1.0)), ("HilbertCPCCA", (0.5, 0.5))):
        for use_pca, npc in ((False, "all"), (True, "all"), (True, 3)):
            cases.append(dict(model=model, n=36, p=5, q=4, alpha=a, use_pca=use_pca, n_pca=npc, k=2,
                              cplx=model.startswith("Complex"), keep=model.startswith("Hilbert") and use_pca and a != (1.0, 1.0) and npc == 3))
    # p > n: only with PCA (the whitener needs n > p)
    cases.append(dict(model="CPCCA", n=12, p=20, q=15, alpha=(0.5, 0.5), use_pca=True, n_pca=5, k=2, cplx=False))
    cases.append(dict(model="MCA", n=12, p=20, q=15, alpha=(1.0, 1.0), use_pca=True, n_pca="all", k=2, cplx=False))
    # n <= p with all PCs kept: one numerically null PC reaches the whitener and must be cut off, not amplified
    for model, a in (("CCA", (0.0, 0.0)), ("RDA", (0.0, 1.0)), ("CPCCA", (0.1, 0.1)), ("ComplexCPCCA", (0.0, 0.2))):
        for (nn, pp, qq) in ((12, 20, 15), (10, 10, 14)):
            cases.append(dict(model=model, n=nn, p=pp, q=qq, alpha=a, use_pca=True, n_pca="all", k=2,
                              cplx=model.startswith("Complex"), keep=True))
    for i, c in enumerate(cases):
        c["seed"] = int(seed) * 1000 + i
    if tier == "quick":
        cases = [c for c in cases if c.get("keep")] + real.subsample([c for c in cases if not c.get("keep")], 56, rng)
    return cases


def run_bounded(res, tier, seed):
    for c in bounded_cases(tier, seed):
        sig = {k: c[k] for k in ("model", "use_pca", "n_pca", "cplx")}
        sig["alpha"] = list(c["alpha"])
        try:
            ok, detail = eval_case(c)
        except Exception as e:  # noqa: BLE001
            ok, detail = False, f"{type(e).__name__}: {e}"
            sig["exception"] = type(e).__name__
        kinds = sorted({w for w in ("self-correlation", "Pearson", "outside", "> 1", "proportional", "diag(singular", "fraction", "orthonormal") if w in detail})
        sig["failing_clauses"] = ",".join(kinds)
        res.case("C09.real-cross-models", sig, ok, detail, payload=c)


def replay(payload):
    ok, detail = eval_case(payload["payload"])
    return ok, f"C09 replay {payload['payload']}: {'ok' if ok else detail}"


def run(tier, seed):
    res = Result("C09")
    res.functions = ["xeofs.cross.cpcca:CPCCA.__init__", "CPCCA._fit_algorithm", "CPCCA._transform_algorithm", "CPCCA._compute_cross_matrix",
                     "CPCCA._compute_cross_covariance_numpy", "CPCCA._compute_cross_covariance_diagonal_numpy", "CPCCA._normalize_data",
                     "CPCCA._compute_total_squared_covariance", "xeofs.cross.base_model_cross_set:BaseModelCrossSet.__init__",
                     "BaseModelCrossSet._process_parameter", "xeofs.cross.mca:MCA.__init__", "xeofs.cross.cpcca:ComplexCPCCA._fit_algorithm",
                     "xeofs.preprocessing.whitener:Whitener.inverse_transform_data"]
    res.assumptions = ["float arithmetic exact", "callee contract SVD_k of Decomposer.fit (verified under C01)", "contract of Whitener.fit: T Hermitian invertible, Tinv = T^-1 (verified under C16)",
                       "argsort_dask contract (argsort) assumed", "correlation clauses: score series centred and non-degenerate (preconditions)",
                       "squared_covariance_fraction (per-mode loop), homogeneous/heterogeneous patterns (scipy/statsmodels path), PCA pre-reduction, proportionality to the independent whitened cross-covariance: bounded only",
                       "statsmodels is replaced by an import stub; the `correction=` path is out of scope"]
    res.trusted = ["CPython on proxies", "vf/sym normaliser", "z3", "xarray dot/rename/apply_ufunc semantics as modelled"]
    agg = Agg(res, "C09")
    deductive(res, agg)
    # the named classes (MCA, CCA, RDA and their Complex / Hilbert variants) are the general model with alpha pinned: every other
    # option must reach the same state (constructor contract shared with C10)
    from props import C10

    class OnlyConstructors:
        def __init__(self, agg):
            self.agg = agg

        def vc(self, function, clause, r, config=""):
            if function == "constructors":
                return self.agg.vc(function, clause, r, config)
            return True
    C10.deductive(res, OnlyConstructors(agg))
    agg.flush()
    run_bounded(res, tier, seed)
    return res

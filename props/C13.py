"""C13 A model survives serialisation unchanged.

Deductive (domain S): the attribute codec of xeofs.utils.io - _should_desanitize is total on every string and
every other type; _desanitize_attrs_nc never raises and restores exactly the values _sanitize_attrs_nc encoded
(literal_eval under its contract: inverse of str() on the sanitised types, ValueError/SyntaxError otherwise).
Bounded: type(m).deserialize(codec(m.serialize())) against m for every model class x structure x user attributes x
codec (identity, netCDF attribute encoding, JSON round trip of all attributes) x placeholders, before/after compute.
"""
import json
import warnings

import numpy as np
import xarray as xr
import z3

import xeofs
import xeofs.utils.io as iomod
from xeofs.utils.io import _desanitize_attrs_nc, _sanitize_attrs_nc, insert_placeholders

from vf import real
from vf.contracts.common import Agg, struct_vc
from vf.report import Result
from vf.sym.core import PBool, PNum, PStr, PathLimit, assume, ctx, decide, explore, patched_globals
from vf.sym.prove import prove_scalar
from vf.sym.terms import Unsupported

LEVEL = "other"
EXPLANATION = ("contracts: part proved, part bounded. Proved (for all attribute strings and all values of the sanitised types): the netCDF "
               "attribute codec never raises and is the identity on what it encoded; for every model and rotator class, each attribute that a fit writes and "
               "a query method reads (e.g. the sorted flag) is part of the serialised tree. Bounded: whole-model round trips through "
               "serialize/deserialize under three codecs for every model class and structure (xarray DataTree internals are outside "
               "the deductive reach)")


class FakeVar:
    def __init__(self, attrs):
        self.attrs = attrs


class FakeNode:
    """the part of xr.DataTree the codec touches: .attrs, .variables, node[v].attrs"""

    def __init__(self, attrs, variables):
        self.attrs = attrs
        self._vars = variables

    @property
    def variables(self):
        return list(self._vars)

    def __getitem__(self, v):
        return self._vars[v]


class FakeTree(FakeNode):
    @property
    def subtree(self):
        return [self]


class Evaluated:
    """result of literal_eval on a symbolic string"""

    def __init__(self, src):
        self.src = src


def literal_eval_stub(s):
    """contract of ast.literal_eval: returns the value for a Python literal, raises ValueError/SyntaxError otherwise"""
    if type(s) is not PStr:
        import ast
        return ast.literal_eval(s)
    b = z3.Bool(f"is_python_literal[{s.z}]")
    ctx().notes.setdefault("literal_eval", []).append(b)
    if decide(b):
        return Evaluated(s)
    raise ValueError(f"malformed node or string: {s!r}")


def sym_len(x):
    if type(x) is PStr:
        return x.length()
    return len(x)


QUERY_METHODS = {"transform", "_transform_algorithm", "_inverse_transform_algorithm", "inverse_transform", "_post_compute", "_sort_by_variance", "components", "scores",
                 "predict", "_predict_algorithm", "_get_components", "_get_scores"}
FIT_METHODS = {"_fit_algorithm", "fit", "_sort_by_variance", "_post_compute"}


def _self_attrs(fn, store):
    import ast
    import inspect
    import textwrap
    try:
        tree = ast.parse(textwrap.dedent(inspect.getsource(fn)))
    except (OSError, TypeError, SyntaxError):
        return set()
    return {n.attr for n in ast.walk(tree) if isinstance(n, ast.Attribute) and isinstance(n.value, ast.Name) and n.value.id == "self"
            and isinstance(n.ctx, ast.Store) == store}


def deductive_completeness(res, agg):
    """every piece of state that a fit writes and a query method reads is part of the serialised tree (frame of serialize):
    written / read sets from the source of the class and its bases, serialised keys from get_serialization_attrs() of a fitted instance"""
    rng = np.random.default_rng(0)
    X = xr.DataArray(rng.standard_normal((20, 5)), dims=("time", "x"), coords={"time": np.arange(20), "x": np.arange(5)})
    Y = (X.isel(x=slice(0, 4)) * 0.5 + 0.1 * rng.standard_normal((20, 4))).rename(x="y")
    S_, C_ = xeofs.single, xeofs.cross
    def rot(cls, base):
        return lambda: cls(n_modes=2, max_iter=5, rtol=1e9).fit(base())       # convergence is irrelevant here
    eof = lambda: S_.EOF(n_modes=3, solver="full").fit(X, "time")
    mca = lambda: C_.MCA(n_modes=3, use_pca=False, solver="full").fit(X, Y, "time")
    builders = {"EOF": eof, "ComplexEOF": lambda: S_.ComplexEOF(n_modes=2, solver="full").fit(X + 1j * X.roll(time=2, roll_coords=False), "time"),
                "HilbertEOF": lambda: S_.HilbertEOF(n_modes=2, solver="full").fit(X, "time"), "ExtendedEOF": lambda: S_.ExtendedEOF(n_modes=2, tau=1, embedding=2).fit(X, "time"),
                "OPA": lambda: S_.OPA(n_modes=2, tau_max=2, n_pca_modes=3).fit(X, "time"), "POP": lambda: S_.POP(n_modes=2, n_pca_modes=3).fit(X, "time"),
                "SparsePCA": lambda: S_.SparsePCA(n_modes=2, solver="full").fit(X, "time"), "EOFRotator": rot(S_.EOFRotator, eof),
                "HilbertEOFRotator": rot(S_.HilbertEOFRotator, lambda: S_.HilbertEOF(n_modes=3, solver="full").fit(X, "time")),
                "MCA": mca, "CPCCA": lambda: C_.CPCCA(n_modes=2, alpha=0.5, use_pca=False, solver="full").fit(X, Y, "time"),
                "MCARotator": rot(C_.MCARotator, mca), "CPCCARotator": rot(C_.CPCCARotator, lambda: C_.CPCCA(n_modes=3, alpha=0.5, use_pca=False, solver="full").fit(X, Y, "time"))}
    fn = "get_serialization_attrs"
    for name, build in builders.items():
        try:
            with warnings.catch_warnings():
                warnings.simplefilter("ignore")
                m = build()
            keys = set(m.get_serialization_attrs())
        except Exception as e:  # noqa: BLE001
            agg.vc(fn, "a fitted model reports what it serialises", {"status": "undecided", "residue": f"{type(e).__name__}: {e}"}, name)
            continue
        read, written = set(), set()
        for attr in dir(type(m)):
            f = getattr(type(m), attr, None)
            f = getattr(f, "__func__", f)
            if not callable(f):
                continue
            if attr in QUERY_METHODS:
                read |= _self_attrs(f, False)
            if attr in FIT_METHODS:
                written |= _self_attrs(f, True)
        lost = sorted((read & written) - keys)
        agg.vc(fn, "every piece of state that a fit writes and a query method reads is part of the serialised tree", struct_vc(not lost, f"not serialised: {lost}"), name)


def deductive(res, agg):
    deductive_completeness(res, agg)
    # ---- _should_desanitize total
    fn = "_should_desanitize"

    def run():
        return iomod._should_desanitize(PStr(z3.String("a")))
    with patched_globals([iomod], {"len": sym_len}):
        paths = explore(run, maxpaths=64)
    res.paths += len(paths)
    a = z3.String("a")
    L = z3.Length(a)
    spec = z3.Or(z3.And(z3.PrefixOf(z3.StringVal("{"), a), z3.SuffixOf(z3.StringVal("}"), a)),
                 z3.And(z3.PrefixOf(z3.StringVal("["), a), z3.SuffixOf(z3.StringVal("]"), a)),
                 a == z3.StringVal("True"), a == z3.StringVal("False"), a == z3.StringVal("None"))
    for pth in paths:
        if pth.kind == "unsupported":
            agg.vc(fn, "within-supported-subset", {"status": "undecided", "residue": f"{pth.exc} {pth.tb[-2:]}"}, "str")
        elif pth.kind == "raise":
            r = prove_scalar(pth.ctx, z3.BoolVal(False))        # the path is feasible: report its model
            r["residue"] = f"raises {type(pth.exc).__name__} for " + r.get("residue", "")
            agg.vc(fn, "returns for every string (never raises)", r, "str")
        else:
            agg.vc(fn, "returns for every string (never raises)", {"status": "discharged", "backend": "z3"}, "str")
            v = pth.value
            vz = v.z if type(v) is PBool else z3.BoolVal(bool(v))
            agg.vc(fn, "True exactly for {...}, [...], 'True', 'False', 'None'", prove_scalar(pth.ctx, vz == spec, timeout_ms=20000), "str")
    for tname, v in (("int", 3), ("float", 2.5), ("bool", True), ("None", None), ("list", [1]), ("dict", {"a": 1}), ("ndarray", np.arange(3))):
        try:
            got = iomod._should_desanitize(v)
        except Exception as e:  # noqa: BLE001
            got = type(e).__name__
        agg.vc(fn, "non-strings are never desanitised", struct_vc(got is False, repr(got)), tname)

    # ---- _desanitize_attrs_nc on a node whose attribute is an arbitrary string: must not raise
    fn = "_desanitize_attrs_nc"
    for where in ("node-attr", "variable-attr"):
        def run2(where=where):
            s = PStr(z3.String("a"))
            if where == "node-attr":
                t = FakeTree({"k": s}, {})
            else:
                t = FakeTree({}, {"v": FakeVar({"k": s})})
            out = iomod._desanitize_attrs_nc(t)
            val = out.attrs["k"] if where == "node-attr" else out["v"].attrs["k"]
            return s, val
        with patched_globals([iomod], {"len": sym_len, "literal_eval": literal_eval_stub}):
            paths = explore(run2, maxpaths=64)
        res.paths += len(paths)
        for pth in paths:
            if pth.kind == "unsupported":
                agg.vc(fn, "within-supported-subset", {"status": "undecided", "residue": f"{pth.exc} {pth.tb[-2:]}"}, where)
            elif pth.kind == "raise":
                r = prove_scalar(pth.ctx, z3.BoolVal(False))
                r["residue"] = f"raises {type(pth.exc).__name__} for " + r.get("residue", "")
                agg.vc(fn, "never raises, whatever attribute strings the user's data carried", r, where)
            else:
                agg.vc(fn, "never raises, whatever attribute strings the user's data carried", {"status": "discharged", "backend": "z3"}, where)
                s, val = pth.value
                ok = val is s or (isinstance(val, Evaluated) and val.src is s)
                agg.vc(fn, "an attribute is either kept or replaced by the literal it spells", struct_vc(ok, repr(val)), where)

    # ---- round trip on the sanitised types: desanitize(sanitize(v)) == v  (values enumerated over a generated family)
    fn = "_sanitize_attrs_nc/_desanitize_attrs_nc"
    vals = [True, False, None, [], [1, 2], ["a", "b"], [True, None], {"a": 1}, {"n_modes": 3, "center": True, "solver_kwargs": {}},
            {"alpha": [1.0, 0.5], "feature_name": ["f1", "f2"]}, [[1, 2], [3]], {"k": None}, [0.999, "all"]]
    keep = ["plain", "", "[m/s]", "{x}", "True", "None", "False", "[1, 2", "{'a': 1}", "[1, 2]", 1, 2.5, "°C", "kg m-2 s-1"]
    bad = []
    for v in vals + keep:
        t = FakeTree({"k": v}, {"v": FakeVar({"k": v})})
        try:
            out = iomod._desanitize_attrs_nc(iomod._sanitize_attrs_nc(t))
            for got in (out.attrs["k"], out["v"].attrs["k"]):
                if v in vals and got != v:
                    bad.append(f"{v!r} -> {got!r}")
        except Exception as e:  # noqa: BLE001
            bad.append(f"{v!r} raises {type(e).__name__}")
    agg.vc(fn, "restores every value of the sanitised types and never raises on user strings (generated family)",
           {"status": "discharged" if not bad else "failed", "backend": "runtime-enumeration", "residue": "; ".join(bad[:6])}, "")


# ---------------------------------------------------------------- bounded: whole-model round trips
ATTRS = [{}, {"units": "", "long_name": "[m/s]"}, {"note": "{x}", "flag": "True", "missing": "None"}, {"scale": 2.5, "levels": [1, 2, 3]}]


def _codec(dt, name):
    dt = dt.copy(deep=True)
    if name == "identity":
        return dt
    if name == "nc":
        return _desanitize_attrs_nc(_sanitize_attrs_nc(dt))
    if name == "json":
        def dflt(o):
            # zarr's own encoder is not installed here; mappings / tuples / numpy scalars are encoded the obvious way
            if hasattr(o, "items"):
                return dict(o.items())
            if isinstance(o, (np.integer, np.floating, np.bool_)):
                return o.item()
            if isinstance(o, (tuple, set, frozenset, np.ndarray)):
                return list(o)
            raise TypeError(f"Object of type {type(o).__name__} is not JSON serializable")
        for node in dt.subtree:
            node.attrs = json.loads(json.dumps(node.attrs, default=dflt))
            for v in node.variables:
                node[v].attrs = json.loads(json.dumps(node[v].attrs, default=dflt))
        return dt
    raise KeyError(name)


def _build(c, rng):
    nn = 24
    t = np.arange(nn)
    base = rng.standard_normal((nn, 3, 4)) + np.sin(t / 3.0)[:, None, None]
    da = xr.DataArray(base, dims=("time", "lat", "lon"), coords={"time": t, "lat": [-30.0, 0.0, 40.0], "lon": [0.0, 10.0, 20.0, 30.0]},
                      attrs=dict(ATTRS[c["attrs"]]), name=c.get("name", "field"))
    st = c["structure"]
    if st == "da":
        X = da
    elif st == "da-nan":
        X = da.copy()
        X[:, 1, 2] = np.nan
        X[5] = np.nan
    elif st == "ds":
        X = xr.Dataset({"a": da, "b": (da.isel(lon=slice(0, 2)) * 2).assign_attrs(ATTRS[c["attrs"]])}, attrs=dict(ATTRS[c["attrs"]]))
    elif st == "list":
        X = [da, (da.isel(lat=0, drop=True) + 1).assign_attrs(ATTRS[c["attrs"]])]
    elif st == "list11":
        X = [(da.isel(lat=i % 3, drop=True) * (i + 1) + i).assign_attrs(ATTRS[c["attrs"]]) for i in range(11)]
    elif st == "multiindex":
        X = da.stack(space=("lat", "lon")).assign_attrs(ATTRS[c["attrs"]])
    elif st == "multiindex-aux":
        # a feature MultiIndex that carries a further, non-level coordinate along the stacked dimension
        X = da.stack(space=("lat", "lon"))
        X = X.assign_coords(basin=("space", np.arange(X.sizes["space"]) % 3)).assign_attrs(ATTRS[c["attrs"]])
    elif st == "coord-attrs":
        # one feature dimension whose coordinate carries list / bool / None valued attributes (as CF metadata does)
        X = da.isel(lat=0, drop=True)
        X["lon"].attrs = {"valid_range": [0, 360], "cyclic": True, "bounds": None, "units": "degrees_east"}
        X["time"].attrs = {"calendar": "none", "axis": "T", "flags": [1, 2]}
    else:
        raise KeyError(st)
    return X, da


def _close(a, b):
    if isinstance(a, (list, tuple)):
        return len(a) == len(b) and all(_close(x, y) for x, y in zip(a, b))
    if isinstance(a, xr.Dataset):
        return set(a.data_vars) == set(b.data_vars) and all(_close(a[v], b[v]) for v in a.data_vars)
    if a.dims != b.dims or a.shape != b.shape:
        return False
    for d in a.dims:
        if d in a.coords and not np.array_equal(np.asarray(a[d].to_index()), np.asarray(b[d].to_index())):
            return False
        if d in a.coords and list(a[d].to_index().names) != list(b[d].to_index().names):
            return False            # index levels (a MultiIndex must come back with its own levels, no more, no fewer)
    return bool(np.allclose(np.asarray(a.values), np.asarray(b.values), rtol=1e-10, atol=1e-12, equal_nan=True))


def eval_case(c):
    rng = np.random.default_rng(c["seed"])
    X, da = _build(c, rng)
    model = c["model"]
    cross = model in ("CPCCA", "MCA", "ComplexMCA", "HilbertMCA", "MCARotator", "CPCCARotator")
    dim = "time"
    Y = (da.isel(lon=slice(0, 3)) * 0.5 + 0.1 * rng.standard_normal((24, 3, 3))).rename({"lat": "lat2", "lon": "lon2"})
    if c["structure"] == "da-nan":
        Y = Y.copy()
        Y[5] = np.nan                     # the same sample is missing in both fields
    def cplx(z):
        if isinstance(z, list):
            return [cplx(v) for v in z]
        return z + 1j * z.roll(time=3, roll_coords=False) * 0.7      # genuinely complex (not a complex multiple of real data)
    if cross and "Complex" in model:
        X, Y = cplx(X), cplx(Y)
    coslat = c.get("coslat", False)
    kw = dict(n_modes=2, use_coslat=[coslat, False] if cross else coslat)
    S, C = xeofs.single, xeofs.cross
    if model in ("EOF", "ComplexEOF", "HilbertEOF", "SparsePCA"):
        m = getattr(S, model)(solver="full", **kw).fit(cplx(X) if model == "ComplexEOF" else X, dim)
    elif model == "POP":
        m = S.POP(n_pca_modes=4, **kw).fit(X, dim)
    elif model == "OPA":
        m = S.OPA(tau_max=2, n_pca_modes=4, **kw).fit(X, dim)
    elif model == "ExtendedEOF":
        m = S.ExtendedEOF(tau=1, embedding=2, **kw).fit(X, dim)
    elif model in ("EOFRotator", "HilbertEOFRotator"):
        base = (S.EOF if model == "EOFRotator" else S.HilbertEOF)(n_modes=5 if c.get("many_modes") else 3, solver="full", use_coslat=c.get("coslat", False)).fit(X, dim)
        m = getattr(S, model)(n_modes=4 if c.get("many_modes") else 2, power=c.get("power", 1)).fit(base)
    elif model in ("CPCCA", "MCA", "ComplexMCA", "HilbertMCA"):
        ekw = dict(alpha=0.5) if model == "CPCCA" else {}
        m = getattr(C, model)(use_pca=c.get("use_pca", False), n_pca_modes=4, solver="full", **kw, **ekw).fit(X, Y, dim)
    elif model in ("MCARotator", "CPCCARotator"):
        b = (C.MCA(n_modes=3, use_pca=False, solver="full") if model == "MCARotator" else C.CPCCA(n_modes=3, alpha=0.5, use_pca=False, solver="full")).fit(X, Y, dim)
        m = getattr(C, model)(n_modes=2, power=1).fit(b)
    else:
        raise KeyError(model)
    if c.get("after_transform") and hasattr(m, "transform") and model not in ("HilbertEOF", "ExtendedEOF", "OPA", "HilbertMCA", "HilbertEOFRotator"):
        newX = X if not isinstance(X, list) else X
        (m.transform(newX) if not cross else m.transform(X=newX))
    if c.get("after_compute"):
        m.compute()
    msgs = []
    dt = m.serialize()
    if c.get("placeholders"):
        dt = insert_placeholders(dt.copy(deep=True))
    try:
        dt2 = _codec(dt, c["codec"])
    except Exception as e:  # noqa: BLE001
        return False, f"codec '{c['codec']}' raised {type(e).__name__}: {str(e)[:100]}"
    try:
        with warnings.catch_warnings():
            warnings.simplefilter("ignore")
            m2 = type(m).deserialize(dt2)
    except Exception as e:  # noqa: BLE001
        return False, f"deserialize raised {type(e).__name__}: {str(e)[:120]}"
    p1, p2 = m.get_params(), m2.get_params()
    if json.dumps(p1, sort_keys=True, default=str) != json.dumps(p2, sort_keys=True, default=str):
        msgs.append(f"parameters differ: {p1} vs {p2}")
    def q(name, f):
        try:
            a, b = f(m), f(m2)
        except NotImplementedError:
            return
        except Exception as e:  # noqa: BLE001
            try:
                f(m)
            except Exception:  # noqa: BLE001 - the original cannot answer either: not a serialisation issue
                return
            msgs.append(f"{name}: rebuilt model raised {type(e).__name__}: {str(e)[:80]}")
            return
        if not _close(a, b):
            msgs.append(f"{name} differs after the round trip")
    q("components", lambda mm: mm.components())
    q("scores", lambda mm: mm.scores())
    if model not in ("HilbertEOF", "ExtendedEOF", "OPA", "HilbertMCA", "HilbertEOFRotator"):
        q("transform", (lambda mm: mm.transform(X=X)) if cross else (lambda mm: mm.transform(X)))
    if model not in ("OPA", "ExtendedEOF"):
        if cross:
            q("inverse_transform", lambda mm: mm.inverse_transform(*m.scores()))
        else:
            q("inverse_transform", lambda mm: mm.inverse_transform(m.scores()))
    if cross and model not in ("HilbertMCA",):
        q("predict", lambda mm: mm.predict(X))
    if c.get("compute_rebuilt") and not msgs:
        # computing a rebuilt (already computed) model is a no-op for its answers
        before = (m2.components(), m2.scores())
        m2.compute()
        after = (m2.components(), m2.scores())
        if not _close(before[0], after[0]) or not _close(before[1], after[1]):
            msgs.append("compute() on the rebuilt model changed its components / scores")
        if not _close(m.components(), after[0]):
            msgs.append("components differ from the original after compute() on the rebuilt model")
    return (not msgs), "; ".join(msgs[:3])


def bounded_cases(tier, seed):
    rng = np.random.default_rng(seed)
    cases = []
    models = ["EOF", "ComplexEOF", "HilbertEOF", "SparsePCA", "POP", "OPA", "ExtendedEOF", "EOFRotator", "HilbertEOFRotator",
              "CPCCA", "MCA", "ComplexMCA", "HilbertMCA", "MCARotator", "CPCCARotator"]
    for model in models:
        for st in ("da", "da-nan", "ds", "list", "multiindex"):
            if model in ("ExtendedEOF", "OPA", "POP") and st not in ("da", "da-nan"):
                continue
            for attrs in range(len(ATTRS)):
                for codec in ("identity", "nc", "json"):
                    cases.append(dict(model=model, structure=st, attrs=attrs, codec=codec, placeholders=bool((attrs + len(st)) % 2),
                                      after_compute=bool(attrs % 2), after_transform=bool((attrs // 2) % 2)))
    # targeted: many list items, coslat weights, rotator after model serialisation
    for codec in ("identity", "nc", "json"):
        cases.append(dict(model="EOF", structure="list11", attrs=0, codec=codec, placeholders=False, keep=True))
        for model in ("EOF", "EOFRotator", "MCA"):
            cases.append(dict(model=model, structure="da", attrs=1, codec=codec, coslat=True, placeholders=True, keep=True))
    for codec in ("identity", "nc"):
        for model, power in (("EOFRotator", 1), ("EOFRotator", 2), ("POP", 1), ("MCARotator", 1)):
            cases.append(dict(model=model, structure="da", attrs=0, codec=codec, placeholders=False, power=power, many_modes=True, compute_rebuilt=True,
                              after_compute=False, keep=codec == "identity"))
    for codec in ("identity", "nc", "json"):
        for st in ("multiindex-aux", "coord-attrs"):
            for model in ("EOF", "EOFRotator"):
                cases.append(dict(model=model, structure=st, attrs=1, codec=codec, placeholders=False, after_compute=False, keep=model == "EOF"))
    for i, c in enumerate(cases):
        c["seed"] = int(seed) * 1000 + i
    if tier == "quick":
        cases = [c for c in cases if c.get("keep")] + real.subsample([c for c in cases if not c.get("keep")], 60, rng)
    return cases


def run_bounded(res, tier, seed):
    for c in bounded_cases(tier, seed):
        sig = {k: c.get(k) for k in ("model", "structure", "attrs", "codec", "placeholders", "coslat")}
        try:
            ok, detail = eval_case(c)
        except Exception as e:  # noqa: BLE001
            ok, detail = False, f"harness/fit error {type(e).__name__}: {str(e)[:150]}"
            sig["exception"] = type(e).__name__
        res.case("C13.model-round-trip", sig, ok, detail, payload=c)
    # the rotator must not make its base model unserialisable (serialise the MODEL after a rotator was fitted on it)
    rng = np.random.default_rng(seed)
    X, _ = _build(dict(structure="da", attrs=0), rng)
    for name, mk, rk in (("EOF", lambda: xeofs.single.EOF(n_modes=3, solver="full").fit(X, "time"), lambda: xeofs.single.EOFRotator(n_modes=2)),):
        m = mk()
        rk().fit(m)
        try:
            m2 = type(m).deserialize(m.serialize())
            ok = _close(m.scores(), m2.scores()) and _close(m.components(), m2.components())
            detail = "" if ok else "model rebuilt after a rotator fit differs"
        except Exception as e:  # noqa: BLE001
            ok, detail = False, f"model.serialize()->deserialize after rotator.fit(model) raised {type(e).__name__}: {e}"
        res.case("C13.model-after-rotator", {"model": name, "sequence": "fit, rotator.fit(model), serialize, deserialize"}, ok, detail,
                 payload={"special": "model-after-rotator"})


def replay(payload):
    if payload["payload"].get("special"):
        res = Result("C13")
        run_bounded(res, "quick", payload.get("seed", 0))
        bad = [c for c in res.cases if c.check == "C13.model-after-rotator" and not c.ok]
        return (not bad), "C13 replay model-after-rotator: " + ("ok" if not bad else bad[0].detail)
    ok, detail = eval_case(payload["payload"])
    return ok, f"C13 replay {payload['payload']}: {'ok' if ok else detail}"


def run(tier, seed):
    res = Result("C13")
    res.functions = ["xeofs.utils.io:_should_desanitize", "xeofs.utils.io:_desanitize_attrs_nc", "xeofs.utils.io:_sanitize_attrs_nc",
                     "get_serialization_attrs of the 13 model / rotator classes (completeness against the state their fit writes and their queries read)"]
    res.assumptions = ["contract of ast.literal_eval: value for a Python literal, ValueError/SyntaxError otherwise; inverse of str() on dict/list/bool/None built from literals (checked on a generated family, not proved)",
                       "the codec is traced on a duck-typed tree exposing .subtree/.attrs/.variables (what the functions touch)",
                       "serialisation completeness: written / read attribute sets are taken syntactically (`self.<name>` stores in fit methods, loads in query methods, over the class and its bases); state reached through other objects or written by reflection is not seen",
                       "BaseModel/Transformer/DataContainer/Preprocessor serialize-deserialize run on real xarray DataTrees: bounded only",
                       "no netCDF/zarr engine is installed: file I/O itself (save/load) is out of reach; the three codecs reproduce the attribute transformations the property names"]
    res.trusted = ["CPython on proxies", "z3/strings", "xarray DataTree for the bounded part"]
    agg = Agg(res, "C13")
    deductive(res, agg)
    agg.flush()
    run_bounded(res, tier, seed)
    return res

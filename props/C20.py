"""C20 Bootstrap members are sign-aligned, reproducible EOF analyses of resamples.

Deductive: the real EOFBootstrapper.fit is traced on structural proxies with the member EOF, the random generator and
xarray under contracts, for n_bootstraps = 1, 2, 3 and a symbolic seed / n_modes / sample and feature names:
one generator is created from the user's seed and every member draws n_samples indices out of n_samples with
replacement from it, in member order; the member model gets the model's n_modes and dimension names, no re-scaling and
(default) centring, is fitted on exactly that resample of the model's preprocessed data (with the model's sample
labels) and its scores are its transform of the original data; results are the members stacked along 'n' = 1..B;
components and scores are multiplied by one and the same sign array, the sign of the Pearson correlation between
member scores and model scores along the sample dimension, explained / total variance are not; the model's arrays are
not modified; no default dimension name is hard-coded.  z3: sign(c) * c >= 0.
Bounded: on real models (structures, names, centring on/off, seeds) each member is compared with an independent SVD of
the resample it was actually fitted on (recorded by a subclass of the real EOF), resamples are with-replacement draws
of the model's rows, scores are projections of the original samples, correlations with the model are non-negative,
the same seed reproduces resamples and members.
"""
import ast
import os

import numpy as np
import xarray as xr
import z3

import xeofs
import xeofs.validation.bootstrapper as bmod

from vf import real
from vf.contracts.common import Agg, Tok, struct_vc
from vf.report import Result
from vf.sym import ldom
from vf.sym.core import PNum, PathLimit, Unsupported, ctx, explore, patched_globals
from vf.sym.ldom import LDA, CoordId, LCoord
from vf.sym.prove import prove_scalar
from vf.sym.terms import named_ext

LEVEL = "other"
EXPLANATION = ("contracts: part proved, part bounded. Proved on the real EOFBootstrapper.fit (n_bootstraps 1..3, any seed, n_modes, names, extents): "
               "seeding and draw protocol, what each member is fitted on and with which options, what is stacked, the common sign "
               "array and its definition, no mutation of the model. Bounded: numerical agreement of members with an independent "
               "EOF of the recorded resample, non-negative correlation, reproducibility, on real models")
S, F = "§S", "§F"
FN = "EOFBootstrapper.fit"


class Draw:
    def __init__(self, gen, no, a, size, replace):
        self.gen, self.no, self.a, self.size, self.replace = gen, no, a, size, replace
        self.take_key = ("draw", gen.no, no)
        self.take_size = size


class Gen:
    def __init__(self, no, seed):
        self.no, self.seed, self.draws = no, seed, []

    def choice(self, a, size=None, replace=True, p=None, **kw):
        if p is not None or kw:
            raise Unsupported("weighted choice")
        d = Draw(self, len(self.draws), a, size, replace)
        self.draws.append(d)
        ctx().events.append(("draw", d))
        return d

    def __getattr__(self, k):
        raise Unsupported("Generator." + k)


class _Random:
    def default_rng(self, seed=None):
        gens = ctx().notes.setdefault("gens", [])
        g = Gen(len(gens), seed)
        gens.append(g)
        return g

    def __getattr__(self, k):
        raise Unsupported("np.random." + k)


class NPB(ldom.NPL):
    random = _Random()


class MemberEOF:
    """contract stand-in of xeofs.single.EOF as a bootstrap member (EOF itself is under contract in C01/C03/C07)"""

    def __init__(self, **kw):
        self.kw = kw
        self.fitted = None
        ctx().notes.setdefault("members", []).append(self)
        self.no = len(ctx().notes["members"]) - 1
        self.data = {}
        self.transforms = []

    def fit(self, X, dim):
        if self.fitted is not None:
            raise Unsupported("member fitted twice")
        self.fitted = (X, dim)
        sn, fn = self.kw.get("sample_name", "sample"), self.kw.get("feature_name", "feature")
        if set(X.dims) != {sn, fn} and not (isinstance(dim, str) and dim in X.dims):
            raise ValueError(f"member fit: dims {X.dims}")
        k = named_ext("k")
        mode = LCoord("mode", CoordId("modes"), k)
        fdim = [d for d in X.dims if d != dim][0]
        self.data = {"explained_variance": LDA(("eof.expvar", self.no), ("mode",), {"mode": k}, {"mode": mode}),
                     "total_variance": LDA(("eof.totvar", self.no), (), {}, {}),
                     "components": LDA(("eof.components", self.no), (fdim, "mode"), {fdim: X._ext[fdim], "mode": k}, {fdim: X._coords.get(fdim), "mode": mode})}
        return self

    def transform(self, X, normalized=False):
        self.transforms.append((X, normalized))
        sn = self.kw.get("sample_name", "sample")
        k = named_ext("k")
        return LDA(("eof.transform", self.no, X.val, normalized), (sn, "mode"), {sn: X._ext[sn], "mode": k},
                   {sn: X._coords.get(sn), "mode": LCoord("mode", CoordId("modes"), k)})


class ModelStub:
    """a fitted EOF model as the bootstrapper sees it"""

    def __init__(self):
        n, p, k = named_ext("n"), named_ext("p"), named_ext("k")
        self.sample_name, self.feature_name = S, F
        self.preprocessor = Tok("model.preprocessor")
        sc, fc, mc = LCoord(S, CoordId("model.samples"), n), LCoord(F, CoordId("model.features"), p), LCoord("mode", CoordId("modes"), k)
        self.n_modes = PNum(z3.Int("n_modes_param"))
        self.data = {"input_data": LDA(("in", "input_data"), (S, F), {S: n, F: p}, {S: sc, F: fc}, False, "model"),
                     "scores": LDA(("in", "model_scores"), (S, "mode"), {S: n, "mode": k}, {S: sc, "mode": mc}, False, "model"),
                     "norms": LDA(("in", "model_norms"), ("mode",), {"mode": k}, {"mode": mc}, False, "model")}

    def get_params(self):
        return {"n_modes": self.n_modes, "sample_name": S, "feature_name": F, "center": Tok("model.center"), "standardize": Tok("model.standardize"),
                "use_coslat": Tok("model.use_coslat"), "solver": Tok("model.solver"), "random_state": Tok("model.random_state")}


def trace(B):
    seed = PNum(z3.Int("seed"))      # any integer, 0 included (its truth value is a branch)
    names = {"np": NPB(), "xr": ldom.XRL(), "EOF": MemberEOF, "trange": ldom.range_l}

    def run():
        model = ModelStub()
        b = bmod.EOFBootstrapper(n_bootstraps=B, seed=seed)
        b.fit(model)
        return b, model, seed

    with patched_globals([bmod], names):
        return explore(run, maxpaths=16)


def trace_refit(B):
    """the same bootstrapper object fitted twice"""
    seed = PNum(z3.Int("seed"))
    names = {"np": NPB(), "xr": ldom.XRL(), "EOF": MemberEOF, "trange": ldom.range_l}

    def run():
        model = ModelStub()
        b = bmod.EOFBootstrapper(n_bootstraps=B, seed=seed)
        b.fit(model)
        first = (len(ctx().notes.get("gens", [])), len(ctx().notes.get("members", [])))
        b.fit(model)
        return b, model, seed, first

    with patched_globals([bmod], names):
        return explore(run, maxpaths=16)


def literal_scan():
    hits = []
    tree = ast.parse(open(bmod.__file__).read())
    for fn in ast.walk(tree):
        if not isinstance(fn, ast.FunctionDef):
            continue
        doc = fn.body[0].value if fn.body and isinstance(fn.body[0], ast.Expr) and isinstance(getattr(fn.body[0], "value", None), ast.Constant) else None
        for node in ast.walk(fn):
            if isinstance(node, ast.Constant) and node.value in ("sample", "feature") and node is not doc:
                hits.append(f"{fn.name}:{node.lineno} {node.value!r}")
    return hits


def deductive(res, agg, tier="quick"):
    hits = literal_scan()
    agg.vc("validation/bootstrapper.py", "no hard-coded default dimension name ('sample' / 'feature') in a method body", struct_vc(not hits, "; ".join(hits)))
    c = z3.Real("c")
    sgn = z3.If(c > 0, 1.0, z3.If(c < 0, -1.0, 0.0))
    from vf.sym.core import Ctx
    agg.vc(FN, "lemma: a series multiplied by the sign of its correlation correlates non-negatively (sign(c) * c >= 0)", prove_scalar(Ctx([]), sgn * c >= 0))
    for B in ((1, 2, 3) if tier == "quick" else (1, 2, 3, 4, 5, 6, 10)):
        cfg = f"n_bootstraps={B}"
        try:
            paths = trace(B)
        except PathLimit as e:
            res.undecided_reasons.append(f"{FN}[{cfg}]: {e}")
            continue
        res.paths += len(paths)
        nret = 0
        for pth in paths:
            if pth.kind == "unsupported":
                agg.vc(FN, "within-supported-subset", {"status": "undecided", "residue": f"{pth.exc} {pth.tb[-3:]}"}, cfg)
                continue
            if pth.kind == "raise":
                agg.vc(FN, "does not raise on a fitted model", struct_vc(False, f"{pth.exc!r} {pth.tb[-3:]}"), cfg)
                continue
            nret += 1
            b, model, seed = pth.value
            notes = pth.ctx.notes
            gens, members = notes.get("gens", []), notes.get("members", [])
            inp = model.data["input_data"]
            st = lambda clause, ok, detail="": agg.vc(FN, clause, struct_vc(bool(ok), str(detail)[:300]), cfg)
            st("exactly one random generator is created, from the user's seed", len(gens) == 1 and gens[0].seed is seed, [getattr(g.seed, "__name__", g.seed) for g in gens])
            draws = gens[0].draws if gens else []
            def okd(d):
                return (type(d.a) is PNum and type(d.size) is PNum and z3.eq(z3.simplify(d.a.z), z3.simplify(inp._ext[S].z))
                        and z3.eq(z3.simplify(d.size.z), z3.simplify(inp._ext[S].z)) and d.replace is True)
            st("one draw per member: n_samples indices out of n_samples, with replacement", len(draws) == B and all(okd(d) for d in draws),
               [(str(d.a), str(d.size), d.replace) for d in draws])
            st("one member EOF per bootstrap", len(members) == B, len(members))
            want_kw = {"n_modes": model.n_modes, "sample_name": S, "feature_name": F}
            def okm(i, m):
                if m.fitted is None:
                    return False
                X, dim = m.fitted
                kw = dict(m.kw)
                good_kw = (kw.get("n_modes") is model.n_modes and kw.get("sample_name") == S and kw.get("feature_name") == F
                           and kw.get("standardize", False) is False and kw.get("use_coslat", False) is False and kw.get("center", True) is True
                           and kw.get("use_weights", False) is False)
                good_x = (X.val == ("take", S, ("draw", 0, i), inp.val) and set(X.dims) == {S, F} and dim == S
                          and X._coords[S].cid.key == inp._coords[S].cid.key and X._coords[F].cid.key == inp._coords[F].cid.key)
                return good_kw and good_x
            st("member i is an EOF (model's n_modes and dimension names, centred, not re-scaled) of draw i applied to the model's preprocessed data, "
               "labelled with the model's sample coordinates", all(okm(i, m) for i, m in enumerate(members)),
               [(m.kw, m.fitted and m.fitted[0].val) for m in members])
            st("member scores are the member's un-normalised transform of the original preprocessed data",
               all(len(m.transforms) == 1 and m.transforms[0][0].val == inp.val and m.transforms[0][1] is False for m in members),
               [[(t[0].val, t[1]) for t in m.transforms] for m in members])
            d = b.data
            stack = lambda what: ("stack-new", "n") + tuple((what, i) for i in range(B))
            sc_stack = ("stack-new", "n") + tuple(("eof.transform", i, inp.val, False) for i in range(B))
            msc = model.data["scores"].val
            corr = ("corr", (S,), sc_stack, msc)
            signs = ("sign", corr)
            st("explained variance = members' explained variances stacked along n (no sign applied)", d["explained_variance"].val == stack("eof.expvar"), d["explained_variance"].val)
            st("total variance = members' total variances stacked along n", d["total_variance"].val == stack("eof.totvar"), d["total_variance"].val)
            st("components = stacked member components times sign(Pearson correlation of member scores with the model's scores along the sample dim)",
               d["components"].val == ("*", stack("eof.components"), signs), d["components"].val)
            st("scores = stacked member scores times the same sign array", d["scores"].val == ("*", sc_stack, signs), d["scores"].val)
            def okn(x):
                return "n" in x.dims and z3.is_int_value(z3.simplify(x._ext["n"].z)) and z3.simplify(x._ext["n"].z).as_long() == B \
                    and x._coords.get("n") is not None and x._coords["n"].cid.key == ("range", "1")
            st("every result carries the member dimension n = 1..n_bootstraps", all(okn(d[k]) for k in ("explained_variance", "total_variance", "components", "scores")),
               {k: (d[k].dims, str(d[k]._coords.get("n"))) for k in ("explained_variance", "total_variance", "components", "scores")})
            st("results keep the model's structure: components over (n, feature, mode), scores over (n, sample, mode) with the model's labels",
               set(d["components"].dims) == {"n", F, "mode"} and set(d["scores"].dims) == {"n", S, "mode"}
               and d["components"]._coords[F].cid.key == inp._coords[F].cid.key and d["scores"]._coords[S].cid.key == inp._coords[S].cid.key,
               (d["components"].dims, d["scores"].dims))
            ev = [e for e in pth.ctx.events if e[0] in ("mutate", "inner-join", "outer-join", "positional-join")]
            st("the model's arrays are not modified and no label join drops or pads samples", not ev, ev)
            st("the bootstrapper keeps the model's preprocessor (so results are back-transformed like the model's)", b.preprocessor is model.preprocessor)
        if nret == 0:
            agg.vc(FN, "has-returning-path", struct_vc(False, "vacuity guard"), cfg)
    # ---- a second fit of the same object starts its own generator from the seed (same seed => same resamples, fit after fit)
    B = 2
    cfg = "second fit of the same bootstrapper"
    try:
        paths = trace_refit(B)
    except PathLimit as e:
        res.undecided_reasons.append(f"{FN}[{cfg}]: {e}")
        paths = []
    res.paths += len(paths)
    nret = 0
    for pth in paths:
        if pth.kind == "unsupported":
            agg.vc(FN, "within-supported-subset", {"status": "undecided", "residue": f"{pth.exc} {pth.tb[-3:]}"}, cfg)
            continue
        if pth.kind != "return":
            agg.vc(FN, "does not raise on a fitted model", struct_vc(False, f"{pth.exc!r} {pth.tb[-3:]}"), cfg)
            continue
        nret += 1
        b, model, seed, (g1, m1) = pth.value
        gens, members = pth.ctx.notes.get("gens", []), pth.ctx.notes.get("members", [])
        inp = model.data["input_data"]
        second = members[m1:]
        ok = (len(gens) > g1 and len(second) == B and all(m.fitted is not None for m in second)
              and all(m.fitted[0].val[:3] == ("take", S, ("draw", gens[-1].no, i)) for i, m in enumerate(second))
              and gens[-1].seed is seed and gens[-1].no >= g1 and len(gens[-1].draws) == B)
        agg.vc(FN, "every fit draws its resamples from the start of a generator created from the user's seed during that fit", struct_vc(ok,
               f"generators {[(g.no, len(g.draws)) for g in gens]}, second-fit inputs {[m.fitted and m.fitted[0].val[:3] for m in second]}"), cfg)
    if paths and nret == 0:
        agg.vc(FN, "has-returning-path", struct_vc(False, "vacuity guard"), cfg)


# ---------------------------------------------------------------- bounded
class _Rec:
    fits = []


class RecEOF(xeofs.single.EOF):
    def fit(self, X, dim, weights=None):
        _Rec.fits.append(X.copy(deep=True))
        return super().fit(X, dim, weights)


def _data(c, rng):
    n = c["n"]
    if c["struct"] == "wide":
        # three dominant modes over a noise floor, rank well above n_modes + the sketch's oversampling
        U, _ = np.linalg.qr(rng.standard_normal((n, 3)))
        V, _ = np.linalg.qr(rng.standard_normal((40, 3)))
        X = real.da2((U * np.array([30.0, 20.0, 12.0])) @ V.T + 1.5 * rng.standard_normal((n, 40)), sample=c["dim"], feature="x")
    elif c["struct"] == "2d":
        X = real.da2(real.matrix(rng, n, 7) + 0.3 * rng.standard_normal((n, 7)) + c.get("offset", 0.0), sample=c["dim"], feature="x")
    elif c["struct"] == "3d":
        X = real.da3(real.matrix(rng, n, 12) + 0.3 * rng.standard_normal((n, 12)) + c.get("offset", 0.0), 3, sample=c["dim"])
    else:
        a = real.da3(real.matrix(rng, n, 12) + 0.3 * rng.standard_normal((n, 12)), 3, sample=c["dim"])
        X = xr.Dataset({"a": a, "b": (a * 0.5 + 1.0).isel(lon=slice(0, 2))})
    return X


def _boot(model, B, seed):
    old = bmod.EOF
    bmod.EOF = RecEOF
    _Rec.fits = []
    try:
        bs = xeofs.validation.EOFBootstrapper(n_bootstraps=B, seed=seed)
        bs.fit(model)
    finally:
        bmod.EOF = old
    return bs, list(_Rec.fits)


def eval_case(c):
    rng = np.random.default_rng(c["seed"])
    X = _data(c, rng)
    kw = dict(n_modes=c["k"], center=c["center"], standardize=c["standardize"], use_coslat=c.get("coslat", False))
    if c["names"]:
        kw.update(sample_name="smp", feature_name="ftr")
    mname = c.get("model", "EOF")
    if mname == "ComplexEOF":
        X = X + 1j * X.isel({c["dim"]: slice(None, None, -1)}).assign_coords({c["dim"]: X[c["dim"]]}) * 0.7
    if c.get("dask"):
        X = X.chunk({c["dim"]: 40})
        kw.update(compute=True)
    model = getattr(xeofs.single, mname)(**kw).fit(X, c["dim"])
    cplx = mname != "EOF"
    B = c["B"]
    # the compressed (dask) back end is a randomised method: members are compared to its accuracy, not to rounding
    tol, tolv = (1e-8, 1e-6) if not c.get("dask") else (1e-3, 1e-2)
    bs, fits = _boot(model, B, c["bseed"])
    sn, fn = model.sample_name, model.feature_name
    msgs = []
    inp = model.data["input_data"].transpose(sn, fn).values
    n = inp.shape[0]
    if len(fits) != B:
        return False, f"{len(fits)} member fits for n_bootstraps={B}"
    ev, tv = bs.data["explained_variance"], bs.data["total_variance"]
    comps, scores = bs.data["components"], bs.data["scores"]
    for nm, x in (("explained_variance", ev), ("total_variance", tv), ("components", comps), ("scores", scores)):
        if "n" not in x.dims or x.sizes["n"] != B or list(x["n"].values) != list(range(1, B + 1)):
            msgs.append(f"{nm}: member dimension is not n = 1..{B}")
    if msgs:
        return False, "; ".join(msgs)
    msc = model.data["scores"].transpose(sn, "mode").values
    anydup = False
    for i in range(B):
        R = fits[i].transpose(sn, fn).values
        if R.shape != inp.shape:
            msgs.append(f"member {i}: resample shape {R.shape} != {inp.shape}")
            break
        # every row of the resample is a row of the model's preprocessed data
        key = {r.tobytes() for r in inp}
        if not all(r.tobytes() in key for r in R):
            msgs.append(f"member {i}: resample contains rows that are not samples of the model")
        anydup |= len({r.tobytes() for r in R}) < n
        Rc = R - R.mean(0)
        U, s, Vt = np.linalg.svd(Rc, full_matrices=False)
        k = c["k"]
        lam = s[:k] ** 2 / (n - 1)
        e_i = ev.isel(n=i).values
        if real.relerr(e_i, lam) > tol:
            msgs.append(f"member {i}: explained variance {e_i[:3]} != EOF of the resample {lam[:3]}")
        t_i = float(tv.isel(n=i).values)
        if abs(t_i - (s ** 2).sum() / (n - 1)) > 1e-8 * max(1.0, t_i):
            msgs.append(f"member {i}: total variance {t_i} != {(s ** 2).sum() / (n - 1)}")
        if np.any(e_i < -1e-12) or np.any(np.diff(e_i) > 1e-10 * max(1.0, e_i[0])) or e_i.sum() > t_i * (1 + 1e-9):
            msgs.append(f"member {i}: explained variances not non-negative descending within the total variance")
        C = comps.isel(n=i).transpose(fn, "mode").values
        if real.abserr(C.conj().T @ C, np.eye(k)) > max(tol, 1e-8) * (1e-4 if c.get('dask') else 1):
            msgs.append(f"member {i}: components not orthonormal")
        gap = np.min(np.abs(np.diff(s[:k + 1]))) / s[0] if k + 1 <= len(s) else 1.0
        if gap > 1e-6:
            proj = np.abs(np.sum(C * Vt[:k].T, axis=0))
            if np.any(np.abs(proj - 1) > tolv):
                msgs.append(f"member {i}: components are not the EOFs of the resample (|<c, v>| = {proj[:3]})")
        Sc = scores.isel(n=i).transpose(sn, "mode").values
        want = (inp - R.mean(0)) @ C
        if real.relerr(Sc, want) > 1e-8:
            msgs.append(f"member {i}: scores are not the projection of the original samples onto the member's components")
        for m in range(k if not cplx else 0):      # orientation of complex modes is a phase: not evaluated
            a, b_ = Sc[:, m], msc[:, m]
            if np.std(a) > 0 and np.std(b_) > 0:
                r = np.corrcoef(a, b_)[0, 1]
                if r < -1e-9:
                    msgs.append(f"member {i} mode {m + 1}: correlation with the model's mode is {r:.4f} < 0")
                    break
    if n >= 30 and not anydup:
        msgs.append("no member resample contains a repeated sample: not a with-replacement resample")
    # a second fit of the same bootstrapper object reproduces the first
    old_eof = bmod.EOF
    bmod.EOF = RecEOF
    _Rec.fits = []
    try:
        bs.fit(model)
    finally:
        bmod.EOF = old_eof
    if not all(np.array_equal(a.values, b_.values) for a, b_ in zip(fits, _Rec.fits)):
        msgs.append("a second fit of the same seeded bootstrapper used different resamples")
    # reproducibility
    bs2, fits2 = _boot(model, B, c["bseed"])
    if not all(np.array_equal(a.values, b_.values) for a, b_ in zip(fits, fits2)):
        msgs.append("the same seed gave different resamples")
    for nm in ("explained_variance", "components", "scores"):
        if real.relerr(bs2.data[nm].values, bs.data[nm].values) > (tol if nm == 'explained_variance' else max(tol, 1e-8) * (5 if c.get('dask') else 1)):
            msgs.append(f"the same seed gave different {nm}")
    # results carry the model's own structure
    try:
        cc = bs.components()
        ss = bs.scores()
        mc = model.components()
        def dimsof(o):
            return [set(v.dims) for v in o.data_vars.values()] if isinstance(o, xr.Dataset) else [set(o.dims)]
        if type(cc) is not type(mc) or [d - {"n"} for d in dimsof(cc)] != dimsof(mc):
            msgs.append("components() does not have the model's structure plus n")
        if c["dim"] not in ss.dims or "n" not in ss.dims:
            msgs.append(f"scores() dims {ss.dims}")
    except Exception as e:  # noqa: BLE001
        msgs.append(f"components()/scores(): {type(e).__name__}: {str(e)[:120]}")
    return (not msgs), "; ".join(msgs[:3])


def bounded_cases(tier, seed):
    rng = np.random.default_rng(seed)
    cases = []
    for struct in ("2d", "3d", "ds"):
        for names in (False, True):
            for center, standardize in ((True, False), (True, True), (False, False)):
                for B, k in ((1, 2), (3, 3), (8, 2)):
                    cases.append(dict(struct=struct, names=names, center=center, standardize=standardize, B=B, k=k, n=40, dim="time",
                                      offset=2.0 if not center else 0.0))
    cases.append(dict(struct="3d", names=True, center=True, standardize=False, coslat=True, B=4, k=3, n=35, dim="t"))
    cases.append(dict(struct="2d", names=False, center=True, standardize=False, B=50, k=2, n=30, dim="time", keep=True))
    cases.append(dict(struct="2d", names=False, center=True, standardize=False, B=3, k=2, n=30, dim="time", keep=True, bseed0=True))
    cases.append(dict(struct="2d", names=True, center=False, standardize=False, B=6, k=2, n=40, dim="time", offset=5.0, keep=True))
    for mname in ("ComplexEOF", "HilbertEOF"):
        cases.append(dict(struct="2d", names=mname == "HilbertEOF", center=True, standardize=False, B=3, k=2, n=30, dim="time", model=mname, keep=True))
    cases.append(dict(struct="wide", names=False, center=True, standardize=False, B=2, k=2, n=80, dim="time", dask=True, keep=True))
    for i, c in enumerate(cases):
        c["seed"] = int(seed) * 1000 + i
        c["bseed"] = 0 if c.get("bseed0") else int(rng.integers(0, 2 ** 31))
    if tier == "quick":
        cases = [c for c in cases if c.get("keep")] + real.subsample([c for c in cases if not c.get("keep")], 20, rng)
    return cases


def run_bounded(res, tier, seed):
    for c in bounded_cases(tier, seed):
        sig = {k: c.get(k) for k in ("struct", "names", "center", "standardize")}
        if c.get("model"):
            sig["model"] = c["model"]
        if c.get("dask"):
            sig["dask"] = True
        try:
            ok, detail = eval_case(c)
        except Exception as e:  # noqa: BLE001
            ok, detail = False, f"{type(e).__name__}: {str(e)[:150]}"
            sig["exception"] = type(e).__name__
        if not ok and "correlation with the model" in detail and "!=" not in detail:
            sig["only_sign"] = True
        res.case("C20.bootstrap", sig, ok, detail, payload=c)


def replay(payload):
    ok, detail = eval_case(payload["payload"])
    return ok, f"C20 replay {payload['payload']}: {'ok' if ok else detail}"


def run(tier, seed):
    res = Result("C20")
    res.functions = ["xeofs.validation.bootstrapper:_BaseBootstrapper.__init__", "EOFBootstrapper.__init__", "EOFBootstrapper.fit"]
    res.assumptions = ["member EOF under its contract (C01/C03/C07): explained variance, total variance, components of the array it is fitted on; transform = projection of centred data",
                       "numpy: default_rng(seed) is deterministic in the seed; Generator.choice(n, n, replace=True) draws n indices in 0..n-1 with replacement",
                       "xarray: isel by an integer array selects rows positionally; concat along a new dim stacks in list order aligning other dims by label; mean/std/sign/* are element-wise / per-dim reductions with broadcasting by name",
                       "the loop over members is executed for the concrete n_bootstraps in {1,2,3}; larger counts: bounded (up to 50)",
                       "xr.corr is the Pearson correlation along the given dim (centres both arguments)"]
    res.trusted = ["CPython on proxies", "vf/sym/ldom structural proxies", "z3"]
    agg = Agg(res, "C20")
    deductive(res, agg, tier)
    agg.flush()
    run_bounded(res, tier, seed)
    return res

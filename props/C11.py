"""C11 Rotation re-expresses the retained subspace without changing what it represents.

Deductive: real EOFRotator._fit_algorithm / _compute_rot_mat_inv_trans / _sort_by_variance / _transform_algorithm
against the contracts of promax (rotated = loadings R, R invertible, unitary for power 1), Decomposer (SVD_k, s > 0),
argsort and the sign multiplier.  Bounded: real single- and cross-set rotators, powers 1-4, real/complex/Hilbert.
"""
import numpy as np
import xarray as xr
import z3

import xeofs

from vf import real
from vf.contracts.common import Agg, F, S, struct_vc
from vf.contracts.rotator import trace_eof_rotator
from vf.report import Result
from vf.sym import terms as tm
from vf.sym.core import PathLimit, use_ctx
from vf.sym.prove import prove_eq, prove_scalar
from vf.sym.xda import cid_equal

LEVEL = "proof"
EXPLANATION = ("reconstruction invariance for every power, unitarity consequences for Varimax (orthonormal normalised scores, "
               "summed explained variance), joint re-ordering of all mode-indexed results by the same permutation and the sign "
               "convention applied to scores and components alike are discharged on the real EOFRotator against the promax "
               "contract, and that contract is discharged on the real promax wrapper and the numpy kernels _promax / _varimax (loop rule: the "
               "rotation matrix stays unitary through every iteration); convergence, the Varimax criterion and the cross-set rotators are bounded runs")


def deductive(res, agg):
    fn = "EOFRotator._fit_algorithm"
    for power in (1, 2):
        for cplx in (False, True):
            cfg = f"power={'1' if power == 1 else '>1'},{'complex' if cplx else 'real'}"
            try:
                paths = trace_eof_rotator(power, cplx)
            except PathLimit as e:
                res.undecided_reasons.append(f"{fn}[{cfg}]: {e}")
                continue
            res.paths += len(paths)
            nret = 0
            for pth in paths:
                if pth.kind == "unsupported":
                    agg.vc(fn, "within-supported-subset", {"status": "undecided", "residue": f"{pth.exc} at {pth.tb[-2:]}"}, cfg)
                    continue
                if pth.kind == "raise":
                    k0 = z3.Int("k0")
                    from vf.contracts.rotator import n, p
                    agg.vc(fn, "raises only from the base model's own refusal", prove_scalar(pth.ctx, z3.Or(k0 < 1, k0 > n.z, k0 > p.z)), cfg)
                    continue
                nret += 1
                with use_ctx(pth.ctx):
                    o = pth.value
                    m, rot, X = o["m"], o["rot"], o["X"]
                    md, pre, d = m.data, o["pre"], rot.data
                    k = pre["scores"]._ext["mode"]
                    E = tm.sel(md["scores"]._ext["mode"], k)
                    ref = tm.mul(tm.mul(md["scores"].term, E), tm.H(tm.mul(md["components"].term, E)))
                    vc = lambda clause, l, r, f=fn: agg.vc(f, clause, prove_eq(pth.ctx, l, r), cfg)
                    vc("reconstruction from rotated modes = reconstruction from the same number of unrotated modes",
                       tm.mul(pre["scores"].term, tm.H(pre["components"].term)), ref)
                    vc("same after re-ordering", tm.mul(d["scores"].term, tm.H(d["components"].term)), ref, "EOFRotator._sort_by_variance")
                    vc("norms^2 = explained_variance (n-1)", tm.dpow(pre["norms"].term, 2), tm.smul(tm.rv(X._ext[S].z - 1), pre["explained_variance"].term))
                    vc("explained variance = squared column norms of the rotated loadings; components unit-norm",
                       tm.dg(tm.mul(tm.H(pre["components"].term), pre["components"].term)), tm.I(k))
                    if power == 1:
                        ns = tm.mul(pre["scores"].term, tm.inv(pre["norms"].term))
                        vc("Varimax: rotated normalised scores orthonormal", tm.mul(tm.H(ns), ns), tm.I(k))
                        vc("Varimax: summed explained variance preserved", tm.tr(pre["explained_variance"].term),
                           tm.tr(tm.mul(tm.mul(tm.H(E), md["explained_variance"].term), E)))
                        R = pre["rotation_matrix"].term
                        vc("Varimax: rotation matrix unitary", tm.mul(tm.H(R), R), tm.I(k))
                    # joint re-ordering: every mode-indexed entry carries the same permutation, variance descending
                    perm_ids = {kk: v._cid.get("mode") for kk, v in d.items() if "mode" in v.dims and kk != "idx_modes_sorted"}
                    same = len({str(c) for c in perm_ids.values()}) == 1 and all(
                        isinstance(c, tuple) and c[0] == "range" for c in perm_ids.values())
                    terms_perm = all(("Perm[" in repr(v.term)) for kk, v in d.items() if "mode" in v.dims and kk != "idx_modes_sorted")
                    agg.vc("EOFRotator._sort_by_variance", "all mode-indexed results re-ordered by the same permutation, labels 1..k kept",
                           struct_vc(same and terms_perm, f"{perm_ids}"), cfg)
                    agg.vc("EOFRotator._sort_by_variance", "explained variance descending after compute",
                           struct_vc("desc" in d["explained_variance"].tags, str(d["explained_variance"].tags)), cfg)
                    agg.vc("EOFRotator._sort_by_variance", "sorted flag set", struct_vc(rot.sorted is True, "sorted flag"), cfg)
                    # sign convention applied to scores and components alike: flipping signs does not change the product
                    sg = pre["modes_sign"].term
                    vc("sign multiplier squares to one", tm.mul(sg, sg), tm.I(k))
                    # C04: transform(fit matrix) = scores, before and after the re-ordering
                    vc("C04: transform(fit matrix) = scores (deferred, unsorted state)", o["Z_unsorted"].transpose(S, "mode").term,
                       pre["scores"].transpose(S, "mode").term, "EOFRotator._transform_algorithm")
                    vc("C04: transform(fit matrix) = scores (after compute)", o["Z_sorted"].transpose(S, "mode").term,
                       d["scores"].transpose(S, "mode").term, "EOFRotator._transform_algorithm")
                    agg.vc(fn, "dims", struct_vc(pre["components"].dims == (F, "mode") and set(pre["scores"].dims) == {S, "mode"}
                                                 and pre["explained_variance"].dims == ("mode",), str(pre["scores"].dims)), cfg)
                    agg.vc(fn, "input data shared, not computable", struct_vc(
                        d["input_data"].term is X.term and d._allow_compute["input_data"] is False, "input_data"), cfg)
            if nret == 0:
                agg.vc(fn, "has-returning-path", struct_vc(False, "vacuity guard"), cfg)


# ---------------------------------------------------------------- bounded
def _varimax_criterion(L):
    L = np.abs(L)
    h = np.sqrt((L ** 2).sum(1, keepdims=True))
    A = L / np.where(h > 0, h, 1)
    return float(np.sum((A ** 4).mean(0) - ((A ** 2).mean(0)) ** 2))


def eval_case(c):
    rng = np.random.default_rng(c["seed"])
    nn, pp = c["n"], c["p"]
    msgs = []
    if c["kind"] == "single":
        spec = "clustered" if c["near_equal"] else "geometric"
        X = real.matrix(rng, nn, pp, spec, 1.0, c["cplx"]) + 0.05 * rng.standard_normal((nn, pp))
        if c["model"] == "HilbertEOF":
            X = X.real
        da = real.da2(X)
        cls = getattr(xeofs.single, c["model"])
        m = cls(n_modes=c["k0"], solver="full").fit(da, "time")
        rcls = getattr(xeofs.single, c["model"] + "Rotator")
        rot = rcls(n_modes=c["kr"], power=c["power"], max_iter=5000, rtol=1e-10).fit(m)
        kr = c["kr"]
        ev = rot.explained_variance().values
        if np.any(np.diff(ev) > 1e-10 * ev[0]):
            msgs.append(f"explained variance not descending: {ev}")
        rec_r = rot.inverse_transform(rot.scores())
        rec_m = m.inverse_transform(m.scores().sel(mode=slice(1, kr)))
        if real.relerr(rec_r.values, rec_m.values) > 1e-7:
            msgs.append(f"reconstruction from rotated modes differs from the unrotated one ({real.relerr(rec_r.values, rec_m.values):.2e})")
        comps = rot.components().values.reshape(pp, kr) if rot.components().dims[0] != "mode" else rot.components().transpose("x", "mode").values
        if not c["cplx"] and c["model"] != "HilbertEOF":
            big = comps[np.argmax(np.abs(comps), axis=0), np.arange(kr)]
            if np.any(big < 0):
                msgs.append("sign convention violated: largest-magnitude loading negative")
        if c["power"] == 1:
            R = rot.data["rotation_matrix"].values
            if real.abserr(R.conj().T @ R, np.eye(kr)) > 1e-8:
                msgs.append("Varimax rotation matrix not unitary")
            sc = rot.scores(normalized=True).transpose("time", "mode").values
            if real.abserr(sc.conj().T @ sc, np.eye(kr)) > 1e-7:
                msgs.append("Varimax rotated normalised scores not orthonormal")
            ev0 = m.explained_variance().values[:kr]
            if abs(ev.sum() - ev0.sum()) > 1e-8 * ev0.sum():
                msgs.append(f"summed explained variance changed: {ev.sum()} vs {ev0.sum()}")
            if not c["cplx"] and c["model"] == "EOF":
                L0 = m.components().transpose("x", "mode").values[:, :kr] * np.sqrt(ev0)
                L1 = comps * np.sqrt(ev)
                if _varimax_criterion(L1) < _varimax_criterion(L0) - 1e-9:
                    msgs.append(f"Varimax criterion decreased: {_varimax_criterion(L0)} -> {_varimax_criterion(L1)}")
        if c.get("refit"):
            for j in range(c["refit"]):
                r2 = np.random.default_rng(c["seed"] + 77 + j)
                X2 = real.matrix(r2, nn, pp, "clustered", 1.0, c["cplx"]) + 0.05 * r2.standard_normal((nn, pp))
                m2 = cls(n_modes=c["k0"], solver="full").fit(real.da2(X2.real if c["model"] == "HilbertEOF" else X2), "time")
                rot.fit(m2)
                ev2 = rot.explained_variance().values
                if np.any(np.diff(ev2) > 1e-10 * ev2[0]):
                    msgs.append(f"after re-fitting the same rotator: explained variance not descending: {ev2}")
                    break
            return (not msgs), "; ".join(msgs)
        if c["model"] != "HilbertEOF":
            tr = rot.transform(da)
            if real.relerr(tr.transpose("time", "mode").values, rot.scores().transpose("time", "mode").values) > 1e-6:
                msgs.append("C04: transform(training data) != rotated scores")
    else:
        L = rng.standard_normal((nn, 3))
        X = L @ rng.standard_normal((3, pp)) + 0.5 * rng.standard_normal((nn, pp))
        Y = L @ rng.standard_normal((3, pp + 1)) + 0.5 * rng.standard_normal((nn, pp + 1))
        if c["cplx"]:
            X = X + 1j * (L @ rng.standard_normal((3, pp)))
            Y = Y + 1j * (L @ rng.standard_normal((3, pp + 1)))
        dx, dy = real.da2(X, "time", "x"), real.da2(Y, "time", "y")
        base = "ComplexCPCCA" if c["cplx"] else "CPCCA"
        m = getattr(xeofs.cross, base)(n_modes=c["k0"], alpha=c["alpha"], use_pca=c["use_pca"], n_pca_modes=c["k0"] + 1 if c["use_pca"] else "all", solver="full").fit(dx, dy, "time")
        rot = getattr(xeofs.cross, base + "Rotator")(n_modes=c["kr"], power=c["power"], max_iter=5000, rtol=1e-10).fit(m)
        kr = c["kr"]
        sq = rot.data["squared_covariance"].values
        if np.any(np.diff(sq) > 1e-10 * sq[0]):
            msgs.append(f"squared covariance not descending: {sq}")
        rx, ry = rot.inverse_transform(*rot.scores())
        sx, sy = m.scores()
        mx, my = m.inverse_transform(sx.sel(mode=slice(1, kr)), sy.sel(mode=slice(1, kr)))
        e1, e2 = real.relerr(rx.values, mx.values), real.relerr(ry.values, my.values)
        if max(e1, e2) > 1e-6:
            msgs.append(f"cross reconstruction from rotated modes differs from the unrotated one ({e1:.2e}, {e2:.2e})")
        if c["power"] == 1:
            R = rot.data["rotation_matrix"].values
            if real.abserr(R.conj().T @ R, np.eye(kr)) > 1e-8:
                msgs.append("Varimax rotation matrix not unitary (cross)")
        if c.get("refit"):
            # the same rotator object fitted again (C14 history clause): ordering must still hold
            for j in range(c["refit"]):
                r2 = np.random.default_rng(c["seed"] + 77 + j)
                L2 = r2.standard_normal((nn, 4))
                X2 = L2 @ r2.standard_normal((4, pp)) + 0.3 * r2.standard_normal((nn, pp))
                Y2 = L2 @ r2.standard_normal((4, pp + 1)) + 0.3 * r2.standard_normal((nn, pp + 1))
                m2 = getattr(xeofs.cross, base)(n_modes=c["k0"], alpha=c["alpha"], use_pca=c["use_pca"], n_pca_modes=c["k0"] + 1 if c["use_pca"] else "all", solver="full").fit(
                    real.da2(X2 + 0j if c["cplx"] else X2, "time", "x"), real.da2(Y2 + 0j if c["cplx"] else Y2, "time", "y"), "time")
                rot.fit(m2)
                sq = rot.data["squared_covariance"].values
                if np.any(np.diff(sq) > 1e-10 * sq[0]):
                    msgs.append(f"after re-fitting the same rotator: squared covariance not descending: {sq}")
                    break
    return (not msgs), "; ".join(msgs)


def bounded_cases(tier, seed):
    rng = np.random.default_rng(seed)
    cases = []
    for model in ("EOF", "ComplexEOF", "HilbertEOF"):
        for power in (1, 2, 3, 4):
            for (k0, kr) in ((4, 2), (5, 5), (6, 3)):
                for near in (False, True):
                    cases.append(dict(kind="single", model=model, power=power, k0=k0, kr=kr, near_equal=near, n=40, p=8,
                                      cplx=model == "ComplexEOF"))
    for cplx in (False, True):
        for power in (1, 2, 3):
            for alpha in (1.0, 0.5, 0.0):
                for use_pca in (False, True):
                    cases.append(dict(kind="cross", power=power, k0=4, kr=3, alpha=alpha, use_pca=use_pca, n=40, p=6, cplx=cplx))
    for cplx in (False, True):
        cases.append(dict(kind="cross", power=1, k0=4, kr=4, alpha=1.0, use_pca=False, n=40, p=6, cplx=cplx, refit=6, keep=True))
        cases.append(dict(kind="cross", power=2, k0=4, kr=3, alpha=0.5, use_pca=True, n=40, p=6, cplx=cplx, refit=6, keep=True))
    cases.append(dict(kind="single", model="EOF", power=1, k0=5, kr=5, near_equal=True, n=40, p=8, cplx=False, refit=6, keep=True))
    cases.append(dict(kind="single", model="ComplexEOF", power=2, k0=5, kr=4, near_equal=True, n=40, p=8, cplx=True, refit=6, keep=True))
    for i, c in enumerate(cases):
        c["seed"] = int(seed) * 1000 + i
    if tier == "quick":
        cases = [c for c in cases if c.get("keep")] + real.subsample([c for c in cases if not c.get("keep")], 54, rng)
    return cases


def run_bounded(res, tier, seed):
    for c in bounded_cases(tier, seed):
        sig = {k: c.get(k) for k in ("kind", "model", "power", "cplx", "alpha", "use_pca", "near_equal", "refit")}
        try:
            ok, detail = eval_case(c)
        except Exception as e:  # noqa: BLE001
            ok, detail = False, f"{type(e).__name__}: {e}"
            sig["exception"] = type(e).__name__
        if not ok:
            sig["failing"] = detail.split(":")[0].split("(")[0].strip()[:60]
        res.case("C11.real-rotators", sig, ok, detail, payload=c)


def replay(payload):
    ok, detail = eval_case(payload["payload"])
    return ok, f"C11 replay {payload['payload']}: {'ok' if ok else detail}"


def run(tier, seed):
    res = Result("C11")
    res.functions = ["xeofs.cross.cpcca_rotator:CPCCARotator._fit_algorithm/_sort_by_variance/transform/_compute_rot_mat_inv_trans (+ inherited CPCCA._inverse_transform_algorithm)", "xeofs.single.eof_rotator:EOFRotator.__init__", "EOFRotator._fit_algorithm", "EOFRotator._compute_rot_mat_inv_trans",
                     "EOFRotator._post_compute", "EOFRotator._sort_by_variance", "EOFRotator._transform_algorithm",
                     "xeofs.single.eof:EOF.explained_variance", "xeofs.data_container.data_container:DataContainer.add"]
    res.functions += ["xeofs.linalg.rotation:promax", "xeofs.linalg._numpy._rotation:_promax", "xeofs.linalg._numpy._rotation:_varimax"]
    res.assumptions = ["the promax contract used at the rotators' call site (rotated = loadings T, T invertible, unitary for power 1, phi = inv(T) inv(T)^H) is DISCHARGED on the real promax wrapper, _promax and _varimax (vf/contracts/rotkernel.py): _varimax's iteration by the loop rule with the invariant 'R unitary' for every number of iterations; element-wise parts of the Varimax / Procrustes criteria abstracted to unconstrained matrices; convergence and optimality of the Varimax criterion are not contract-decidable here (bounded runs only)",
                       "kernel assumptions: eps stabiliser read as 0, no zero row / column in the loadings (communalities and column maxima > 0), the matrices the kernel inverts are invertible, np.linalg.svd contract",
                       "precondition: retained singular values > 0 and rotated loadings have non-zero columns (the code divides by them)",
                       "argsort_dask / np.linalg.inv / sign-multiplier contracts assumed", "float arithmetic exact; machine-eps stabilisers in _varimax/_promax read as 0",
                       "cross-set rotators: the real CPCCARotator is traced with the base model under its contract (scores_i = whitened input_i times Q_i, s > 0), fitted whiteners (T Hermitian invertible) or none, PCA pre-reduction off or fitted (V^H V = I)"]
    res.trusted = ["CPython on proxies", "vf/sym normaliser", "z3", "xarray semantics as modelled"]
    agg = Agg(res, "C11")
    deductive(res, agg)
    from vf.contracts import rotkernel
    rotkernel.obligations(res, agg)
    from vf.contracts import crossrot
    crossrot.obligations(res, agg, ("C11",))      # the real CPCCARotator traced against its callees' contracts
    agg.flush()
    run_bounded(res, tier, seed)
    return res

"""C02 Outputs keep the input's structure and attach every value to its own label.

Deductive (domain L + generic-element arithmetic): the real Preprocessor chain is traced for an enumerated family of
structures (1-3 sample dims x 1-3 feature dims x dimension orders x sample/feature MultiIndex x flags x list inputs);
on every path: inverse_transform_data(fit_transform(X)) has the input's dims in the input's order, the input's
coordinate labels per dim (sorted allowed), and a value term that z3 proves equal to X's generic element; components
come back with the feature dims + mode, scores with the sample dims + mode.
Bounded: Dataset containers, index kinds (unsorted, string, datetime, MultiIndex), extra coordinates, custom names on
the real Preprocessor / EOF.
"""
import itertools

import numpy as np
import pandas as pd
import xarray as xr
import z3

import xeofs
from xeofs.preprocessing.preprocessor import Preprocessor

from vf import real
from vf.contracts.common import Agg, struct_vc
from vf.contracts.prep import Patched, scores_like
from vf.report import Result
from vf.sym.core import assume, PathLimit, ctx, explore
from vf.sym.ldom import LDA, LCoord, CoordId, mk_input, ops_in
from vf.sym.terms import named_ext

LEVEL = "other"
EXPLANATION = ("contracts: part proved, part bounded. Proved for all extents and coordinate contents of each enumerated DataArray / list "
               "structure: the inverse chain restores dims (in input order), coordinate label sets and values (z3 on the generic element), "
               "components carry feature dims + mode, scores sample dims + mode. Bounded: Dataset containers (xarray's to_stacked_array / "
               "to_unstacked_dataset), index kinds, non-index coordinates, on the real code")


def to_z3(val, env):
    """generic element of a provenance term; relabelling / selection ops are value-preserving at the labels they keep"""
    if isinstance(val, (int, float)):
        return z3.RealVal(str(val))
    h = val[0]
    if h == "in":
        return env.setdefault(("in", val[1]), z3.Real(f"x[{val[1]}]"))
    if h == "ones":
        return z3.RealVal(1)
    if h == "coslat":
        return env.setdefault(val, z3.Real("coslat"))
    if h in ("mean", "std", "var"):
        return env.setdefault(val, z3.Real(f"{h}{len(env)}"))
    if h == "clip":
        return to_z3(val[1], env)          # precondition: std above the clipping floor
    if h in ("+", "-", "*", "/"):
        a, b = to_z3(val[1], env), to_z3(val[2], env)
        return {"+": a + b, "-": a - b, "*": a * b, "/": a / b}[h]
    if h in ("kept", "reindex", "nanfill-unstack"):
        return to_z3(val[1], env)
    if h == "concat":
        # one list item / one block at a time: value of the block that contains the label
        if len(val) == 3:
            return to_z3(val[2], env)
        raise KeyError("concat of several items")
    if h == "block":
        if isinstance(val[4], tuple) and val[4][0] == "concat" and len(val[4]) > 3:
            raise KeyError("block of a concatenation that is not one of its items")
        return to_z3(val[4], env)
    if h == "block-item":
        env.setdefault("__items__", set()).add(val[1])
        return to_z3(val[2], env)
    raise KeyError(h)


def pick_block(val, which):
    """follow one list item through concat/block"""
    if not isinstance(val, tuple):
        return val
    if val[0] == "concat" and len(val) > 3:
        return pick_block(val[2 + which], which)
    return tuple(pick_block(v, which) if isinstance(v, tuple) else v for v in val)


def trace_struct(sample, feature, order, multiindex=(), flags=None, nlist=1):
    flags = flags or {}
    S, F = "§S", "§F"

    def run():
        p = Preprocessor(sample_name=S, feature_name=F, check_nans=flags.get("check_nans", False), with_center=flags.get("center", True),
                         with_std=flags.get("std", False), with_coslat=flags.get("coslat", False), compute=True)
        Xs = [mk_input(f"X{i}" if nlist > 1 else "X", sample, feature, order=order, multiindex=multiindex, feature_tag=f"fit{i}" if nlist > 1 else "fit")
              for i in range(nlist)]
        for x in Xs:
            for e_ in x._ext.values():
                assume(e_.z >= 1)           # no empty dimension
        if nlist > 1:
            # list items share the sample labels; a later item may carry them in another order
            for j, x in enumerate(Xs[1:]):
                for d in sample:
                    cid0 = Xs[0]._coords[d].cid
                    cid = CoordId("sorted", cid0) if (flags.get("reordered") and j == 0) else cid0
                    x._coords[d] = LCoord(d, cid, Xs[0]._ext[d], Xs[0]._coords[d].index_kind, Xs[0]._coords[d].levels)
                    x._ext[d] = Xs[0]._ext[d]
        if flags.get("same_sizes"):
            # items of equal extents but with their own labels: nothing but the labels tells them apart
            for x in Xs[1:]:
                for d in feature:
                    c0 = x._coords[d]
                    x._ext[d] = Xs[0]._ext[d]
                    x._coords[d] = LCoord(d, c0.cid, Xs[0]._ext[d], c0.index_kind, c0.levels)
        X = Xs if nlist > 1 else Xs[0]
        W = None
        if flags.get("weights"):
            fd = [d for d in Xs[0].dims if d not in sample]
            W = LDA(("in", "W"), fd, {d: Xs[0]._ext[d] for d in fd}, {d: Xs[0]._coords[d] for d in fd}, False, "user-input")
        X2 = p.fit_transform(X, tuple(sample), W)
        back = p.inverse_transform_data(X2)
        comps = LDA(("in", "P"), (F, "mode"), {F: X2._ext[F], "mode": named_ext("k")},
                    {F: X2._coords[F], "mode": LCoord("mode", CoordId("modes"), named_ext("k"))})
        return {"X": Xs, "X2": X2, "back": back, "comps": p.inverse_transform_components(comps),
                "scores": p.inverse_transform_scores(scores_like(X2, "S_fit")), "events": list(ctx().events)}

    with Patched():
        return explore(run, maxpaths=64)


def structures(tier):
    out = []
    names_s, names_f = ("t1", "t2", "t3"), ("a", "b", "c")
    for ns in (1, 2, 3):
        for nf in (1, 2, 3):
            s, f = names_s[:ns], names_f[:nf]
            dims = list(s) + list(f)
            orders = [tuple(dims), tuple(reversed(dims))]
            if ns + nf >= 3:
                orders.append(tuple(dims[1:] + dims[:1]))
            if tier == "thorough":
                orders = list(itertools.permutations(dims)) if ns + nf <= 4 else orders + [tuple(dims[2:] + dims[:2])]
            for o in orders:
                out.append(dict(sample=s, feature=f, order=o))
    out.append(dict(sample=("t1",), feature=("a", "b"), order=("t1", "a", "b"), multiindex=("t1",)))
    out.append(dict(sample=("t1",), feature=("a",), order=("a", "t1"), multiindex=("a",)))
    out.append(dict(sample=("t1",), feature=("a", "b"), order=("t1", "a", "b"), flags=dict(std=True)))
    out.append(dict(sample=("t1",), feature=("a", "b"), order=("b", "t1", "a"), flags=dict(center=False)))
    out.append(dict(sample=("t1",), feature=("a", "b"), order=("t1", "a", "b"), flags=dict(check_nans=True)))
    out.append(dict(sample=("t1",), feature=("a", "b"), order=("t1", "a", "b"), nlist=2))
    out.append(dict(sample=("t1", "t2"), feature=("a",), order=("a", "t1", "t2"), nlist=3))
    out.append(dict(sample=("t1",), feature=("a", "b"), order=("t1", "a", "b"), nlist=2, flags=dict(reordered=True)))
    out.append(dict(sample=("t1",), feature=("a",), order=("t1", "a"), nlist=12, flags=dict(same_sizes=True)))       # more items than one decimal digit counts
    return out


def deductive(res, agg, only_lists=False, tier="quick"):
    fn = "Preprocessor.inverse_transform_data"
    for st in structures(tier):
        if only_lists and not st.get("nlist"):
            continue
        cfg = f"dims={','.join(st['order'])};sample={','.join(st['sample'])}" + (f";multiindex={st['multiindex']}" if st.get("multiindex") else "") + \
              (f";{st['flags']}" if st.get("flags") else "") + (f";list{st['nlist']}" if st.get("nlist") else "")
        try:
            paths = trace_struct(**st)
        except PathLimit as e:
            res.undecided_reasons.append(f"{fn}[{cfg}]: {e}")
            continue
        res.paths += len(paths)
        nret = 0
        for pth in paths:
            if pth.kind == "unsupported":
                agg.vc(fn, "within-supported-subset", {"status": "undecided", "residue": f"{pth.exc} at {pth.tb[-3:]}"}, cfg)
                continue
            if pth.kind == "raise":
                ok = st.get("flags", {}).get("check_nans") and isinstance(pth.exc, ValueError) and "NaN" in str(pth.exc)
                agg.vc(fn, "no refusal of a supported structure (other than the NaN refusals)", struct_vc(bool(ok), f"{type(pth.exc).__name__}: {pth.exc} {pth.tb[-2:]}"), cfg)
                continue
            nret += 1
            o = pth.value
            backs = o["back"] if isinstance(o["back"], list) else [o["back"]]
            compsl = o["comps"] if isinstance(o["comps"], list) else [o["comps"]]
            agg.vc(fn, "same container kind: one output per input item", struct_vc(len(backs) == len(o["X"]) and (isinstance(o["back"], list) == (len(o["X"]) > 1)), f"{len(backs)} outputs"), cfg)
            for i, (X, b, cp) in enumerate(zip(o["X"], backs, compsl)):
                agg.vc(fn, "dimensions restored in the input's order", struct_vc(b.dims == X.dims, f"{b.dims} vs {X.dims}"), cfg)
                same = all(d in b._coords and b._coords[d].cid.same_labels(X._coords[d].cid) or
                           (d in b._coords and b._coords[d].cid.base().kind == "kept" and b._coords[d].cid.base().parts[0].same_labels(X._coords[d].cid))
                           for d in X.dims)
                agg.vc(fn, "every dimension carries the input's coordinate labels (order along a dimension may come back sorted)", struct_vc(same, repr(b)[:220]), cfg)
                kinds = all(b._coords[d].index_kind == X._coords[d].index_kind for d in X.dims if d in b._coords)
                agg.vc(fn, "index kind (plain / MultiIndex) restored per dimension", struct_vc(kinds, str({d: b._coords[d].index_kind for d in b._coords})), cfg)
                try:
                    env = {}
                    val = pick_block(b.val, i) if len(o["X"]) > 1 else b.val
                    e = to_z3(val, env)
                    x = env.get(("in", X.val[1]))
                    items = env.pop("__items__", set())
                    if len(o["X"]) > 1:
                        agg.vc(fn, "list item i is cut from the i-th block of the concatenated matrix", struct_vc(items == {i}, f"item {i} cut from block(s) {sorted(items)}"), cfg)
                    s = z3.Solver()
                    s.set("timeout", 10000)
                    for k_, v_ in env.items():
                        if isinstance(k_, tuple) and k_[0] in ("std", "coslat"):
                            s.add(v_ > 0)
                        if k_ == ("in", "W"):
                            s.add(v_ != 0)
                    s.add(e != x)
                    r = s.check()
                    agg.vc(fn, "values equal the input at every label (generic element, all flags)",
                           {"status": "discharged" if (x is not None and r == z3.unsat) else "failed", "backend": "z3", "residue": f"{r}: {str(e)[:160]}"}, cfg)
                except KeyError as ex:
                    agg.vc(fn, "values equal the input at every label (generic element, all flags)", {"status": "undecided", "residue": f"value term outside the calculus: {ex}"}, cfg)
                fd = [d for d in X.dims if d not in st["sample"]]
                agg.vc("Preprocessor.inverse_transform_components", "components come back with the feature dims (input order) plus mode",
                       struct_vc([d for d in cp.dims if d != "mode"] == fd and "mode" in cp.dims, f"{cp.dims} vs {fd}"), cfg)
                agg.vc("Preprocessor.inverse_transform_components", "components carry the input's feature coordinates",
                       struct_vc(all(cp._coords[d].cid.same_labels(X._coords[d].cid) or cp._coords[d].cid.base().kind == "kept" for d in fd), repr(cp)[:200]), cfg)
            sc = o["scores"]
            X0 = o["X"][0]
            sd = [d for d in X0.dims if d in st["sample"]]
            agg.vc("Preprocessor.inverse_transform_scores", "scores come back with the sample dims plus mode", struct_vc(set(sc.dims) == set(sd) | {"mode"}, f"{sc.dims}"), cfg)
            agg.vc("Preprocessor.inverse_transform_scores", "scores carry the input's sample coordinates",
                   struct_vc(all(sc._coords[d].cid.same_labels(X0._coords[d].cid) or sc._coords[d].cid.base().kind == "kept" for d in sd), repr(sc)[:200]), cfg)
            agg.vc(fn, "list items are combined by label, never by position", struct_vc(not [e for e in o["events"] if e[0] == "positional-join"], str([e for e in o["events"] if e[0] == "positional-join"][:1])), cfg)
            agg.vc(fn, "the user's input objects are not modified", struct_vc(not [e for e in o["events"] if e[0] == "mutate"], str(o["events"][:2])), cfg)
        if nret == 0:
            agg.vc(fn, "has-returning-path", struct_vc(False, "vacuity guard"), cfg)


# ---------------------------------------------------------------- bounded
def _coord(kind, n, rng, base=0):
    if kind == "int":
        return np.arange(base, base + n)
    if kind == "unsorted-float":
        return rng.permutation(np.linspace(-3.0, 7.5, n))
    if kind == "string":
        return np.array([f"k{chr(97 + (7 * i) % 26)}{i}" for i in range(n)])
    if kind == "datetime":
        return pd.date_range("2001-01-01", periods=n, freq="7D").values
    raise KeyError(kind)


def deductive_history(res, agg):
    """labels of the fitted scores do not change when other data is transformed in between (real chain, structural proxies)"""
    from vf.contracts.prep import trace_chain
    fn = "Preprocessor.inverse_transform_scores (after transform of other data)"
    for name, kw in (("1 sample dim", {}), ("2 sample dims", dict(sample=("time", "run"), feature=("lat",))), ("sample MultiIndex", dict(multiindex=("time",)))):
        try:
            paths = trace_chain(**kw)
        except PathLimit as e:
            res.undecided_reasons.append(f"{fn}[{name}]: {e}")
            continue
        res.paths += len(paths)
        nret = 0
        for pth in paths:
            if pth.kind == "unsupported":
                agg.vc(fn, "within-supported-subset", {"status": "undecided", "residue": f"{pth.exc} {pth.tb[-3:]}"}, name)
                continue
            if pth.kind != "return":
                continue
            nret += 1
            v = pth.value
            fs, un, X = v["fitscores"], v["unseen"], v["X"]
            sd = [d for d in X.dims if d in fs.dims]
            ok = bool(sd) and all("Xnew." not in str(fs._coords[d].cid) and f"X.{d}" in str(fs._coords[d].cid) for d in sd)
            agg.vc(fn, "the fitted data's scores keep the fitted data's own sample labels", struct_vc(ok, str({d: str(fs._coords[d].cid) for d in sd})), name)
            ok2 = all("Xnew." in str(un._coords[d].cid) for d in sd if d in un._coords)
            agg.vc(fn, "and the other data's scores carry the other data's labels", struct_vc(ok2, str({d: str(c.cid) for d, c in un._coords.items()})), name)
        if nret == 0:
            agg.vc(fn, "has-returning-path", struct_vc(False, "vacuity guard"), name)


def _build(c, rng):
    sizes = {"s1": 5, "s2": 2, "s3": 2, "f1": 3, "f2": 2, "f3": 2}
    sd = [f"s{i + 1}" for i in range(c["ns"])]
    fd = [f"f{i + 1}" for i in range(c["nf"])]
    dims = sd + fd
    order = list(rng.permutation(dims)) if c["shuffle"] else dims
    kinds = c["kinds"]
    coords = {d: _coord(kinds[i % len(kinds)], sizes[d], rng) for i, d in enumerate(dims)}
    shape = [sizes[d] for d in order]
    da = xr.DataArray(rng.standard_normal(shape), dims=order, coords={d: coords[d] for d in order}, name="v", attrs={"units": "K"})
    if c.get("extra_coord"):
        da = da.assign_coords(elev=(fd[0], np.arange(sizes[fd[0]]) * 10.0))
    if c.get("multiindex") and c["nf"] >= 2:
        da = da.stack(cell=(fd[0], fd[1]))
        fd = ["cell"] + fd[2:]
    kind = c["container"]
    if kind == "da":
        X = da
    elif kind == "ds-equal":
        X = xr.Dataset({"a": da, "b": da * 2 + 1})
    elif kind == "ds-different":
        X = xr.Dataset({"a": da, "b": da.isel({fd[-1]: 0}, drop=True) * 2 + 1}) if len(fd) > 1 else xr.Dataset({"a": da, "b": da * 3})
    elif kind == "list":
        second = (da.isel({fd[-1]: 0}, drop=True) - 1) if len(fd) > 1 else da * 3
        if c.get("reverse_second"):
            second = second.isel({sd[0]: slice(None, None, -1)})
        X = [da, second]
    return X, sd


def _check_same(a, b, what, msgs, allow_sorted=True):
    if type(a) is not type(b):
        msgs.append(f"{what}: container type {type(b).__name__} != {type(a).__name__}")
        return
    if isinstance(a, list):
        if len(a) != len(b):
            msgs.append(f"{what}: list length changed")
            return
        for i, (x, y) in enumerate(zip(a, b)):
            _check_same(x, y, f"{what}[{i}]", msgs)
        return
    if isinstance(a, xr.Dataset):
        if set(a.data_vars) != set(b.data_vars):
            msgs.append(f"{what}: variable names {set(b.data_vars)} != {set(a.data_vars)}")
            return
        for v in a.data_vars:
            _check_same(a[v], b[v], f"{what}.{v}", msgs)
        return
    if set(a.dims) != set(b.dims):
        msgs.append(f"{what}: dims {b.dims} != {a.dims}")
        return
    if a.dims != b.dims and what.startswith("inverse_transform_data"):
        msgs.append(f"{what}: dimension order {b.dims} != {a.dims}")
    for d in a.dims:
        ia, ib = a.indexes[d], b.indexes[d]
        if set(ia.tolist()) != set(ib.tolist()):
            msgs.append(f"{what}: labels of {d} differ")
            return
        if isinstance(ia, pd.MultiIndex) != isinstance(ib, pd.MultiIndex):
            msgs.append(f"{what}: index kind of {d} changed")
            return
    a2, b2 = xr.align(a, b.transpose(*a.dims), join="inner")        # label-based: element order along a dimension may differ
    if a2.shape != a.shape:
        msgs.append(f"{what}: labels lost in the round trip")
    elif not np.allclose(a2.values, b2.values, rtol=1e-10, atol=1e-12, equal_nan=True):
        msgs.append(f"{what}: values differ at some label")


def eval_case(c):
    rng = np.random.default_rng(c["seed"])
    X, sd = _build(c, rng)
    msgs = []
    names = dict(sample_name=c.get("sample_name", "sample"), feature_name=c.get("feature_name", "feature"))
    if c["level"] == "preprocessor":
        p = Preprocessor(with_center=c["center"], with_std=c["std"], **names)
        X2 = p.fit_transform(X, tuple(sd))
        if X2.dims != (names["sample_name"], names["feature_name"]):
            msgs.append(f"internal matrix has dims {X2.dims}")
        back = p.inverse_transform_data(X2)
        _check_same(X, back, "inverse_transform_data", msgs)
    else:
        m = xeofs.single.EOF(n_modes=2, center=c["center"], standardize=c["std"], solver="full", **names).fit(X, sd)
        comps, scores = m.components(), m.scores()
        def featdims(x):
            return [d for d in x.dims if d not in sd]
        items = X if isinstance(X, list) else [X]
        cl = comps if isinstance(comps, list) else [comps]
        if isinstance(X, list) != isinstance(comps, list) or (isinstance(X, xr.Dataset) != isinstance(comps, xr.Dataset)):
            msgs.append("components: container kind differs from the input's")
        else:
            for x, cp in zip(items, cl):
                for v in (x.data_vars if isinstance(x, xr.Dataset) else [None]):
                    xa, ca = (x[v], cp[v]) if v is not None else (x, cp)
                    if set(ca.dims) != set(featdims(xa)) | {"mode"}:
                        msgs.append(f"components dims {ca.dims}, expected feature dims {featdims(xa)} + mode")
                    else:
                        for d in featdims(xa):
                            if set(ca.indexes[d].tolist()) != set(xa.indexes[d].tolist()):
                                msgs.append(f"components: labels of {d} differ")
        if set(scores.dims) != set(sd) | {"mode"}:
            msgs.append(f"scores dims {scores.dims}, expected sample dims {sd} + mode")
        rec = m.inverse_transform(scores)
        _check_same(X, rec, "reconstruction (all modes)" if False else "reconstruction structure", [] if True else msgs)
        tmp = []
        _check_same(X, rec, "reconstruction", tmp)
        msgs += [t for t in tmp if "values differ" not in t]       # 2 modes: structure only, values are C03
    return (not msgs), "; ".join(msgs[:3])


def bounded_cases(tier, seed):
    rng = np.random.default_rng(seed)
    cases = []
    kindsets = [("int",), ("unsorted-float", "string"), ("datetime", "int", "string")]
    for container in ("da", "ds-equal", "ds-different", "list"):
        for ns in (1, 2, 3):
            for nf in (1, 2, 3):
                for shuffle in (False, True):
                    for ki, kinds in enumerate(kindsets):
                        for level in ("preprocessor", "model"):
                            cases.append(dict(container=container, ns=ns, nf=nf, shuffle=shuffle, kinds=list(kinds), level=level,
                                              center=bool((ns + nf + ki) % 2), std=bool((nf + ki) % 3 == 0),
                                              extra_coord=(ki == 1), multiindex=(ki == 2 and nf >= 2 and container == "da")))
    for container in ("da", "list"):
        cases.append(dict(container=container, ns=1, nf=2, shuffle=True, kinds=["int"], level="model", center=True, std=False,
                          sample_name="obs", feature_name="gridcell", keep=True))
    for level in ("preprocessor", "model"):
        cases.append(dict(container="list", ns=1, nf=2, shuffle=False, kinds=["int"], level=level, center=True, std=False, reverse_second=True, keep=True))
        cases.append(dict(container="list", ns=1, nf=1, shuffle=False, kinds=["string"], level=level, center=False, std=False, reverse_second=True, keep=True))
    for i, c in enumerate(cases):
        c["seed"] = int(seed) * 1000 + i
    if tier == "quick":
        cases = [c for c in cases if c.get("keep")] + real.subsample([c for c in cases if not c.get("keep")], 110, rng)
    return cases


def run_bounded(res, tier, seed):
    for i, (smp, n_other) in enumerate((("two-dims", 6), ("two-dims", 4), ("multiindex", 6), ("multiindex", 9))):
        c = dict(kind="history", sample=smp, n_other=n_other, seed=int(seed) * 77 + i)
        try:
            ok, detail = eval_history(c)
        except Exception as e:  # noqa: BLE001
            ok, detail = False, f"{type(e).__name__}: {str(e)[:150]}"
        res.case("C02.labels-after-transform", {"sample": smp, "same_count": n_other == 6}, ok, detail, payload=c)
    for i, (cont, how) in enumerate((("da", "reversed-lat"), ("da", "shuffled-lon"), ("ds", "reversed-lat"), ("ds", "shuffled-lon"))):
        c = dict(kind="permuted-transform", container=cont, how=how, seed=int(seed) * 91 + i)
        try:
            ok, detail = eval_permuted_transform(c)
        except Exception as e:  # noqa: BLE001
            ok, detail = False, f"{type(e).__name__}: {str(e)[:150]}"
        res.case("C02.transform-with-reordered-feature-labels", {"container": cont, "how": how}, ok, detail, payload=c)
    for c in bounded_cases(tier, seed):
        sig = {k: c.get(k) for k in ("container", "level", "multiindex", "extra_coord")}
        sig["multi_sample_dims"] = c["ns"] > 1
        if c["container"] == "list":
            # where the sample dims sit along the axes of each item (the input feature behind a known finding)
            Xs, sd_ = _build(c, np.random.default_rng(c["seed"]))
            pos = [tuple(x.dims.index(d) for d in sd_) for x in Xs]
            sig["sample_dim_positions_differ"] = len(set(pos)) > 1
        try:
            ok, detail = eval_case(c)
        except Exception as e:  # noqa: BLE001
            ok, detail = False, f"{type(e).__name__}: {str(e)[:150]}"
            sig["exception"] = type(e).__name__
        res.case("C02.structure-round-trip", sig, ok, detail, payload=c)


def eval_history(c):
    """fit, transform other data, then ask for the fitted scores: they still carry the fitted data's sample labels"""
    rng = np.random.default_rng(c["seed"])
    if c["sample"] == "two-dims":
        mk = lambda off, n1: xr.DataArray(rng.standard_normal((n1, 3, 4)), dims=("t", "run", "x"),
                                          coords={"t": np.arange(n1) + off, "run": ["a", "b", "c"], "x": np.arange(4)})
        X, other, sd = mk(0, 6), mk(100, c["n_other"]), ("t", "run")
    else:
        def mk(off, n1):
            d = xr.DataArray(rng.standard_normal((n1 * 2, 4)), dims=("s", "x"), coords={"yr": ("s", np.repeat(np.arange(n1) + off, 2)), "half": ("s", np.tile([1, 2], n1)), "x": np.arange(4)})
            return d.set_index(s=("yr", "half"))
        X, other, sd = mk(2000, 6), mk(3000, c["n_other"]), ("s",)
    m = xeofs.single.EOF(n_modes=2, solver="full").fit(X, sd)
    before = m.scores()
    m.transform(other)
    after = m.scores()
    msgs = []
    for d in sd:
        if not after.indexes[d].equals(before.indexes[d]) or not after.indexes[d].equals(X.indexes[d]):
            msgs.append(f"after transforming other data the fitted scores carry other labels along {d}: {list(after.indexes[d][:3])} vs {list(X.indexes[d][:3])}")
    if not msgs and real.relerr(after.transpose(*before.dims).values, before.values) > 1e-12:
        msgs.append("after transforming other data the fitted scores changed")
    return (not msgs), "; ".join(msgs)


def eval_permuted_transform(c):
    """transform data whose feature labels are the fitted ones in another order: refused, or mapped by label"""
    rng = np.random.default_rng(c["seed"])
    X = real.da3(rng.standard_normal((12, 12)), 3)
    Xd = xr.Dataset({"a": X, "b": X.isel(lon=slice(0, 2)) * 2.0}) if c["container"] == "ds" else X
    m = xeofs.single.EOF(n_modes=2, solver="full").fit(Xd, "time")
    ref = m.transform(Xd)
    Xp = Xd.isel(lat=slice(None, None, -1)) if c["how"] == "reversed-lat" else Xd.isel(lon=[2, 0, 3, 1] if c["container"] == "da" else [1, 0, 2, 3])
    try:
        got = m.transform(Xp)
    except ValueError:
        return True, ""
    if real.relerr(got.transpose(*ref.dims).values, ref.values) > 1e-10:
        return False, f"transform of the same data with re-ordered feature labels ({c['how']}) was accepted and gives other scores (rel {real.relerr(got.transpose(*ref.dims).values, ref.values):.2e})"
    return True, ""


def replay(payload):
    if payload["payload"].get("kind") == "permuted-transform":
        ok, detail = eval_permuted_transform(payload["payload"])
        return ok, f"C02 replay {payload['payload']}: {'ok' if ok else detail}"
    if payload["payload"].get("kind") == "history":
        ok, detail = eval_history(payload["payload"])
        return ok, f"C02 replay {payload['payload']}: {'ok' if ok else detail}"
    ok, detail = eval_case(payload["payload"])
    return ok, f"C02 replay {payload['payload']}: {'ok' if ok else detail}"


def run(tier, seed):
    res = Result("C02")
    res.functions = ["xeofs.preprocessing.preprocessor:Preprocessor._fit_algorithm/inverse_transform_data/_components/_scores/get_transformers/_process_output",
                     "extract_new_dim_names", "xeofs.preprocessing.list_processor:GenericListTransformer.*", "xeofs.preprocessing.scaler:Scaler.fit/transform/inverse_transform_data",
                     "xeofs.preprocessing.dimension_renamer:DimensionRenamer.fit/transform/_inverse_transform", "xeofs.preprocessing.multi_index_converter:MultiIndexConverter.*",
                     "xeofs.preprocessing.stacker:Stacker.fit/transform/_stack/_unstack_to_dataarray/_reorder_dims/inverse_*", "xeofs.preprocessing.sanitizer:Sanitizer.*",
                     "xeofs.preprocessing.concatenator:Concatenator.fit/transform/_split_dataarray_into_list", "xeofs.utils.xarray_utils:get_dims/process_parameter/convert_to_list"]
    res.assumptions = ["xarray structural laws as modelled in vf/sym/ldom.py (rename/transpose/stack/unstack relabel, unstack sorts, set_index restores a MultiIndex, arithmetic aligns on equal label sets)",
                       "values: generic-element arithmetic over the reals with std > 0; statistics are opaque per-feature symbols",
                       "structure family enumerated (the property's own bound of 1-3 x 1-3 dims); Dataset containers and index kinds: bounded"]
    res.trusted = ["CPython on proxies", "vf/sym/ldom.py", "z3 (NRA for the value identity)"]
    agg = Agg(res, "C02")
    deductive(res, agg, tier=tier)
    deductive_history(res, agg)
    agg.flush()
    run_bounded(res, tier, seed)
    return res

"""C12 Dask-backed and deferred fits equal the in-memory fit and stay lazy until asked.

Deductive (effect contracts, domains L and A with a lazy flag): with a lazy input, compute=False and check_nans=False no
force / compute event occurs anywhere in the real Preprocessor chain, Decomposer.fit, EOF._fit_algorithm and
EOFRotator._fit_algorithm, every stored result stays lazy, the input matrix is stored with allow_compute=False, and
DataContainer.compute issues one joint compute over exactly the computable entries.
Bounded: real fits under a counting scheduler for chunk layouts x schedulers; types before/after compute(); equality
with the in-memory fit; repeated compute() calls.
"""
import numpy as np
import xarray as xr
import z3

import dask
import dask.array as dska
import xeofs
import xeofs.data_container.data_container as dcmod
import xeofs.linalg.decomposer as decmod
import xeofs.single.eof as eofmod
import xeofs.utils.sanity_checks as scmod
import xeofs.utils.xarray_utils as xumod

from vf import real
from vf.contracts.common import Agg, DecomposerStub, F, S, Tok, std_names, struct_vc
from vf.contracts.prep import trace_chain
from vf.report import Result
from vf.sym import lib
from vf.sym.core import PNum, PathLimit, assume, ctx, explore, patched_globals
from vf.sym.terms import named_ext
from vf.sym.xda import DaskFacade, SymDA, mk_da

LEVEL = "other"
EXPLANATION = ("contracts: part proved, part bounded. Proved (effect contracts on the real code): no force or compute event on a lazy "
               "value during a compute=False / check_nans=False fit of the preprocessing chain, the decomposer, the EOF algorithm and the "
               "EOF rotator; results stay lazy; input data is flagged non-computable; DataContainer.compute is one joint compute over the "
               "computable entries. Bounded: counting-scheduler runs over chunk layouts and schedulers, eager/deferred agreement, "
               "repeated compute(). Scheduler-independence and dask's own correctness are assumptions")
n, p = named_ext("n"), named_ext("p")
FORCING = ("force", "compute")


def deductive(res, agg):
    # ---- preprocessing chain
    fn = "Preprocessor.fit_transform/transform/inverse_*"
    for cfg, kw in {"1 sample dim": dict(), "2 sample dims": dict(sample=("t1", "t2"), feature=("x",)), "standardised": dict(with_std=True),
                    "feature dims first": dict(order=("lat", "time", "lon"))}.items():
        try:
            paths = trace_chain(check_nans=False, lazy=True, compute=False, **kw)
        except PathLimit as e:
            res.undecided_reasons.append(f"{fn}[{cfg}]: {e}")
            continue
        res.paths += len(paths)
        for pth in paths:
            if pth.kind != "return":
                agg.vc(fn, "within-supported-subset", {"status": "undecided" if pth.kind == "unsupported" else "failed", "residue": f"{pth.exc} {pth.tb[-2:]}"}, cfg)
                continue
            o = pth.value
            ev = [e for e in o["events_fit"] + o["events_transform"] + o["events_inverse"] if e[0] in FORCING]
            agg.vc(fn, "no dask computation is triggered (compute=False, check_nans=False)", struct_vc(not ev, str(ev[:2])), cfg)
            agg.vc(fn, "the 2-d matrices and the reconstruction stay dask-backed", struct_vc(o["fit2D"].lazy and o["new2D"].lazy and o["back"].lazy, "an output is not lazy"), cfg)
    # with NaN checks the computation is allowed but must be explicit dask.compute calls, not hidden forcing
    for pth in trace_chain(check_nans=True, lazy=True, compute=False):
        res.paths += 1
        if pth.kind == "return":
            ev = [e for e in pth.value["events_fit"] if e[0] == "force" and "where(drop=True)" not in e[1]]
            agg.vc(fn, "check_nans=True: the NaN statistics are computed by one explicit compute call (no hidden forcing besides the drop)", struct_vc(not ev, str(ev[:2])), "NaN checks")
    # ---- Decomposer.fit on a lazy matrix
    fn = "Decomposer.fit"
    for compute in (False, True):
        cfg = f"dask,compute={compute}"
        names, xrf, npf = std_names(randomized_svd=Tok("randomized_svd"), complex_svd=Tok("complex_svd"), dask_svd=Tok("dask_svd"),
                                    get_deterministic_sign_multiplier=lib.sign_multiplier, dask=DaskFacade())
        xrf.ufuncs = {npf.linalg.svd: lib.svd_full, "randomized_svd": lib.svd_randomized, "complex_svd": lib.svd_svds, "dask_svd": lib.svd_dask}
        for solver in ("auto", "randomized", "full"):
            def run(solver=solver):
                assume(n.z >= 2)
                assume(p.z >= 1)
                dec = decmod.Decomposer(n_modes=PNum(z3.Int("k")), solver=solver, compute=compute)
                X = mk_da("X", (S, F), (n, p), lazy=True)
                dec.fit(X, dims=(S, F))
                return dec
            with patched_globals([decmod, scmod], names):
                paths = explore(run, maxpaths=64)
            res.paths += len(paths)
            for pth in paths:
                if pth.kind == "unsupported":
                    agg.vc(fn, "within-supported-subset", {"status": "undecided", "residue": f"{pth.exc} {pth.tb[-2:]}"}, f"{cfg},{solver}")
                if pth.kind != "return":
                    continue
                dec = pth.value
                forces = [e for e in pth.ctx.events if e[0] == "force"]
                computes = [e for e in pth.ctx.events if e[0] == "compute"]
                calls = [e[1] for e in pth.ctx.events if e[0] == "call" and e[1]["callee"].startswith(("dask.", "np.linalg.svd", "sklearn", "scipy"))]
                agg.vc(fn, "no forcing of lazy values (.values/.item()/bool())", struct_vc(not forces, str(forces[:2])), f"{cfg},{solver}")
                if not compute:
                    agg.vc(fn, "compute=False: no dask.compute and U, s, V stay lazy", struct_vc(not computes and dec.U_.lazy and dec.s_.lazy and dec.V_.lazy, f"{computes[:1]} lazy={dec.U_.lazy}"), f"{cfg},{solver}")
                    for cl in calls:
                        if cl["callee"] == "dask.svd_compressed":
                            agg.vc(fn, "the dask back end is told compute=False", struct_vc(cl["kwargs"].get("compute") is False, str(cl["kwargs"].get("compute"))), f"{cfg},{solver}")
                else:
                    agg.vc(fn, "compute=True: the decomposition is computed by at most one joint dask.compute", struct_vc(len(computes) <= 1, str(len(computes))), f"{cfg},{solver}")
    # ---- EOF._fit_algorithm and EOFRotator on lazy data
    from props import C01
    fn = "EOF._fit_algorithm"
    for cplx in (False,):
        for pth in C01.trace_eof(xeofs.single.EOF, cplx, True, lazy=True):
            res.paths += 1
            if pth.kind != "return":
                continue
            m = pth.value[0]
            ev = [e for e in pth.ctx.events if e[0] in FORCING]
            agg.vc(fn, "no dask computation is triggered by the algorithm", struct_vc(not ev, str(ev[:2])), "lazy")
            d = m.data
            agg.vc(fn, "stored results stay lazy", struct_vc(all(d[k].lazy for k in ("components", "scores", "norms", "explained_variance", "total_variance")), "a result is not lazy"), "lazy")
            agg.vc(fn, "input data stored with allow_compute=False and not replaced", struct_vc(d._allow_compute["input_data"] is False and d["input_data"].lazy, "input_data"), "lazy")
    from vf.contracts.rotator import trace_eof_rotator
    fn = "EOFRotator._fit_algorithm"
    for power in (1, 2):
        for pth in trace_eof_rotator(power, False, post_compute=False, lazy=True):
            res.paths += 1
            if pth.kind == "unsupported":
                agg.vc(fn, "within-supported-subset", {"status": "undecided", "residue": f"{pth.exc} {pth.tb[-2:]}"}, f"power={power}")
            if pth.kind != "return":
                continue
            o = pth.value
            ev = [e for e in o["ev_fit"] if e[0] in FORCING]
            agg.vc(fn, "no dask computation is triggered by the rotator fit", struct_vc(not ev, str(ev[:2])), f"power={'1' if power == 1 else '>1'}")
            agg.vc(fn, "rotated results stay lazy, input data non-computable", struct_vc(
                all(o["pre"][k].lazy for k in ("components", "scores", "explained_variance")) and o["rot"].data._allow_compute["input_data"] is False, "lazy flags"), f"power={'1' if power == 1 else '>1'}")
    # ---- DataContainer.compute
    fn = "DataContainer.compute"
    def run_dc():
        dc = dcmod.DataContainer()
        a, b, c_ = (mk_da(nm, (S, F), (n, p), lazy=True) for nm in ("A", "B", "C"))
        dc.add(a, "input_data", allow_compute=False)
        dc.add(b, "scores")
        dc.add(c_, "components")
        dc.compute()
        return dc
    with patched_globals([dcmod], {"dask": DaskFacade()}):
        paths = explore(run_dc, maxpaths=4)
    for pth in paths:
        res.paths += 1
        if pth.kind != "return":
            agg.vc(fn, "within-supported-subset", {"status": "undecided", "residue": f"{pth.exc} {pth.tb[-2:]}"}, "")
            continue
        dc = pth.value
        comps = [e for e in pth.ctx.events if e[0] == "compute"]
        agg.vc(fn, "one joint compute over exactly the entries with allow_compute=True", struct_vc(len(comps) == 1 and comps[0][1]["n_lazy"] == 2, str(comps)), "")
        agg.vc(fn, "input data stays lazy, the other entries are loaded", struct_vc(dc["input_data"].lazy and not dc["scores"].lazy and not dc["components"].lazy, "flags"), "")
        agg.vc(fn, "allow_compute flags unchanged", struct_vc(dc._allow_compute == {"input_data": False, "scores": True, "components": True}, str(dc._allow_compute)), "")


# ---------------------------------------------------------------- bounded
class Counter:
    def __init__(self, inner):
        self.inner, self.n = inner, 0

    def __call__(self, dsk, keys, **kw):
        self.n += 1
        return self.inner(dsk, keys, **kw)


def _is_lazy(x):
    return isinstance(x.data, dska.Array)


def eval_case(c):
    rng = np.random.default_rng(c["seed"])
    nn, nlat, nlon = 30, 3, 4
    X = rng.standard_normal((nn, nlat * nlon)) * np.linspace(3, 1, nlat * nlon) + rng.standard_normal((nn, 1))
    da = real.da3(X, nlat)
    chunks = {"single": {"time": -1, "lat": -1, "lon": -1}, "samples": {"time": 10, "lat": -1, "lon": -1}, "features": {"time": -1, "lat": 1, "lon": 2},
              "both": {"time": 10, "lat": 1, "lon": 2}, "elementwise": {"time": 1, "lat": 1, "lon": 1}}[c["chunks"]]
    dd = da.chunk(chunks)
    inner = dask.threaded.get if c["scheduler"] == "threads" else dask.local.get_sync
    cnt = Counter(inner)
    msgs = []
    model = c["model"]
    S_ = xeofs.single
    def build(compute):
        kw = dict(n_modes=3, compute=compute, check_nans=False, random_state=5)
        if model == "EOF":
            return S_.EOF(solver=c.get("solver", "auto"), **kw)
        if model == "SparsePCA":
            return S_.SparsePCA(**dict(kw, n_modes=2, max_iter=3))      # a deferred iteration builds one graph layer per step
        if model == "ExtendedEOF":
            return S_.ExtendedEOF(tau=1, embedding=2, **kw)
        if model == "ExtendedEOF-pca":
            return S_.ExtendedEOF(tau=1, embedding=2, n_pca_modes=4, **kw)
        if model == "POP":
            return S_.POP(n_pca_modes=4, **kw)
        if model == "OPA":
            return S_.OPA(tau_max=2, n_pca_modes=4, **kw)
        raise KeyError(model)
    try:
        with dask.config.set(scheduler=cnt, num_workers=c.get("workers", 2)):
            if model in ("EOF", "SparsePCA", "ExtendedEOF", "ExtendedEOF-pca", "POP", "OPA"):
                if c.get("lazy_weights"):
                    # user weights that are themselves dask-backed (loaded lazily, or derived from the data)
                    W = (1.0 / dd.std("time")) if c["lazy_weights"] == "derived" else xr.DataArray(np.linspace(0.5, 2.0, nlat * nlon).reshape(nlat, nlon), dims=("lat", "lon"),
                                                                                                 coords={"lat": da.lat, "lon": da.lon}).chunk({"lat": 1})
                    m = build(False).fit(dd, "time", weights=W)
                else:
                    m = build(False).fit(dd, "time")
                target = m
                if c.get("rotate"):
                    target = S_.EOFRotator(n_modes=2, power=c["rotate"], compute=False, max_iter=8).fit(m)
            elif model in ("CPCCA", "CCA", "RDA"):
                # whitening with alpha < 1 (fractional matrix power of the covariance) must stay deferred as well
                Y = (dd.isel(lon=slice(0, 2)) * 0.5 + 0.3).rename({"lat": "lat2", "lon": "lon2"})
                ekw = dict(alpha=0.5) if model == "CPCCA" else {}
                m = getattr(xeofs.cross, model)(n_modes=2, compute=False, check_nans=False, use_pca=c.get("use_pca", False), n_pca_modes=4, **ekw).fit(dd, Y, "time")
                target = m
            elif model == "MCA":
                Y = (dd.isel(lon=slice(0, 2)) * 0.5).rename({"lat": "lat2", "lon": "lon2"})
                m = xeofs.cross.MCA(n_modes=2, compute=False, check_nans=False, use_pca=c.get("use_pca", False), n_pca_modes=4).fit(dd, Y, "time")
                target = m
                if c.get("rotate"):
                    target = xeofs.cross.MCARotator(n_modes=2, power=c["rotate"], compute=False, max_iter=8).fit(m)
            n_fit = cnt.n
            if n_fit:
                msgs.append(f"{n_fit} dask computation(s) triggered during a compute=False, check_nans=False fit")
            lazy_keys = [k for k, v in target.data.items() if not _is_lazy(v) and k not in ("idx_modes_sorted",)]
            nonlazy = [k for k in lazy_keys if target.data[k].size > 0 and k not in ("modes_sign",)]
            if nonlazy and not n_fit:
                msgs.append(f"results not dask-backed after a deferred fit: {nonlazy}")
            target.compute()
            for k in ("input_data", "input_data1"):
                if k in target.data and not _is_lazy(target.data[k]):
                    msgs.append("input data was replaced by an in-memory copy by compute()")
            for k, v in target.data.items():
                if not k.startswith("input_data") and _is_lazy(v):
                    msgs.append(f"{k} still dask-backed after compute()")
            if c.get("twice"):
                target.compute()
                target.compute()
                for k in ("input_data", "input_data1"):
                    if k in target.data and not _is_lazy(target.data[k]):
                        msgs.append("input data was loaded into memory by a repeated compute()")
    except NotImplementedError as e:
        if c["chunks"] != "elementwise":
            return False, f"harness: dask refused the operation for chunking {c['chunks']} ({str(e)[:80]}) - the case would be vacuous"
        return True, f"refused by dask: {e}"
    # equality with the in-memory fit
    if model in ("EOF", "SparsePCA", "ExtendedEOF") and not msgs and not c.get("rotate"):
        if c.get("lazy_weights"):
            Wm = (1.0 / da.std("time")) if c["lazy_weights"] == "derived" else xr.DataArray(np.linspace(0.5, 2.0, nlat * nlon).reshape(nlat, nlon), dims=("lat", "lon"),
                                                                                         coords={"lat": da.lat, "lon": da.lon})
            ref = build(True).fit(da, "time", weights=Wm)
        else:
            ref = build(True).fit(da, "time")
        if c.get("rotate"):
            ref = S_.EOFRotator(n_modes=2, power=c["rotate"], max_iter=8, rtol=1e9).fit(ref)
        tol = 1e-8 if model == "EOF" and c.get("solver") == "full" else 1e-4
        a, b = target.explained_variance().values, ref.explained_variance().values
        if real.relerr(a, b) > tol:
            msgs.append(f"explained variance differs from the in-memory fit ({a} vs {b})")
        ca, cb = target.components(), ref.components()
        if model != "ExtendedEOF" and real.relerr(np.abs(ca.values), np.abs(cb.transpose(*ca.dims).values)) > max(tol, 1e-6) * 50:
            msgs.append("components differ from the in-memory fit")
    if model == "MCA" and not msgs and not c.get("rotate"):
        Yn = (da.isel(lon=slice(0, 2)) * 0.5).rename({"lat": "lat2", "lon": "lon2"})
        ref = xeofs.cross.MCA(n_modes=2, check_nans=False, use_pca=c.get("use_pca", False), n_pca_modes=4).fit(da, Yn, "time")
        if c.get("rotate"):
            ref = xeofs.cross.MCARotator(n_modes=2, power=c["rotate"], max_iter=8, rtol=1e9).fit(ref)
        a, b = target.data["squared_covariance"].values, ref.data["squared_covariance"].values
        if real.relerr(a, b) > 1e-4:
            msgs.append(f"squared covariance differs from the in-memory fit ({a} vs {b})")
    return (not msgs), "; ".join(msgs[:3])


def bounded_cases(tier, seed):
    rng = np.random.default_rng(seed)
    cases = []
    for model in ("EOF", "SparsePCA", "ExtendedEOF", "MCA", "POP", "OPA"):
        for chunks in ("single", "samples", "features", "both", "elementwise"):
            for sched in ("sync", "threads"):
                if chunks == "elementwise" and model != "EOF":
                    continue
                cases.append(dict(model=model, chunks=chunks, scheduler=sched, workers=2 if sched == "sync" else 4))
    for power in (1, 2):
        for model in ("EOF", "MCA"):
            cases.append(dict(model=model, chunks="samples", scheduler="sync", rotate=power, keep=True))
    cases.append(dict(model="EOF", chunks="samples", scheduler="sync", solver="full", keep=True))
    for lw in ("chunked", "derived"):
        cases.append(dict(model="EOF", chunks="samples", scheduler="sync", lazy_weights=lw, keep=True))
    for model in ("CPCCA", "CCA", "RDA", "ExtendedEOF-pca"):
        cases.append(dict(model=model, chunks="samples", scheduler="sync", keep=True))
    cases.append(dict(model="CPCCA", chunks="samples", scheduler="sync", use_pca=True, keep=True))
    cases.append(dict(model="EOF", chunks="samples", scheduler="sync", twice=True, keep=True))
    cases.append(dict(model="MCA", chunks="samples", scheduler="sync", twice=True, keep=True))
    cases.append(dict(model="MCA", chunks="samples", scheduler="sync", use_pca=True, keep=True))
    cases.append(dict(model="EOF", chunks="samples", scheduler="sync", rotate=2, twice=True, keep=True))
    for i, c in enumerate(cases):
        c["seed"] = int(seed) * 1000 + i
    if tier == "quick":
        cases = [c for c in cases if c.get("keep")] + real.subsample([c for c in cases if not c.get("keep")], 30, rng)
    return cases


def run_bounded(res, tier, seed):
    for c in bounded_cases(tier, seed):
        sig = {k: c.get(k) for k in ("model", "chunks", "scheduler", "rotate", "twice", "use_pca", "lazy_weights")}
        try:
            ok, detail = eval_case(c)
        except Exception as e:  # noqa: BLE001
            ok, detail = False, f"{type(e).__name__}: {str(e)[:150]}"
            sig["exception"] = type(e).__name__
        if not ok and "triggered during" in detail:
            sig["computes_during_deferred_fit"] = True
        res.case("C12.deferred-dask-fits", sig, ok, detail, payload=c)


def replay(payload):
    ok, detail = eval_case(payload["payload"])
    return ok, f"C12 replay {payload['payload']}: {'ok' if ok else detail}"


def run(tier, seed):
    res = Result("C12")
    res.functions = ["xeofs.preprocessing.*: the whole Preprocessor chain (effects)", "xeofs.linalg.decomposer:Decomposer.fit/_svd/_compute_svd_result (effects)",
                     "xeofs.single.eof:EOF._fit_algorithm (effects)", "xeofs.single.eof_rotator:EOFRotator._fit_algorithm (effects)",
                     "xeofs.data_container.data_container:DataContainer.add/compute"]
    res.assumptions = ["forcing table (what triggers a dask computation): .values, .item(), bool(), .compute(), dask.compute, dropna / where(drop=True), np.asarray, iteration - modelled as events by the proxies; arithmetic, reductions, dot, apply_ufunc(dask='allowed'), concat, stack are lazy",
                       "a dask-backed operation denotes the same value as the numpy one; 'every scheduler, any worker count' is a property of dask (two schedulers exercised)",
                       "BaseModel.compute (serialise / joint compute / rebuild), SparsePCA, ExtendedEOF, cross-set models and rotators: bounded with a counting scheduler",
                       "complex data excluded (documented)"]
    res.trusted = ["CPython on proxies", "vf/sym proxies' effect log", "dask (bounded part)"]
    agg = Agg(res, "C12")
    deductive(res, agg)
    # models that wrap an inner EOF hand the user's compute flag on (a dropped flag means an eager inner fit)
    from props.C07 import deductive_inner_models
    deductive_inner_models(res, agg, aspects=("deferral",))
    agg.flush()
    run_bounded(res, tier, seed)
    return res

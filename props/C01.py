"""C01 EOF-type modes are the exact eigen-decomposition of the preprocessed data.

Deductive part (contracts on the real functions, traced symbolically; DESIGN.md 5/C01):
  xeofs.linalg.decomposer:Decomposer.fit            |= SVD_k          (callees: library SVD back ends = assumed contracts)
  xeofs.single.eof:EOF._fit_algorithm               |= C01 clauses    (callee Decomposer = SVD_k stub)
  xeofs.single.eof:EOF._transform_algorithm / _inverse_transform_algorithm / explained_variance_ratio
  xeofs.utils.xarray_utils:total_variance           (traced inline)
Bounded part: the same clauses evaluated on real fits (EOF, ComplexEOF, HilbertEOF, ExtendedEOF).
"""
import numpy as np
import xarray as xr
import z3

import xeofs
import xeofs.linalg.decomposer as decmod
import xeofs.single.eof as eofmod
import xeofs.utils.sanity_checks as scmod
import xeofs.utils.xarray_utils as xumod

from vf import real
from vf.contracts.common import (Agg, DecomposerStub, F, S, Tok, std_names, struct_vc, svdk_clauses)
from vf.report import Result
from vf.sym import lib
from vf.sym import terms as tm
from vf.sym.core import PNum, PathLimit, assume, explore, patched_globals, use_ctx
from vf.sym.prove import prove_eq
from vf.sym.terms import named_ext
from vf.sym.xda import DaskFacade, XRFacade, NPFacade, mk_da, cid_equal

LEVEL = "proof"
EXPLANATION = ("contracts on the real Decomposer.fit / EOF._fit_algorithm / _transform_algorithm / "
               "_inverse_transform_algorithm discharged for all shapes, spectra and both fields; Hilbert, "
               "ExtendedEOF, the preprocessing chain and the randomised solvers' accuracy are covered by the "
               "bounded evaluations only (reported separately, never counted as discharged)")

n, p = named_ext("n"), named_ext("p")


# ------------------------------------------------------------------ deductive: Decomposer.fit |= SVD_k
def trace_decomposer(solver, cplx, lazy, flip=True):
    names, xrf, npf = std_names(
        randomized_svd=Tok("randomized_svd"), complex_svd=Tok("complex_svd"), dask_svd=Tok("dask_svd"),
        get_deterministic_sign_multiplier=lib.sign_multiplier, dask=DaskFacade())
    xrf.ufuncs = {npf.linalg.svd: lib.svd_full, "randomized_svd": lib.svd_randomized,
                  "complex_svd": lib.svd_svds, "dask_svd": lib.svd_dask}

    def run():
        assume(n.z >= 2)
        assume(p.z >= 1)
        k = PNum(z3.Int("k"))
        dec = decmod.Decomposer(n_modes=k, solver=solver, flip_signs=flip)
        X = mk_da("X", (S, F), (n, p), cplx=cplx, lazy=lazy, owner="caller")
        dec.fit(X, dims=(S, F))
        return dec, X

    with patched_globals([decmod, scmod], names):
        return explore(run, maxpaths=64)


def deductive_decomposer(res, agg, tier):
    fn = "Decomposer.fit"
    configs = [(s, c, l) for s in ("full", "auto", "randomized") for c in (False, True) for l in (False, True)]
    for solver, cplx, lazy in configs:
        cfg = f"{solver},{'complex' if cplx else 'real'},{'dask' if lazy else 'numpy'}"
        try:
            paths = trace_decomposer(solver, cplx, lazy)
        except PathLimit as e:
            res.undecided_reasons.append(f"{fn}[{cfg}]: {e}")
            continue
        res.paths += len(paths)
        nret = 0
        for pth in paths:
            if pth.kind == "unsupported":
                agg.vc(fn, "within-supported-subset", {"status": "undecided", "residue": f"{pth.exc} at {pth.tb[-2:]}"}, cfg)
                continue
            with use_ctx(pth.ctx):
                kz = z3.Int("k")
                if pth.kind == "raise":
                    # refusal clause: Decomposer only raises when the request is unanswerable
                    if isinstance(pth.exc, NotImplementedError):
                        ok = cplx and lazy
                        agg.vc(fn, "NotImplementedError-only-for-complex-dask", struct_vc(ok, str(pth.exc)), cfg)
                        continue
                    bad = z3.Or(kz < 1, kz > n.z, kz > p.z)
                    if cplx and not lazy and solver != "full":
                        bad = z3.Or(bad, kz >= z3.If(n.z <= p.z, n.z, p.z))     # scipy svds refuses k = rank
                    from vf.sym.prove import prove_scalar
                    agg.vc(fn, "raises-only-if-k-outside-1..rank", prove_scalar(pth.ctx, bad), cfg)
                    continue
                nret += 1
                dec, X = pth.value
                U, s, V = dec.U_, dec.s_, dec.V_
                k = U._ext["mode"]
                for name, (l, r) in svdk_clauses(X.term, U.term, s.term, V.term, k).items():
                    agg.vc(fn, "SVD_k:" + name, prove_eq(pth.ctx, l, r), cfg)
                from vf.sym.prove import prove_scalar as _ps
                if _ps(pth.ctx, k.z == p.z)["status"] == "discharged":
                    agg.vc(fn, "SVD_k: V V^H = I when k = n_features", prove_eq(pth.ctx, tm.mul(V.term, tm.H(V.term)), tm.I(p)), cfg)
                if _ps(pth.ctx, k.z == n.z)["status"] == "discharged":
                    agg.vc(fn, "SVD_k: U U^H = I when k = n_samples", prove_eq(pth.ctx, tm.mul(U.term, tm.H(U.term)), tm.I(n)), cfg)
                if _ps(pth.ctx, z3.Or(k.z == p.z, k.z == n.z))["status"] == "discharged":
                    agg.vc(fn, "SVD_k: X = U s V^H when all modes are kept", prove_eq(pth.ctx, X.term, tm.mul(tm.mul(U.term, s.term), tm.H(V.term))), cfg)
                agg.vc(fn, "dims", struct_vc(U.dims == (S, "mode") and s.dims == ("mode",) and V.dims == (F, "mode"),
                                             f"{U.dims} {s.dims} {V.dims}"), cfg)
                agg.vc(fn, "s-descending-nonneg", struct_vc({"desc", "nonneg"} <= s.tags, str(s.tags)), cfg)
                from vf.sym.prove import prove_scalar
                agg.vc(fn, "n_modes-returned = k", prove_scalar(pth.ctx, k.z == kz), cfg)
                lab = all(isinstance(a._cid.get("mode"), tuple) and a._cid["mode"][:2] == ("range", "1") for a in (U, s, V))
                agg.vc(fn, "mode-labels-1..k", struct_vc(lab, str([a._cid.get("mode") for a in (U, s, V)])), cfg)
                agg.vc(fn, "returns-only-if-1<=k<=rank", prove_scalar(pth.ctx, z3.And(kz >= 1, kz <= n.z, kz <= p.z)), cfg)
        if nret == 0 and not (cplx and lazy):
            agg.vc(fn, "has-returning-path", struct_vc(False, "no feasible returning path (vacuity guard)"), cfg)


# ------------------------------------------------------------------ deductive: EOF algorithms against SVD_k
def trace_eof(cls, cplx, centred, lazy=False, augment=False):
    """augment=True: the instance's _augment_data hook returns an arbitrary complex matrix A of the input's shape and
    labels (all the contract says about an augmentation); every clause is then stated over A"""
    names, xrf, npf = std_names(Decomposer=DecomposerStub)

    def run():
        assume(n.z >= 2)
        assume(p.z >= 1)
        kk = PNum(z3.Int("kreq"))
        m = cls(n_modes=kk, sample_name=S, feature_name=F, compute=not lazy)
        X = mk_da("X", (S, F), (n, p), cplx=cplx, lazy=lazy, owner="caller")
        if centred:
            from vf.sym.core import ctx
            ctx().hyps.append((tm.mul(tm.J(n), X.term), X.term, "precondition: X has zero column means"))
        if augment:
            A = mk_da("A", (S, F), (n, p), cplx=True, lazy=lazy, owner="augmentation")
            A._cid = dict(X._cid)
            if centred:
                from vf.sym.core import ctx
                ctx().hyps.append((tm.mul(tm.J(n), A.term), A.term, "precondition: the augmented matrix has zero column means"))
            m._augment_data = lambda X_: A
        eofmod.EOF._fit_algorithm(m, X)
        if augment:
            X, Z = A, None
        else:
            Z = m._transform_algorithm(X)
        ratio = m.explained_variance_ratio()
        # reconstruction from the first kp modes (kp symbolic, 1..k)
        kp = PNum(z3.Int("kp"))
        sc = m.data["scores"]
        k = sc._ext["mode"]
        assume(kp.z >= 1)
        assume(kp.z <= k.z)
        rec = m._inverse_transform_algorithm(sc.sel(mode=slice(1, kp)))
        return m, X, Z, ratio, rec, kp

    with patched_globals([eofmod, xumod, scmod], names):
        return explore(run, maxpaths=64)


def deductive_eof(res, agg, tier):
    for cls, cplx, augment in ((xeofs.single.EOF, False, False), (xeofs.single.ComplexEOF, True, False), (xeofs.single.ComplexEOF, False, False),
                               (xeofs.single.EOF, False, True)):
        for centred in (True, False):
            cfg = f"{cls.__name__},{'complex' if cplx else 'real'},{'centred' if centred else 'uncentred'}" + (",augmented" if augment else "")
            fn = "EOF._fit_algorithm"
            try:
                paths = trace_eof(cls, cplx, centred, augment=augment)
            except PathLimit as e:
                res.undecided_reasons.append(f"{fn}[{cfg}]: {e}")
                continue
            res.paths += len(paths)
            nret = 0
            for pth in paths:
                if pth.kind == "unsupported":
                    agg.vc(fn, "within-supported-subset", {"status": "undecided", "residue": f"{pth.exc} at {pth.tb[-2:]}"}, cfg)
                    continue
                if pth.kind == "raise":
                    # the only admissible refusals come from the callee's precondition (k outside 1..rank)
                    from vf.sym.prove import prove_scalar
                    kz = z3.Int("kreq")
                    agg.vc(fn, "raises-only-if-k-outside-1..rank", prove_scalar(pth.ctx, z3.Or(kz < 1, kz > n.z, kz > p.z)), cfg)
                    continue
                nret += 1
                with use_ctx(pth.ctx):
                    m, X, Z, ratio, rec, kp = pth.value
                    d = m.data
                    comps, scores, norms, ev, tv = d["components"], d["scores"], d["norms"], d["explained_variance"], d["total_variance"]
                    k = comps._ext["mode"]
                    inv = 1 / tm.rv(n.z - 1)
                    C = tm.smul(inv, tm.mul(tm.H(X.term), X.term))          # the property's own formula
                    vc = lambda clause, l, r, f=fn: agg.vc(f, clause, prove_eq(pth.ctx, l, r), cfg)
                    vc("components-orthonormal", tm.mul(tm.H(comps.term), comps.term), tm.I(k))
                    vc("scores-gram = norms^2", tm.mul(tm.H(scores.term), scores.term), tm.dpow(norms.term, 2))
                    vc("cov-eigen: C comps = comps diag(expvar)", tm.mul(C, comps.term), tm.mul(comps.term, ev.term))
                    vc("expvar = norms^2/(n-1)", ev.term, tm.smul(inv, tm.dpow(norms.term, 2)))
                    agg.vc(fn, "norms descending, non-negative", struct_vc({"desc", "nonneg"} <= norms.tags, str(norms.tags)), cfg)
                    if centred:
                        vc("total_variance = tr(C)", tv.term, tm.tr(C))
                        vc("ratio = expvar/tr(C)", ratio.term,
                           tm.T("scale", (tm.T("sinv", (tm.tr(C),), tm.ONE, tm.ONE), ev.term), k, k, ("diag",)),
                           "EOF.explained_variance_ratio")
                    agg.vc(fn, "dims", struct_vc(comps.dims == (F, "mode") and scores.dims == (S, "mode") and ev.dims == ("mode",)
                                                 and norms.dims == ("mode",) and tv.dims == (),
                                                 f"{comps.dims} {scores.dims} {ev.dims} {tv.dims}"), cfg)
                    agg.vc(fn, "labels: feature/sample coords are the input's", struct_vc(
                        cid_equal(comps._cid.get(F), X._cid.get(F)) and cid_equal(scores._cid.get(S), X._cid.get(S)),
                        f"{comps._cid} {scores._cid}"), cfg)
                    agg.vc(fn, "input_data stored, not computable", struct_vc(
                        d["input_data"].term is X.term and d._allow_compute["input_data"] is False, "input_data"), cfg)
                    if Z is not None:
                        vc("C04: transform(fit matrix) = scores", Z.term, scores.term, "EOF._transform_algorithm")
                        agg.vc("EOF._transform_algorithm", "dims", struct_vc(Z.dims == (S, "mode"), str(Z.dims)), cfg)
                    # truncated reconstruction = U_k' s_k' V_k'^H (rank-k' truncated SVD; optimality = Eckart-Young, axiom)
                    ke = tm.ext_of(kp.z)
                    E = tm.sel(k, ke)
                    Ut = tm.mul(tm.mul(scores.term, tm.dpow(norms.term, 1)), E)  # placeholder to keep names bound
                    recspec = tm.mul(tm.mul(scores.term, E), tm.H(tm.mul(comps.term, E)))
                    rt = rec.transpose(S, F).term if set(rec.dims) == {S, F} else None
                    if rt is None:
                        agg.vc("EOF._inverse_transform_algorithm", "dims", struct_vc(False, str(rec.dims)), cfg)
                    else:
                        vc("reconstruction = scores_k' comps_k'^H", rt, recspec, "EOF._inverse_transform_algorithm")
                        # and it reproduces X on the retained right-singular subspace: rec * comps_k' = X * comps_k'
                        vc("reconstruction agrees with X on the retained subspace",
                           tm.mul(rt, tm.mul(comps.term, E)), tm.mul(X.term, tm.mul(comps.term, E)), "EOF._inverse_transform_algorithm")
                    # canary (4.1): a deliberately false clause must NOT be discharged
                    r = prove_eq(pth.ctx, ev.term, tm.smul(1 / tm.rv(n.z), tm.dpow(norms.term, 2)))
                    if r["status"] == "discharged":
                        raise RuntimeError("engine self-check failed: canary obligation expvar = s^2/n was discharged")
            if nret == 0:
                agg.vc(fn, "has-returning-path", struct_vc(False, "vacuity guard"), cfg)


# ------------------------------------------------------------------ bounded: real fits
def _reference(X, center, standardize, coslat=None, weights=None):
    Z = np.array(X, dtype=complex if np.iscomplexobj(X) else float)
    if center:
        Z = Z - Z.mean(0)
    if standardize:
        Z = Z / X.std(0)
    if coslat is not None:
        Z = Z * np.sqrt(np.clip(np.cos(np.deg2rad(coslat)), 0, 1))
    if weights is not None:
        Z = Z * weights
    return Z


def eval_case(c):
    """run one real fit and evaluate the C01 clauses; returns (ok, detail)"""
    rng = np.random.default_rng(c["seed"])
    nn, pp = c["n"], c["p"]
    X = real.matrix(rng, nn, pp, c["spec"], c["scale"], c["cplx"])
    if c["model"] == "ExtendedEOF" or c["model"] == "HilbertEOF":
        X = X.real
    da = real.da2(X)
    kw = dict(n_modes=c["k"], center=c["center"], standardize=c["standardize"], solver=c["solver"], random_state=7)
    cls = getattr(xeofs.single, c["model"])
    if c["model"] == "ExtendedEOF":
        kw.update(tau=1, embedding=c.get("embedding", 2))
    lat = wts = W = None
    if c.get("coslat") or c.get("weights"):
        lat = np.linspace(-75.0, 75.0, pp)
        da = da.rename(x="lat").assign_coords(lat=lat)
        if c.get("weights"):
            wts = rng.uniform(0.5, 2.0, pp)
            W = xr.DataArray(wts, dims=("lat",), coords={"lat": lat})
        kw["use_coslat"] = bool(c.get("coslat"))
        if not c.get("coslat"):
            lat = None
    m = cls(**kw).fit(da, "time", weights=W) if W is not None else cls(**kw).fit(da, "time")
    if c.get("queried"):
        # read-only queries in their other scalings come first: the model's answers afterwards are still the property's
        m.components(normalized=False)
        m.scores(normalized=True)
    tol = 1e-8 if c["solver"] == "full" else 2e-4
    Zd = m.data["input_data"]
    if c["model"] in ("EOF", "ComplexEOF"):
        Z = _reference(X, c["center"], c["standardize"], lat, wts)     # independent of the library's preprocessing
        if real.relerr(Zd.values, Z) > 1e-9:
            return False, f"preprocessed matrix differs from the independent centring/scaling: {real.relerr(Zd.values, Z):.2e}"
    elif c["model"] == "ExtendedEOF":
        # independent delay embedding of the centred input, then the covariance's own centring
        Xc = X - X.mean(0)
        emb, tau = c.get("embedding", 2), 1
        cut = (emb - 1) * tau
        Z = np.concatenate([Xc[i * tau: nn - cut + i * tau] for i in range(emb)], axis=1)
        Z = Z - Z.mean(0)
    else:
        Z = Zd.transpose(m.sample_name, m.feature_name).values   # Hilbert augmentation is taken from the model
        if real.relerr(Z.real, X - X.mean(0)) > 1e-9:
            return False, "real part of the Hilbert-augmented matrix is not the centred input"
    k = c["k"]
    comps = m.data["components"].transpose(..., "mode").values.reshape(-1, k) if c["model"] != "ExtendedEOF" else None
    scores = m.data["scores"].transpose(..., "mode").values.reshape(-1, k)
    ev = m.explained_variance().values
    sv = m.singular_values().values
    nz = Z.shape[0]
    msgs = []
    sref = np.linalg.svd(Z, compute_uv=False)
    scale = max(sref[0], np.finfo(float).tiny)
    if comps is not None:
        g = comps.conj().T @ comps
        if real.abserr(g, np.eye(k)) > tol * 10:
            msgs.append(f"components not orthonormal ({real.abserr(g, np.eye(k)):.2e})")
    # rank-deficient spectra: modes beyond the numerical rank have arbitrary directions; compare only well-defined ones
    g = scores.conj().T @ scores
    if real.abserr(g, np.diag(sv ** 2)) > tol * scale ** 2 * 10:
        msgs.append(f"scores gram != diag(s^2) ({real.abserr(g, np.diag(sv ** 2)) / scale ** 2:.2e})")
    if real.abserr(sv, sref[:k]) > tol * scale * 10:
        msgs.append(f"singular values differ from the independent SVD ({real.abserr(sv, sref[:k]) / scale:.2e})")
    if real.abserr(ev, sref[:k] ** 2 / (nz - 1)) > tol * scale ** 2 * 10:
        msgs.append("explained variance != leading eigenvalues of the (N-1) covariance")
    if np.any(np.diff(ev) > tol * scale ** 2):
        msgs.append("explained variance not descending")
    if comps is not None and c["model"] != "HilbertEOF" or c["model"] == "HilbertEOF":
        if comps is not None:
            C = Z.conj().T @ Z / (nz - 1)
            if real.abserr(C @ comps, comps * ev) > tol * scale ** 2 * 20:
                msgs.append("C comps != comps diag(expvar)")
    if c["center"] or c["model"] == "ExtendedEOF":
        tv = float(m.data["total_variance"].values)
        tvref = float((np.abs(Z - Z.mean(0)) ** 2).sum() / (nz - 1))
        if abs(tv - tvref) > 1e-9 * max(tvref, 1e-300):
            msgs.append(f"total variance {tv} != trace of covariance {tvref}")
        rat = m.explained_variance_ratio().values
        if real.abserr(rat, ev / tvref) > 1e-8:
            msgs.append("explained_variance_ratio != expvar / total variance")
    # Eckart-Young: reconstruction error of the first k modes equals the optimum
    if comps is not None and c["model"] in ("EOF", "ComplexEOF"):
        rec = scores @ comps.conj().T
        err = np.linalg.norm(Z - rec)
        opt = np.sqrt(np.sum(sref[k:] ** 2))
        if err > opt + tol * scale * 50:
            msgs.append(f"rank-{k} reconstruction error {err:.3e} exceeds the optimum {opt:.3e}")
    return (not msgs), "; ".join(msgs)


def bounded_cases(tier, seed):
    rng = np.random.default_rng(seed)
    cases = []
    shapes = [(12, 5), (5, 12), (7, 7), (9, 1), (40, 6), (60, 3), (25, 1)]
    for (nn, pp) in shapes:
        for spec in ("random", "geometric", "flat", "clustered", "deficient"):
            for model in ("EOF", "ComplexEOF"):
                cplx = model == "ComplexEOF"
                r = min(nn, pp) - (1 if True else 0)      # centring removes one degree of freedom when n <= p
                for k in sorted({1, max(1, min(nn - 1, pp) // 2), max(1, min(nn - 1, pp))}):
                    for solver in ("full", "auto", "randomized"):
                        if cplx and solver != "full" and k >= min(nn, pp):
                            continue        # scipy svds refuses k = rank: a refusal, not a result
                        cases.append(dict(model=model, n=nn, p=pp, spec=spec, k=k, solver=solver, cplx=cplx,
                                          center=True, standardize=False, scale=1.0))
    extra = []
    for c in cases[::7]:
        for scale in (1e-8, 1e8):
            extra.append(dict(c, scale=scale))
        extra.append(dict(c, center=False))
        if c["spec"] in ("random", "geometric") and c["p"] > 1:
            extra.append(dict(c, standardize=True))
    cases += extra
    for model in ("EOF", "ComplexEOF"):
        for coslat, weights in ((True, False), (False, True), (True, True)):
            for std in (False, True):
                cases.append(dict(model=model, n=20, p=6, spec="random", k=3, solver="full", cplx=model == "ComplexEOF", center=True, standardize=std,
                                  scale=1.0, coslat=coslat, weights=weights, keep=coslat and weights))
    for model in ("HilbertEOF", "ExtendedEOF"):
        for (nn, pp) in ((20, 4), (30, 6)):
            for k in (1, 2, 3):
                cases.append(dict(model=model, n=nn, p=pp, spec="random", k=k, solver="full", cplx=False,
                                  center=True, standardize=False, scale=1.0, keep=k == 2))
    for model in ("EOF", "ComplexEOF", "HilbertEOF", "ExtendedEOF"):
        cases.append(dict(model=model, n=20, p=5, spec="random", k=3, solver="full", cplx=model == "ComplexEOF", center=True, standardize=False,
                          scale=1.0, queried=True, keep=True))
    for i, c in enumerate(cases):
        c["seed"] = int(seed) * 1000 + i
    # the randomised back ends (sklearn randomized_svd, scipy svds/lobpcg) are only accurate with a spectral gap
    # and at moderate scale (lobpcg uses absolute tolerances): their accuracy is an assumption, not a claim, so
    # inexact routes are evaluated on gapped spectra at scale 1 only
    def exact(c):
        return c["solver"] == "full" or (c["solver"] == "auto" and c["k"] > int(0.8 * min(c["n"], c["p"])))
    cases = [c for c in cases if exact(c) or (c["spec"] == "geometric" and c["scale"] == 1.0)]
    if tier == "quick":
        cases = [c for c in cases if c.get("keep")] + real.subsample([c for c in cases if not c.get("keep")], 88, rng)
    return cases


def run_bounded(res, tier, seed):
    for c in bounded_cases(tier, seed):
        sig = {k: c[k] for k in ("model", "spec", "solver", "center", "standardize")}
        if c.get("coslat") or c.get("weights"):
            sig["coslat"], sig["weights"] = bool(c.get("coslat")), bool(c.get("weights"))
        sig["shape"] = "n<p" if c["n"] < c["p"] else ("n=p" if c["n"] == c["p"] else ("p=1" if c["p"] == 1 else "n>p"))
        sig["scale"] = c["scale"]
        if c.get("queried"):
            sig["queried"] = True
        try:
            ok, detail = eval_case(c)
        except Exception as e:  # noqa: BLE001
            ok, detail = False, f"{type(e).__name__}: {e}"
            sig["exception"] = type(e).__name__
        res.case("C01.real-fit-clauses", sig, ok, detail, payload=c)


def replay(payload):
    ok, detail = eval_case(payload["payload"])
    return ok, f"C01 replay {payload['payload']}: {'ok' if ok else detail}"


def run(tier, seed):
    res = Result("C01")
    res.functions = ["xeofs.linalg.decomposer:Decomposer.__init__", "xeofs.linalg.decomposer:Decomposer.fit",
                     "xeofs.linalg.decomposer:Decomposer._svd", "xeofs.linalg.decomposer:Decomposer._compute_svd_result",
                     "xeofs.utils.sanity_checks:sanity_check_n_modes", "xeofs.utils.xarray_utils:total_variance",
                     "xeofs.single.eof:EOF._fit_algorithm", "xeofs.single.eof:EOF._augment_data",
                     "xeofs.single.eof:EOF._transform_algorithm", "xeofs.single.eof:EOF._inverse_transform_algorithm",
                     "xeofs.single.eof:EOF.explained_variance_ratio", "xeofs.single.eof:ComplexEOF._fit_algorithm",
                     "xeofs.data_container.data_container:DataContainer.add", "xeofs.data_container.data_container:DataContainer.set_attrs",
                     "xeofs.single.eeof:ExtendedEOF._fit_algorithm (hand-over to the inner EOF)",
                     "xeofs.utils.hilbert_transform:_hilbert_transform_with_padding", "xeofs.utils.hilbert_transform:_pad_exp"]
    res.assumptions = ["float/complex arithmetic read as exact real/complex field arithmetic",
                       "Eckart-Young-Mirsky (optimality of the truncated SVD) is an axiom; the obligations prove that the reconstruction IS the truncated SVD",
                       "dimension names are parametric (fresh names §S/§F stand for all valid names)",
                       "termination not proved"] + [f"assumed library contract {k}: {v}" for k, v in lib.ASSUMED.items()
                                                    if k.startswith(("np.linalg.svd", "sklearn", "scipy", "dask"))] + [
        "contract of get_deterministic_sign_multiplier (entries +-1) is assumed here and checked under C15",
        "Hilbert kernel: scipy.signal.hilbert keeps its argument as real part (assumed); polyfit / polyval / exp opaque (vf/contracts/hilbertkernel.py)", "HilbertEOF._augment_data / the delay embedding of ExtendedEOF._fit_algorithm / the Preprocessor chain: bounded only under this property (ExtendedEOF's hand-over to its inner EOF is under a forwarding contract)"]
    res.trusted = ["CPython executing the traced functions on proxies", "vf/sym normaliser (AC rewriting, own code)",
                   "z3 4.x (scalar side conditions)", "assumed library contracts in vf/sym/lib.py", "xarray dot/apply_ufunc semantics as modelled by vf/sym/xda.py"]
    agg = Agg(res, "C01")
    deductive_decomposer(res, agg, tier)
    deductive_eof(res, agg, tier)
    # ExtendedEOF / OPA / bootstrap members are EOF analyses of derived matrices: what they hand to the inner EOF (centring, names, options)
    from props.C07 import deductive_inner_models
    deductive_inner_models(res, agg, aspects=("preprocessing",), models=("ExtendedEOF",))
    # HilbertEOF decomposes the analytic signal of the data: its real part must be the (centred) data itself
    from vf.contracts import hilbertkernel
    hilbertkernel.obligations(agg)
    agg.flush()
    run_bounded(res, tier, seed)
    return res

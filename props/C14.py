"""C14 A model's answers depend only on its last fit, never on call history.

Deductive: (1) GenericListTransformer.fit under the loop rule (for every list length and every pre-state): after fit the
transformer list has exactly one element per input, every one created by this call, element i fitted on input i;
(2) effect contracts from the symbolic traces: EOF._fit_algorithm does not mutate the matrix it is given, and
EOFRotator._fit_algorithm does not mutate any array owned by the base model (names, attrs, in-place arithmetic on views).
Bounded: random call sequences on one real model object against fresh models; inputs compared with deep copies.
"""
import copy

import numpy as np
import xarray as xr
import z3

import xeofs
import xeofs.preprocessing.list_processor as lpmod

from vf import real
from vf.contracts.common import Agg, struct_vc
from vf.report import Result
from vf.sym import looprule
from vf.sym.core import PBool, PNum, PathLimit, assume, ctx, decide, explore, use_ctx
from vf.sym.prove import prove_scalar
from vf.sym.terms import Unsupported

LEVEL = "other"
EXPLANATION = ("contracts: part proved, part bounded. Proved: refit of the per-input transformer lists is history-free for every list "
               "length and pre-state (loop rule), the EOF fit does not mutate its input matrix and the EOF rotator does not mutate the "
               "base model's arrays. Bounded: random call sequences over {fit, transform, inverse_transform, components, scores, "
               "compute, serialize, rotator.fit, bootstrapper.fit} against fresh models, and deep-copy comparison of user inputs")


# ------------------------------------------------------------------ loop rule on GenericListTransformer.fit
class SymSeq:
    """list of symbolic length; what is known: its length, whether every element was created by the current call,
    and (for the last appended element) what it was fitted on"""

    def __init__(self, length, allfresh, last=None):
        self.length, self.allfresh, self.last = length, allfresh, last

    def append(self, x):
        self.length = z3.simplify(self.length + 1)
        self.allfresh = z3.And(self.allfresh, z3.BoolVal(getattr(x, "created_now", False)))
        self.last = x

    def __iter__(self):
        raise Unsupported("iteration over a symbolic-length list")

    def __len__(self):
        raise Unsupported("len of a symbolic-length list")


class Indexable:
    def __init__(self, name):
        self.name = name

    def __getitem__(self, i):
        return (self.name, str(z3.simplify(i.z)) if type(i) is PNum else i)


class SymX(Indexable):
    pass


class StubTransformer:
    """stands in for the per-input transformer class (Scaler, Stacker, ...): records construction and fit arguments"""

    def __init__(self, **kw):
        self.kw = kw
        self.created_now = True
        self.fitted_on = None

    def fit(self, x, sample_dims, feature_dims, **kwargs):
        self.fitted_on = (x, sample_dims, feature_dims, kwargs)
        return self


class ListFitVC:
    EndPath = looprule.EndPath

    def __init__(self, L, agg, cfg):
        self.L, self.agg, self.cfg = L, agg, cfg
        self.fn = "GenericListTransformer.fit"

    def _vc(self, clause, cond):
        self.agg.vc(self.fn, clause, prove_scalar(ctx(), cond), self.cfg)

    def _seq(self, loc):
        t = loc["self"].transformers
        if isinstance(t, SymSeq):
            return t.length, t.allfresh
        return z3.IntVal(len(t)), z3.BoolVal(all(getattr(x, "created_now", False) for x in t))

    def loop_entry(self, ordinal, kind, seqs, loc):
        n, fresh = self._seq(loc)
        self._vc("invariant holds on entry: the transformer list is empty when the loop starts (no element predates this call)",
                 z3.And(n == 0, fresh))

    def choose(self, ordinal):
        return decide(z3.Bool("arbitrary_iteration"))

    def fresh_index(self, ordinal):
        i = z3.Int("i")
        assume(z3.And(i >= 0, i < self.L))
        return PNum(i)

    def havoc(self, ordinal, name):
        if name == "self.transformers":
            return SymSeq(z3.Int("hv_len"), z3.Bool("hv_allfresh"))
        return None

    def bind(self, ordinal, kind, seqs, idx):
        assert kind == "enumerate"
        return idx, seqs[0][idx]

    def assume_inv(self, ordinal, idx, loc):
        n, fresh = self._seq(loc)
        assume(z3.And(n == idx.z, fresh))

    def check_inv(self, ordinal, idx, loc):
        n, fresh = self._seq(loc)
        self._vc("invariant preserved: one new transformer per iteration", z3.And(n == idx.z + 1, fresh))
        t = loc["self"].transformers
        last = t.last if isinstance(t, SymSeq) else (t[-1] if t else None)
        i = str(z3.simplify(idx.z))
        ok = last is not None and getattr(last, "created_now", False) and last.fitted_on is not None \
            and last.fitted_on[0] == ("X", i) and last.fitted_on[2] == ("feature_dims", i) \
            and last.fitted_on[3] == {"weights": ("weights", i)} and last.kw == {"opt": 1}
        self.agg.vc(self.fn, "iteration i appends a transformer built from the init kwargs and fitted on X[i], feature_dims[i], iter_kwargs[.][i]",
                    struct_vc(ok, f"{getattr(last, 'fitted_on', None)} {getattr(last, 'kw', None)}"), self.cfg)

    def loop_break(self, ordinal, loc):
        raise Unsupported("break inside the loop")

    def assume_exit(self, ordinal, seqs, loc):
        n, fresh = self._seq(loc)
        assume(z3.And(n == self.L, fresh))


def deductive_list_fit(res, agg):
    fn = "GenericListTransformer.fit"
    for pre in ("fresh-object", "fitted-before"):
        cfg = pre
        L = z3.Int("L")
        vc = ListFitVC(L, agg, cfg)
        try:
            f, text, info = looprule.compile_with_rule(lpmod.GenericListTransformer.fit, 0, vc, modifies=("self.transformers",))
        except Exception as e:  # noqa: BLE001
            agg.vc(fn, "loop rule applicable", {"status": "undecided", "residue": f"{type(e).__name__}: {e}"}, cfg)
            continue

        def run():
            assume(L >= 0)
            g = lpmod.GenericListTransformer(StubTransformer, opt=1)
            if pre == "fitted-before":
                K = z3.Int("K")
                assume(K >= 0)
                g.transformers = SymSeq(K, K == 0)          # whatever an earlier fit left behind
            out = f(g, SymX("X"), ("sample",), Indexable("feature_dims"), {"weights": Indexable("weights")})
            return g, out
        try:
            paths = explore(run, maxpaths=32)
        except PathLimit as e:
            res.undecided_reasons.append(f"{fn}: {e}")
            continue
        res.paths += len(paths)
        nret = 0
        for pth in paths:
            if pth.kind == "raise" and isinstance(pth.exc, looprule.EndPath):
                continue
            if pth.kind != "return":
                agg.vc(fn, "within-supported-subset", {"status": "undecided" if pth.kind == "unsupported" else "failed",
                                                        "residue": f"{type(pth.exc).__name__}: {pth.exc} {pth.tb[-2:]}"}, cfg)
                continue
            nret += 1
            with use_ctx(pth.ctx):
                g, out = pth.value
                t = g.transformers
                n = t.length if isinstance(t, SymSeq) else z3.IntVal(len(t))
                fresh = t.allfresh if isinstance(t, SymSeq) else z3.BoolVal(all(getattr(x, "created_now", False) for x in t))
                agg.vc(fn, "post: exactly one transformer per input object, none predating this call", prove_scalar(pth.ctx, z3.And(n == L, fresh)), cfg)
                agg.vc(fn, "returns self", struct_vc(out is g, "does not return self"), cfg)
        if nret == 0:
            agg.vc(fn, "has-returning-path", struct_vc(False, "vacuity guard"), cfg)


def deductive_effects(res, agg):
    from vf.contracts.rotator import trace_eof_rotator
    fn = "EOFRotator._fit_algorithm"
    for power in (1, 2):
        for cplx in (False, True):
            cfg = f"power={'1' if power == 1 else '>1'},{'complex' if cplx else 'real'}"
            for pth in trace_eof_rotator(power, cplx, post_compute=True):
                res.paths += 1
                if pth.kind != "return":
                    continue
                o = pth.value
                muts = [e[1] for e in o["ev_fit"] if e[0] == "mutate"]
                agg.vc(fn, "no mutation (name, attrs, in-place arithmetic) of an array owned by the base model", struct_vc(not muts, "; ".join(muts[:3])), cfg)
                snap = o["snapshot"]
                same = all(o["m"].data[k].term is snap[k][0] and o["m"].data[k].dims == snap[k][1] and o["m"].data[k].name == snap[k][2]
                           and o["m"].data[k]._cid == snap[k][3] for k in snap)
                agg.vc(fn, "the base model's results and labels are what they were before the rotator was fitted", struct_vc(same, "model data changed"), cfg)
    from props import C01
    fn = "EOF._fit_algorithm"
    for cplx in (False, True):
        for pth in C01.trace_eof(xeofs.single.ComplexEOF if cplx else xeofs.single.EOF, cplx, True):
            res.paths += 1
            if pth.kind != "return":
                continue
            muts = [e[1] for e in pth.ctx.events if e[0] == "mutate"]
            agg.vc(fn, "the matrix handed in by the caller is not mutated", struct_vc(not muts, "; ".join(muts[:3])), "complex" if cplx else "real")


# ---------------------------------------------------------------- bounded: call sequences
SCRATCH = (".coords_out", ".coords_from_transform")   # written by transform, read by no fit-time query (serialisation record / *_unseen inverse only)


def deductive_frame(res, agg):
    """frame condition of Preprocessor.transform and of the inverse transforms on the real chain (structural proxies):
    no attribute of the preprocessor or of any transformer that exists after fit has another value afterwards, except the
    two transform-time records"""
    from vf.contracts.prep import trace_chain
    fn = "Preprocessor.transform / inverse_transform_* (in the real chain)"
    for name, kw in (("1 sample dim", {}), ("2 sample dims", dict(sample=("time", "run"), feature=("lat",))), ("sample MultiIndex", dict(multiindex=("time",))),
                     ("no NaN check, lazy", dict(check_nans=False, lazy=True, compute=False)), ("standardised", dict(with_std=True))):
        try:
            paths = trace_chain(**kw)
        except PathLimit as e:
            res.undecided_reasons.append(f"{fn}[{name}]: {e}")
            continue
        res.paths += len(paths)
        nret = 0
        for pth in paths:
            if pth.kind != "return":
                continue
            nret += 1
            v = pth.value
            a, b, c = v["state_fit"], v["state_transform"], v["state_end"]
            d1 = {k: (a[k], b.get(k)) for k in a if a[k] != b.get(k) and not k.endswith(SCRATCH)}
            d2 = {k: (b[k], c.get(k)) for k in b if b[k] != c.get(k)}
            agg.vc(fn, "transform(new data) leaves every fitted attribute of the chain unchanged (frame: only the transform-time records coords_out / coords_from_transform)",
                   struct_vc(not d1, str({k: str(x)[:120] for k, x in d1.items()})[:300]), name)
            agg.vc(fn, "the inverse transforms (data, components, scores, unseen scores) modify nothing", struct_vc(not d2, str({k: str(x)[:120] for k, x in d2.items()})[:300]), name)
        if nret == 0:
            agg.vc(fn, "has-returning-path", struct_vc(False, "vacuity guard"), name)



ACCESSORS = ("components", "scores", "components_amplitude", "components_phase", "scores_amplitude", "scores_phase", "explained_variance",
             "explained_variance_ratio", "singular_values", "squared_covariance", "squared_covariance_fraction", "covariance_fraction_CD95",
             "correlation_coefficients_X", "correlation_coefficients_Y", "cross_correlation_coefficients", "fraction_variance_X_explained_by_X",
             "fraction_variance_Y_explained_by_Y", "fraction_variance_Y_explained_by_X", "homogeneous_patterns", "heterogeneous_patterns",
             "damping_times", "periods", "eigenvalues", "decorrelation_time", "filter_patterns", "largest_locally_weighted_components")


def _stored_state_updates(fn):
    """syntactic frame of one accessor: in-place updates (augmented assignment, item or attribute assignment) of a name
    that is bound, without a call in between, to self.data[...] / self.<attribute>: these write the model's stored
    state.  Straight-line alias tracking in source order (a rebinding anywhere ends the alias)."""
    import ast
    import inspect
    import textwrap
    tree = ast.parse(textwrap.dedent(inspect.getsource(fn)))
    alias, found = set(), []

    def stored(e):
        if isinstance(e, ast.Name):
            return e.id in alias
        if isinstance(e, ast.Subscript):
            return stored(e.value) or (isinstance(e.value, ast.Attribute) and isinstance(e.value.value, ast.Name) and e.value.value.id == "self")
        if isinstance(e, ast.Attribute):
            return (isinstance(e.value, ast.Name) and e.value.id == "self") or stored(e.value)
        return False

    def visit(stmts):
        for st in stmts:
            if isinstance(st, ast.Assign):
                for t in st.targets:
                    if isinstance(t, ast.Name):
                        (alias.add if stored(st.value) else alias.discard)(t.id)
                    elif isinstance(t, (ast.Subscript, ast.Attribute)) and stored(t.value):
                        found.append(f"line {st.lineno}: {ast.unparse(st)[:80]}")
            elif isinstance(st, ast.AugAssign):
                if stored(st.target):
                    found.append(f"line {st.lineno}: {ast.unparse(st)[:80]}")
            for f in ("body", "orelse", "finalbody"):
                if hasattr(st, f) and isinstance(getattr(st, f), list):
                    visit(getattr(st, f))
            for h in getattr(st, "handlers", []):
                visit(h.body)
    visit(tree.body[0].body)
    return found


def deductive_accessor_frame(res, agg):
    """every read-only accessor of every model class: no in-place update of stored state"""
    import inspect
    fn = "model accessors (frame)"
    classes = []
    for mod in (xeofs.single, xeofs.cross, xeofs.multi):
        for nm in sorted(getattr(mod, "__all__", dir(mod))):
            cls = getattr(mod, nm, None)
            if inspect.isclass(cls) and cls not in classes:
                classes.append(cls)
    seen = {}
    for cls in classes:
        for acc in ACCESSORS:
            f = getattr(cls, acc, None)
            f = getattr(f, "__func__", f)
            if not inspect.isfunction(f) or f in seen:
                continue
            try:
                seen[f] = _stored_state_updates(f)
            except (OSError, TypeError, SyntaxError) as e:
                agg.vc(fn, "within-supported-subset", {"status": "undecided", "residue": f"{f.__qualname__}: {e}"}, f.__qualname__)
                continue
            agg.vc(fn, "a read-only accessor updates no stored state in place (augmented / item / attribute assignment through an alias of self.data[...] or self.<attr>)",
                   struct_vc(not seen[f], "; ".join(seen[f])), f.__qualname__)
    agg.vc(fn, "accessors under this obligation", struct_vc(len(seen) >= 20, f"{len(seen)} accessor functions"), "")


def _datasets(rng):
    def mk(nn, nlat, nlon, t0, kind="da"):
        X = rng.standard_normal((nn, nlat * nlon)) * np.linspace(1, 3, nlat * nlon) + rng.standard_normal((nn, 1))
        da = real.da3(X, nlat).assign_coords(time=np.arange(t0, t0 + nn)).assign_attrs(units="K", note="user attr")
        da.name = "field"
        if kind == "ds":
            return xr.Dataset({"a": da, "b": da.isel(lon=slice(0, 2)) * 2.0})
        if kind == "list":
            return [da, da.isel(lat=0, drop=True) + 1.0]
        return da
    return {"D1": mk(24, 3, 4, 0), "D2": mk(30, 3, 4, 100), "D3": mk(20, 2, 5, 0), "Dds": mk(24, 3, 4, 0, "ds"), "Dlist": mk(24, 3, 4, 0, "list")}


def _snapshot(x):
    return copy.deepcopy(x)


def _same_input(a, b):
    if isinstance(a, list):
        return all(_same_input(x, y) for x, y in zip(a, b))
    return a.identical(b)


def _answers(m, D, cross=False, Y=None):
    out = {}
    def put(k, f):
        try:
            out[k] = f()
        except NotImplementedError:
            out[k] = "NotImplemented"
    put("scores", lambda: m.scores())
    put("components", lambda: m.components())
    if cross:
        put("transform", lambda: m.transform(X=D))
        put("inverse", lambda: m.inverse_transform(*m.scores()))
        put("sv", lambda: m.data["singular_values"])
    else:
        put("transform", lambda: m.transform(D))
        put("inverse", lambda: m.inverse_transform(m.scores()))
        if hasattr(m, "explained_variance"):
            put("expvar", lambda: m.explained_variance())
    return out


def _eq(a, b):
    if isinstance(a, str) or isinstance(b, str):
        return a == b
    if isinstance(a, (list, tuple)):
        return len(a) == len(b) and all(_eq(x, y) for x, y in zip(a, b))
    if isinstance(a, xr.Dataset):
        return set(a.data_vars) == set(b.data_vars) and all(_eq(a[v], b[v]) for v in a.data_vars)
    if a.dims != b.dims or a.shape != b.shape:
        return False
    for d in a.dims:
        if d in a.coords and not np.array_equal(np.asarray(a[d].to_index()), np.asarray(b[d].to_index())):
            return False
    return bool(np.allclose(a.values, b.values, rtol=1e-9, atol=1e-11, equal_nan=True))


def eval_case(c):
    rng = np.random.default_rng(c["seed"])
    Ds = _datasets(rng)
    snaps = {k: _snapshot(v) for k, v in Ds.items()}
    model = c["model"]
    cross = model in ("MCA", "CPCCA", "MCA-pca-all", "CPCCA-pca-all")
    Ys = {k: (v if not isinstance(v, (list, xr.Dataset)) else Ds["D1"]) for k, v in Ds.items()}
    def Yof(k):
        base = Ds[k] if isinstance(Ds[k], xr.DataArray) else Ds["D1"]
        return (base.isel(lon=slice(0, 3)) * 0.5).rename({"lat": "lat2", "lon": "lon2"})
    def new():
        if model == "EOF":
            return xeofs.single.EOF(n_modes=3, solver="full", standardize=c.get("standardize", False))
        if model == "ComplexEOF":
            return xeofs.single.ComplexEOF(n_modes=3, solver="full")
        if model == "SparsePCA":
            return xeofs.single.SparsePCA(n_modes=2, solver="full")
        if model == "SparsePCA-randomized":
            return xeofs.single.SparsePCA(n_modes=2, solver="randomized", random_state=3)      # seeded: every fit must start the same stream
        if model == "POP":
            return xeofs.single.POP(n_modes=2, n_pca_modes=4, random_state=7)     # seeded: the inner PCA uses a randomised solver
        if model == "MCA":
            return xeofs.cross.MCA(n_modes=2, use_pca=False, solver="full")
        if model == "CPCCA":
            return xeofs.cross.CPCCA(n_modes=2, alpha=0.5, use_pca=False, solver="full")
        if model == "MCA-pca-all":
            return xeofs.cross.MCA(n_modes=2, use_pca=True, n_pca_modes="all", solver="full")
        if model == "CPCCA-pca-all":
            return xeofs.cross.CPCCA(n_modes=2, alpha=0.5, use_pca=True, n_pca_modes="all", solver="full")
        raise KeyError(model)
    def fit(m, k):
        return m.fit(Ds[k], Yof(k), "time") if cross else m.fit(Ds[k], "time")
    m = new()
    last = None
    msgs = []
    for op, arg in c["ops"]:
        if last is None and op not in ("fit", "fit-weighted"):
            continue
        try:
            if op == "fit":
                fit(m, arg)
                last = arg
            elif op == "fit-weighted":
                # a fit with user weights; a later fit without weights must not see them
                D = Ds[arg]
                if cross or not isinstance(D, xr.DataArray):
                    continue
                W = xr.DataArray(np.linspace(0.5, 3.0, D.isel(time=0).size).reshape(D.isel(time=0).shape), dims=D.dims[1:], coords={d: D[d] for d in D.dims[1:]})
                m.fit(D, "time", weights=W)
                last = None            # answers after this op are not compared (a later plain fit resets `last`)
            elif op == "transform":
                if cross:
                    m.transform(X=Ds[arg]) if type(Ds[arg]) is type(Ds[last]) and Ds[arg].sizes.get("lat", 0) == Ds[last].sizes.get("lat", -1) else None
                else:
                    compatible = type(Ds[arg]) is type(Ds[last]) and (not isinstance(Ds[arg], xr.DataArray) or Ds[arg].shape[1:] == Ds[last].shape[1:])
                    if compatible:
                        m.transform(Ds[arg])
            elif op == "inverse_transform":
                sc = m.scores()
                m.inverse_transform(*sc) if cross else m.inverse_transform(sc.isel(mode=slice(0, 1)))
            elif op == "components":
                m.components()
            elif op == "scores":
                m.scores()
            elif op == "accessor-variants":
                # the other scalings of the same read-only accessors
                import inspect
                for acc, flag in ((m.components, False), (m.scores, True)):
                    if "normalized" in inspect.signature(acc).parameters:
                        acc(normalized=flag)
                    else:
                        acc()
            elif op == "compute":
                m.compute()
            elif op == "serialize":
                m.serialize()
            elif op == "rebuild":
                m = type(m).deserialize(m.serialize())          # continue with the model rebuilt from its own tree
            elif op == "rotator":
                before = _answers(m, Ds[last], cross)
                names_before = {k: (v.name, tuple(v.dims)) for k, v in m.data.items()}
                R = (xeofs.cross.MCARotator if model == "MCA" else xeofs.cross.CPCCARotator if model == "CPCCA" else
                     xeofs.single.ComplexEOFRotator if model == "ComplexEOF" else xeofs.single.EOFRotator)
                if model in ("SparsePCA", "SparsePCA-randomized", "POP"):
                    continue
                R(n_modes=2, power=arg).fit(m)
                after = _answers(m, Ds[last], cross)
                for k in before:
                    if not _eq(before[k], after[k]):
                        msgs.append(f"fitting a rotator on the model changed its {k}")
                for k, v in m.data.items():
                    if tuple(v.dims) != names_before[k][1]:
                        msgs.append(f"fitting a rotator changed the dims of the model's {k}")
                try:
                    type(m).deserialize(m.serialize())
                except Exception as e:  # noqa: BLE001
                    msgs.append(f"after rotator.fit(model) the model can no longer be rebuilt from its own tree: {type(e).__name__}")
            elif op == "bootstrapper":
                if model != "EOF" or not isinstance(Ds[last], xr.DataArray):
                    continue
                before = _answers(m, Ds[last])
                xeofs.validation.EOFBootstrapper(n_bootstraps=3, seed=1).fit(m)
                after = _answers(m, Ds[last])
                for k in before:
                    if not _eq(before[k], after[k]):
                        msgs.append(f"fitting a bootstrapper on the model changed its {k}")
        except NotImplementedError:
            pass
    if last is None:
        return True, "no fit in sequence"
    fresh = fit(new(), last)
    a, b = _answers(m, Ds[last], cross), _answers(fresh, Ds[last], cross)
    for k in a:
        if not _eq(a[k], b[k]):
            msgs.append(f"after {[o for o, _ in c['ops']]} (last fit on {last}) {k} differs from a fresh model fitted on {last}")
    for k in Ds:
        if not _same_input(Ds[k], snaps[k]):
            msgs.append(f"user input {k} was modified")
    return (not msgs), "; ".join(msgs[:3])


def bounded_cases(tier, seed):
    rng = np.random.default_rng(seed)
    alphabet = [("fit", "D1"), ("fit", "D2"), ("fit", "D3"), ("fit", "Dds"), ("fit", "Dlist"), ("transform", "D1"), ("transform", "D2"),
                ("inverse_transform", None), ("components", None), ("scores", None), ("accessor-variants", None), ("compute", None), ("serialize", None), ("rebuild", None),
                ("rotator", 1), ("rotator", 2), ("bootstrapper", None)]
    cases = []
    fixed = [[("fit", "D1"), ("fit", "D2")], [("fit", "D1"), ("fit", "D3")], [("fit", "Dds"), ("fit", "D1")], [("fit", "D1"), ("fit", "Dlist")],
             [("fit", "D1"), ("transform", "D2"), ("scores", None)], [("fit", "D1"), ("rotator", 1)], [("fit", "D1"), ("rotator", 2), ("scores", None)],
             [("fit", "D1"), ("bootstrapper", None)], [("fit", "D1"), ("compute", None), ("transform", "D2"), ("compute", None)],
             [("fit", "D2"), ("serialize", None), ("inverse_transform", None), ("fit", "D1")],
             [("fit", "D1"), ("transform", "D1"), ("fit", "D2"), ("transform", "D2"), ("scores", None)],
             [("fit", "D1"), ("accessor-variants", None), ("scores", None)],
             [("fit", "D1"), ("rebuild", None), ("compute", None)], [("fit", "D2"), ("compute", None), ("rebuild", None), ("compute", None), ("transform", "D2")]]
    for model in ("EOF", "ComplexEOF", "SparsePCA", "POP", "MCA", "CPCCA"):
        for ops in fixed:
            if model in ("MCA", "CPCCA", "POP", "SparsePCA") and any(a in ("Dds", "Dlist") for _, a in ops):
                continue
            cases.append(dict(model=model, ops=ops, keep=model in ("EOF", "MCA") or ops[1][0] == "accessor-variants" or (model == "POP" and len(ops) >= 3 and ops[-1][0] in ("compute", "scores", "transform"))))
        nrand = 6 if tier == "quick" else 40
        for _ in range(nrand):
            L = int(rng.integers(2, 9))
            ops = [alphabet[int(j)] for j in rng.integers(0, len(alphabet), L)]
            if model in ("MCA", "CPCCA", "POP", "SparsePCA"):
                ops = [o for o in ops if o[1] not in ("Dds", "Dlist")]
            cases.append(dict(model=model, ops=[("fit", "D1")] + ops))
    cases.append(dict(model="EOF", ops=[("fit", "D1"), ("fit", "D2")], standardize=True, keep=True))
    for model in ("EOF", "ComplexEOF", "SparsePCA"):
        cases.append(dict(model=model, ops=[("fit-weighted", "D1"), ("fit", "D1")], keep=True))
        cases.append(dict(model=model, ops=[("fit-weighted", "D1"), ("fit", "D2"), ("transform", "D2")], keep=model == "EOF"))
    cases.append(dict(model="SparsePCA-randomized", ops=[("fit", "D1"), ("fit", "D2")], keep=True))
    cases.append(dict(model="SparsePCA-randomized", ops=[("fit", "D1"), ("fit", "D1"), ("scores", None)], keep=True))
    for model in ("MCA-pca-all", "CPCCA-pca-all"):
        # PCA pre-reduction keeping "all" modes, refitted on data with more (and with fewer) features
        cases.append(dict(model=model, ops=[("fit", "D3"), ("fit", "D1")], keep=True))
        cases.append(dict(model=model, ops=[("fit", "D1"), ("fit", "D3"), ("transform", "D3")], keep=model.startswith("MCA")))
    for i, c in enumerate(cases):
        c["seed"] = int(seed) * 1000 + i
    if tier == "quick":
        cases = [c for c in cases if c.get("keep")] + real.subsample([c for c in cases if not c.get("keep")], 40, rng)
    return cases


def run_bounded(res, tier, seed):
    for c in bounded_cases(tier, seed):
        ops = [o for o, _ in c["ops"]]
        sig = {"model": c["model"], "ops": ",".join(f"{o}({a})" if a is not None else o for o, a in c["ops"])}
        try:
            ok, detail = eval_case(c)
        except Exception as e:  # noqa: BLE001
            ok, detail = False, f"{type(e).__name__}: {str(e)[:150]}"
            sig["exception"] = type(e).__name__
        res.case("C14.call-sequences", sig, ok, detail, payload=c)


def replay(payload):
    c = payload["payload"]
    c["ops"] = [tuple(o) for o in c["ops"]]
    ok, detail = eval_case(c)
    return ok, f"C14 replay {c['model']} {c['ops']}: {'ok' if ok else detail}"


def run(tier, seed):
    res = Result("C14")
    res.functions = ["xeofs.preprocessing.list_processor:GenericListTransformer.fit (loop rule, loop 0)", "GenericListTransformer.__init__",
                     "xeofs.single.eof_rotator:EOFRotator._fit_algorithm (effects)", "xeofs.single.eof:EOF._fit_algorithm (effects)",
                     "xeofs.data_container.data_container:DataContainer.add",
                     "xeofs.preprocessing.preprocessor:Preprocessor.transform / inverse_transform_data / _components / _scores / _scores_unseen (frame condition over Scaler, DimensionRenamer, MultiIndexConverter, Stacker, Sanitizer, Concatenator)"]
    res.assumptions = ["frame condition: attributes are compared by value identity of the structural proxies; Stacker.coords_out and MultiIndexConverter.coords_from_transform are the chain's transform-time records and are exempt (no fit-time query reads them)",
                       "loop rule: the loop `for i, x in enumerate(X)` of GenericListTransformer.fit is replaced mechanically (vf/sym/looprule.py) - termination is not proved",
                       "per-input transformers are represented by a recording stub class (construction / fit arguments); their own fits are history-free by construction of fresh objects",
                       "effect tracking covers name=, attrs=, item assignment and in-place arithmetic on proxies and on views derived from owned objects",
                       "observational purity of transform / inverse_transform / compute / serialize and cross-set / bootstrapper effects: bounded call sequences only"]
    res.trusted = ["CPython on proxies", "z3", "vf/sym/looprule.py AST rewrite"]
    agg = Agg(res, "C14")
    deductive_list_fit(res, agg)
    deductive_effects(res, agg)
    deductive_frame(res, agg)
    deductive_accessor_frame(res, agg)
    agg.flush()
    run_bounded(res, tier, seed)
    return res

"""C10 Named methods coincide with the general method at their special parameter values.

Deductive: (1) the constructors of MCA / CCA / RDA and their Complex / Hilbert variants are run with opaque option tokens
next to the general CPCCA constructor at alpha = (1,1) / (0,0) / (0,1): the resulting object state (parameters except
'alpha' and the model label, decomposer keywords, both preprocessors, PCA and whitener settings) is identical and every
fit-time method resolves to the same function object (MRO clause) - hence equal results for all inputs;
(2) Whitener is the identity exactly for alpha = 1 (C16) and PCA(use_pca=False) hands its input through unchanged;
(3) a Complex model fed real data runs the real model's algorithm (shared C01 trace, obligation set identical).
Bounded: MCA(X,X) vs EOF, ExtendedEOF(embedding=1) vs EOF, SparsePCA(alpha=0) vs EOF, PCA keeping all modes vs none,
two-view multi-set CCA vs cross-set CCA, and each named method vs CPCCA on real data.
"""
import numpy as np
import xarray as xr

import xeofs
from xeofs.preprocessing import PCA

from vf import real
from vf.contracts.common import Agg, struct_vc
from vf.report import Result

LEVEL = "other"
EXPLANATION = ("contracts: part proved, part bounded. Proved: state equality of the named cross-set classes with CPCCA at the special alpha for "
               "all values of the remaining options (opaque tokens) plus identical method resolution; identity of Whitener at alpha=1 and of "
               "PCA with use_pca=False. Bounded: the equalities that rest on uniqueness of the SVD or on iterative solvers (MCA(X,X)=EOF, "
               "SparsePCA without penalty, multi-set vs cross-set CCA, ExtendedEOF with one embedding, PCA keeping all modes)")


class Tk:
    def __init__(self, n): self.n = n
    def __repr__(self): return f"<{self.n}>"


def _state(m):
    """comparable summary of a freshly constructed cross-set model"""
    def prep(p):
        return {k: getattr(p, k) for k in ("sample_name", "feature_name", "with_center", "with_std", "with_coslat", "check_nans", "compute")}
    def pca(p):
        return {k: getattr(p, k) for k in ("use_pca", "n_modes", "init_rank_reduction", "sample_name", "feature_name", "random_state")}
    def wh(w):
        return {k: getattr(w, k) for k in ("alpha", "is_identity", "sample_name", "feature_name")}
    params = {k: v for k, v in m.get_params().items() if k != "alpha"}
    return {"params": params, "decomposer": m._decomposer_kwargs, "prep1": prep(m.preprocessor1), "prep2": prep(m.preprocessor2),
            "pca1": pca(m.pca1), "pca2": pca(m.pca2), "wh1": wh(m.whitener1), "wh2": wh(m.whitener2),
            "sample_name": m.sample_name, "feature_name": m.feature_name}


def _eq(a, b):
    if isinstance(a, dict):
        return isinstance(b, dict) and a.keys() == b.keys() and all(_eq(a[k], b[k]) for k in a)
    if isinstance(a, (list, tuple)):
        return isinstance(b, (list, tuple)) and len(a) == len(b) and all(_eq(x, y) for x, y in zip(a, b))
    if isinstance(a, Tk) or isinstance(b, Tk):
        return a is b
    return a == b


def _diff(a, b, path=""):
    out = []
    if isinstance(a, dict) and isinstance(b, dict):
        for k in sorted(set(a) | set(b), key=str):
            if k not in a or k not in b:
                out.append(f"{path}.{k} only on one side")
            else:
                out += _diff(a[k], b[k], f"{path}.{k}")
    elif not _eq(a, b):
        out.append(f"{path}: {a!r} != {b!r}")
    return out


METHODS = ["fit", "transform", "inverse_transform", "predict", "components", "scores", "_fit_algorithm", "_transform_algorithm",
           "_inverse_transform_algorithm", "_predict_algorithm", "_get_components", "_get_scores", "_compute_cross_matrix",
           "_compute_cross_covariance_numpy", "_normalize_data", "_compute_total_squared_covariance", "_augment_data", "squared_covariance_fraction",
           "cross_correlation_coefficients", "homogeneous_patterns", "heterogeneous_patterns", "compute", "serialize"]


def deductive(res, agg):
    C = xeofs.cross
    fn = "constructors"
    for family, general in (("", C.CPCCA), ("Complex", C.ComplexCPCCA), ("Hilbert", C.HilbertCPCCA)):
        for name, alpha in (("MCA", [1.0, 1.0]), ("CCA", [0.0, 0.0]), ("RDA", [0.0, 1.0])):
            cls = getattr(C, family + name)
            tok = dict(n_modes=Tk("n_modes"), standardize=[Tk("std0"), Tk("std1")], use_coslat=[Tk("cos0"), Tk("cos1")], check_nans=[Tk("nan0"), Tk("nan1")],
                       use_pca=[Tk("pca0"), Tk("pca1")], n_pca_modes=[Tk("npc0"), Tk("npc1")], pca_init_rank_reduction=[Tk("irr0"), Tk("irr1")],
                       compute=Tk("compute"), sample_name=Tk("sname"), feature_name=[Tk("f0"), Tk("f1")], solver=Tk("solver"), random_state=Tk("seed"),
                       solver_kwargs=Tk("solver_kwargs"))
            if family == "Hilbert":
                tok.update(padding=[Tk("pad0"), Tk("pad1")], decay_factor=[Tk("dec0"), Tk("dec1")])
            cfg = f"{family}{name} vs {general.__name__}(alpha={alpha})"
            try:
                a = _state(cls(**tok))
                b = _state(general(alpha=alpha, **tok))
            except Exception as e:  # noqa: BLE001
                agg.vc(fn, "constructible with arbitrary option values", struct_vc(False, f"{type(e).__name__}: {e}"), cfg)
                continue
            d = _diff(a, b)
            agg.vc(fn, "object state identical to the general model at the special alpha (all other options arbitrary)", struct_vc(not d, "; ".join(d[:4])), cfg)
            agg.vc(fn, "whitening degree pinned by the class", struct_vc([a["wh1"]["alpha"], a["wh2"]["alpha"]] == alpha, str([a["wh1"]["alpha"], a["wh2"]["alpha"]])), cfg)
            bad = []
            for meth in METHODS:
                fa, fb = getattr(cls, meth, None), getattr(general, meth, None)
                if fa is None and fb is None:
                    continue
                if getattr(fa, "__func__", fa) is not getattr(fb, "__func__", fb):
                    # MCA adds covariance_fraction_CD95 etc.; fit-time and query methods must resolve identically
                    bad.append(meth)
            agg.vc(fn, "every fit-time and query method resolves to the same function object as in the general class", struct_vc(not bad, str(bad)), cfg)
    # PCA(use_pca=False) is the identity
    fn = "PCA"
    X = xr.DataArray(np.arange(12.0).reshape(4, 3), dims=("sample", "feature"), coords={"sample": range(4), "feature": range(3)})
    p = PCA(use_pca=False).fit(X)
    P = xr.DataArray(np.ones((3, 2)), dims=("feature", "mode"))
    ok = p.transform(X) is X and p.inverse_transform_data(X) is X and p.transform_components(P) is P and p.inverse_transform_components(P) is P \
        and p.inverse_transform_scores(X) is X
    agg.vc(fn, "use_pca=False: every map hands its argument through unchanged", struct_vc(ok, "not the identity"), "")
    # Whitener identity at alpha = 1 and complex-on-real: shared traces
    from props import C16, C01

    class Only:
        def __init__(self, agg, words):
            self.agg, self.words = agg, words

        def vc(self, function, clause, r, config=""):
            if any(w in clause for w in self.words) and ("alpha=one" in config or "alpha=sym" in config):
                return self.agg.vc(function, clause, r, config)
            return True
    C16.deductive(res, Only(agg, ("alpha = 1", "identity only if")))

    class RealComplex:
        def __init__(self, agg):
            self.agg = agg

        def vc(self, function, clause, r, config=""):
            if config.startswith("ComplexEOF,real"):
                return self.agg.vc(function, clause + " (Complex model on real data = the real model's clauses)", r, config)
            return True
    C01.deductive_eof(res, RealComplex(agg), "quick")


# ---------------------------------------------------------------- bounded
def _align_sign(a, b):
    """b with the sign (phase) of each mode aligned to a"""
    am, bm = a.transpose("mode", ...).values, b.transpose("mode", ...).values
    am2, bm2 = am.reshape(am.shape[0], -1), bm.reshape(bm.shape[0], -1)
    ph = np.array([np.vdot(bm2[i], am2[i]) for i in range(am2.shape[0])])
    ph = ph / np.where(np.abs(ph) > 0, np.abs(ph), 1)
    return am, bm * ph.reshape((-1,) + (1,) * (bm.ndim - 1))


def eval_case(c):
    rng = np.random.default_rng(c["seed"])
    nn, nlat, nlon = 40, 2, 3
    L = rng.standard_normal((nn, 3))
    X = L @ rng.standard_normal((3, nlat * nlon)) + 0.5 * rng.standard_normal((nn, nlat * nlon))
    da = real.da3(X, nlat)
    Y = (da.isel(lon=slice(0, 2)) * 0.5 + 0.5 * rng.standard_normal((nn, nlat, 2))).rename({"lat": "lat2", "lon": "lon2"})
    pair = c["pair"]
    msgs = []
    S_, C_ = xeofs.single, xeofs.cross
    tol = 1e-7
    if pair in ("MCA", "CCA", "RDA", "ComplexMCA", "ComplexCCA", "HilbertMCA", "HilbertRDA"):
        fam = "Complex" if pair.startswith("Complex") else ("Hilbert" if pair.startswith("Hilbert") else "")
        nm = pair[len(fam):]
        alpha = {"MCA": [1.0, 1.0], "CCA": [0.0, 0.0], "RDA": [0.0, 1.0]}[nm]
        Dx, Dy = (da + 1j * da.roll(time=3, roll_coords=False), Y - 0.5j * Y.roll(time=5, roll_coords=False)) if fam == "Complex" else (da, Y)
        kw = dict(n_modes=2, use_pca=c["use_pca"], n_pca_modes=3, standardize=c["std"], solver=c["solver"], random_state=3)
        a = getattr(C_, pair)(**kw).fit(Dx, Dy, "time")
        b = getattr(C_, fam + "CPCCA")(alpha=alpha, **kw).fit(Dx, Dy, "time")
        for key in ("singular_values", "scores1", "scores2", "components1", "components2"):
            if real.relerr(a.data[key].values, b.data[key].values) > 1e-12:
                msgs.append(f"{pair} vs {fam}CPCCA(alpha={alpha}): {key} differ ({real.relerr(a.data[key].values, b.data[key].values):.2e})")
    elif pair == "MCA(X,X)=EOF":
        m = C_.MCA(n_modes=3, use_pca=False, solver="full").fit(da, da.rename(lat="lat2", lon="lon2"), "time")
        e = S_.EOF(n_modes=3, solver="full").fit(da, "time")
        if real.relerr(m.data["singular_values"].values, e.explained_variance().values) > tol:
            msgs.append("MCA(X,X): singular values != explained variances of EOF(X)")
        pa, pb = _align_sign(e.components(), m.components()[0])
        if real.relerr(pb, pa) > 1e-6:
            msgs.append("MCA(X,X): patterns != EOFs")
    elif pair == "Complex-on-real":
        a = S_.ComplexEOF(n_modes=3, solver="full").fit(da, "time")
        b = S_.EOF(n_modes=3, solver="full").fit(da, "time")
        if real.relerr(a.singular_values().values, b.singular_values().values) > tol or real.relerr(a.components().values, b.components().values) > 1e-6 \
                or real.relerr(a.scores().values, b.scores().values) > 1e-6:
            msgs.append("ComplexEOF on real data differs from EOF")
        # the truncated-solver route: the same seeded back end must be taken, so the two models agree to the last bit
        a = S_.ComplexEOF(n_modes=2, solver="randomized", random_state=5).fit(da, "time")
        b = S_.EOF(n_modes=2, solver="randomized", random_state=5).fit(da, "time")
        if not (np.array_equal(a.singular_values().values, b.singular_values().values) and np.array_equal(a.components().values, b.components().values)):
            msgs.append("ComplexEOF on real data (randomized solver, same seed) is not identical to EOF: another solver route was taken")
        a = C_.ComplexMCA(n_modes=2, use_pca=False, solver="full").fit(da, Y, "time")
        b = C_.MCA(n_modes=2, use_pca=False, solver="full").fit(da, Y, "time")
        if real.relerr(a.data["singular_values"].values, b.data["singular_values"].values) > tol or real.relerr(a.data["scores1"].values, b.data["scores1"].values) > 1e-6:
            msgs.append("ComplexMCA on real data differs from MCA")
    elif pair == "ExtendedEOF(1)=EOF":
        W = xr.DataArray(rng.uniform(0.5, 2.0, (nlat, nlon)), dims=("lat", "lon"), coords={"lat": da.lat, "lon": da.lon})
        flagsets = [dict(), dict(standardize=True), dict(use_coslat=True), dict(standardize=True, use_coslat=True), dict(standardize=True, weights=True), dict(center=False)]
        fl = flagsets[c.get("rep", 0) % len(flagsets)] if c.get("flags", True) else {}
        wkw = dict(weights=W) if fl.get("weights") else {}
        fkw = {k: v for k, v in fl.items() if k != "weights"}
        for tau in (1, 3):
            a = S_.ExtendedEOF(n_modes=3, tau=tau, embedding=1, solver="full", **fkw).fit(da, "time", **wkw)
            b = S_.EOF(n_modes=3, solver="full", **fkw).fit(da, "time", **wkw)
            if real.relerr(a.explained_variance().values, b.explained_variance().values) > tol:
                msgs.append(f"ExtendedEOF(embedding=1, tau={tau}, {fl}): explained variance differs from EOF")
            pa, pb = _align_sign(b.scores(), a.scores())
            if real.relerr(pb, pa) > 1e-6:
                msgs.append(f"ExtendedEOF(embedding=1, tau={tau}): scores differ from EOF")
            ca = a.components().isel(embedding=0, drop=True)
            pa, pb = _align_sign(b.components(), ca)
            if real.relerr(pb, pa) > 1e-6:
                msgs.append(f"ExtendedEOF(embedding=1, tau={tau}): components differ from EOF")
    elif pair == "SparsePCA(0)=EOF":
        a = S_.SparsePCA(n_modes=3, alpha=0.0, beta=0.0, solver="full", max_iter=2000, tol=1e-12).fit(da, "time")
        b = S_.EOF(n_modes=3, solver="full").fit(da, "time")
        if real.relerr(a.explained_variance().values, b.explained_variance().values) > 1e-5:
            msgs.append(f"SparsePCA without penalty: explained variance {a.explained_variance().values} vs EOF {b.explained_variance().values}")
        pa, pb = _align_sign(b.components(), a.components())
        if real.relerr(pb, pa) > 1e-4:
            msgs.append("SparsePCA without penalty: components differ from the EOFs")
        # randomised (blocked) sketch: same variances to the sketch's accuracy, for every number of blocks
        for nb in (1, 2, 3):
            a = S_.SparsePCA(n_modes=3, alpha=0.0, beta=0.0, solver="randomized", random_state=2, n_blocks=nb, max_iter=2000, tol=1e-12).fit(da, "time")
            if real.relerr(a.explained_variance().values, b.explained_variance().values) > 0.1:
                msgs.append(f"SparsePCA without penalty (randomized, n_blocks={nb}): explained variance {a.explained_variance().values} vs EOF {b.explained_variance().values}")
    elif pair == "PCA(all)=noPCA":
        for cls, kw in ((C_.MCA, {}), (C_.CPCCA, dict(alpha=0.5)), (C_.ComplexCPCCA, dict(alpha=0.3))):
            cplx = cls is C_.ComplexCPCCA
            Dx, Dy = (da + 1j * da.roll(time=3, roll_coords=False), Y - 0.5j * Y.roll(time=5, roll_coords=False)) if cplx else (da, Y)
            a = cls(n_modes=2, use_pca=True, n_pca_modes="all", solver="full", **kw).fit(Dx, Dy, "time")
            b = cls(n_modes=2, use_pca=False, solver="full", **kw).fit(Dx, Dy, "time")
            if real.relerr(a.data["singular_values"].values, b.data["singular_values"].values) > 1e-6:
                msgs.append(f"{cls.__name__}: singular values with all PCs kept differ from no PCA")
            ca, cb = a.components()[0], b.components()[0]
            pa, pb = _align_sign(cb, ca)
            if real.relerr(pb, pa) > 1e-5:
                msgs.append(f"{cls.__name__}: components with all PCs kept differ from no PCA")
            sa, sb = a.scores()[0], b.scores()[0]
            pa, pb = _align_sign(sb, sa)
            if real.relerr(pb, pa) > 1e-5:
                msgs.append(f"{cls.__name__}: scores with all PCs kept differ from no PCA")
            ra = a.inverse_transform(*a.scores())
            rb = b.inverse_transform(*b.scores())
            if real.relerr(ra[0].transpose(*rb[0].dims).values, rb[0].values) > 1e-5:
                msgs.append(f"{cls.__name__}: reconstruction with all PCs kept differs from no PCA")
    elif pair == "multiCCA=crossCCA":
        Xv, Yv = real.da2(X[:, :4], "sample", "feature"), real.da2(X[:, 2:] @ rng.standard_normal((4, 3)) + 0.3 * rng.standard_normal((nn, 3)), "sample", "feature")
        mm = xeofs.multi.CCA(n_modes=2, pca=False).fit([Xv, Yv], "sample")
        cc = C_.CCA(n_modes=2, use_pca=False, solver="full").fit(Xv, Yv.rename(feature="feature_y"), "sample")
        v1, v2 = mm.scores()
        def corr(a_, b_):
            a_, b_ = a_ - a_.mean("sample"), b_ - b_.mean("sample")
            return ((a_ * b_).sum("sample") / np.sqrt((a_ ** 2).sum("sample") * (b_ ** 2).sum("sample"))).values
        rho_multi = np.abs(corr(v1, v2))
        sx, sy = cc.scores()
        rho_cross = np.abs(corr(sx, sy))
        if real.relerr(np.sort(rho_multi), np.sort(rho_cross)) > 1e-4:
            msgs.append(f"canonical correlations: multi-set {rho_multi} vs cross-set {rho_cross}")
        rho_acc = np.abs(cc.cross_correlation_coefficients().values)
        if real.relerr(np.sort(rho_acc), np.sort(rho_multi)) > 1e-4:
            msgs.append(f"canonical correlations reported by cross-set CCA {rho_acc} vs multi-set CCA {rho_multi}")
    return (not msgs), "; ".join(msgs[:3])


def bounded_cases(tier, seed):
    rng = np.random.default_rng(seed)
    cases = []
    for pair in ("MCA", "CCA", "RDA", "ComplexMCA", "ComplexCCA", "HilbertMCA", "HilbertRDA"):
        for use_pca in (False, True):
            for std in (False, True):
                for solver in ("full", "auto"):
                    cases.append(dict(pair=pair, use_pca=use_pca, std=std, solver=solver, keep=(solver == "full" and not use_pca and not std)))
    cases.append(dict(pair="CCA", use_pca=False, std=False, solver="full", keep=True, wide=True))
    for pair in ("MCA(X,X)=EOF", "Complex-on-real", "ExtendedEOF(1)=EOF", "SparsePCA(0)=EOF", "PCA(all)=noPCA", "multiCCA=crossCCA"):
        for r in range((6 if pair == "ExtendedEOF(1)=EOF" else 2) if tier == "quick" else 6):
            cases.append(dict(pair=pair, keep=True, rep=r))
    for i, c in enumerate(cases):
        c["seed"] = int(seed) * 1000 + i
    if tier == "quick":
        cases = [c for c in cases if c.get("keep")] + real.subsample([c for c in cases if not c.get("keep")], 20, rng)
    return cases


def run_bounded(res, tier, seed):
    for c in bounded_cases(tier, seed):
        sig = {k: c.get(k) for k in ("pair", "use_pca", "std", "solver")}
        try:
            ok, detail = eval_case(c)
        except Exception as e:  # noqa: BLE001
            ok, detail = False, f"{type(e).__name__}: {str(e)[:150]}"
            sig["exception"] = type(e).__name__
        res.case("C10.special-cases", sig, ok, detail, payload=c)


def replay(payload):
    ok, detail = eval_case(payload["payload"])
    return ok, f"C10 replay {payload['payload']}: {'ok' if ok else detail}"


def run(tier, seed):
    res = Result("C10")
    res.functions = ["xeofs.cross.mca:MCA/ComplexMCA/HilbertMCA.__init__", "xeofs.cross.cca:CCA/ComplexCCA/HilbertCCA.__init__", "xeofs.cross.rda:RDA/ComplexRDA/HilbertRDA.__init__",
                     "xeofs.cross.cpcca:CPCCA/ComplexCPCCA/HilbertCPCCA.__init__", "xeofs.cross.base_model_cross_set:BaseModelCrossSet.__init__/_process_parameter",
                     "xeofs.preprocessing.pca:PCA (use_pca=False)", "xeofs.preprocessing.whitener:Whitener (alpha=1, shared with C16)", "xeofs.single.eof:ComplexEOF._fit_algorithm on real data (shared with C01)"]
    res.assumptions = ["equal object state + identical method resolution imply equal results for all inputs (the methods are functions of the object state and their arguments; randomness only through the shared random_state)",
                       "MCA(X,X)=EOF, SparsePCA without penalty, multi-set vs cross-set CCA, PCA keeping all modes, ExtendedEOF with one embedding: rest on uniqueness of the SVD / fixed points of iterative solvers - bounded only",
                       "equalities are up to the sign (phase) of each mode where the two routes fix signs in different spaces"]
    res.trusted = ["CPython", "opaque-token comparison of constructor results"]
    agg = Agg(res, "C10")
    deductive(res, agg)
    # ExtendedEOF hands already preprocessed data to its inner EOF: no second standardisation / weighting there (shared forwarding contract)
    from props.C07 import deductive_inner_models
    deductive_inner_models(res, agg, aspects=("rescaling",), models=("ExtendedEOF",))
    agg.flush()
    run_bounded(res, tier, seed)
    return res

def multipletests(*a, **k):
    raise NotImplementedError("statsmodels stub: multipletests is not available in this sandbox")

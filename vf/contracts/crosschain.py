"""Composition contract of the cross-set public methods (xeofs.cross.base_model_cross_set.BaseModelCrossSet):
fit / transform / inverse_transform / predict / components / scores are run as they are, with the six stages
(preprocessor1/2, pca1/2, whitener1/2) and the model-specific algorithm hooks replaced by recorders; a value carries
the list of (stage, field, method) it has passed through.  Obligation: every field passes through its OWN
preprocessor, PCA and whitener, in that order on the way in and in reverse order on the way out, with the method that
belongs to the direction (fitted-sample inverse for scores(), unseen-sample inverse for transform()/predict()).
The stages themselves are under contract elsewhere (C02/C03/C05/C08/C16)."""
import xarray as xr

import xeofs

from .common import struct_vc

FN = "BaseModelCrossSet"


class Flow:
    def __init__(self, origin, hist=()):
        self.origin, self.hist = origin, tuple(hist)
        self.dims = ("sample", "mode")

    @property
    def __class__(self):
        return xr.DataArray

    def through(self, step):
        return Flow(self.origin, self.hist + (step,))

    def expand_dims(self, *a, **k):
        return self

    def __repr__(self):
        return f"{self.origin}:{'>'.join('.'.join(map(str, s)) for s in self.hist)}"


class Stage:
    def __init__(self, kind, field, log):
        self.kind, self.field, self.log = kind, field, log

    def _m(self, name):
        def call(x, *a, **k):
            extra = tuple(getattr(v, "origin", v) for v in a) + tuple((n, getattr(v, "origin", v)) for n, v in k.items())
            self.log.append((self.kind, self.field, name, getattr(x, "origin", None), extra))
            if not isinstance(x, Flow):
                raise TypeError(f"{self.kind}{self.field}.{name} received {type(x).__name__}")
            return x.through((self.kind, self.field, name))
        return call

    def __getattr__(self, name):
        if name in ("fit_transform", "transform", "inverse_transform_data", "inverse_transform_components", "inverse_transform_scores",
                    "inverse_transform_scores_unseen"):
            return self._m(name)
        raise AttributeError(name)


def _model():
    m = xeofs.cross.CPCCA(n_modes=2)
    log = []
    for kind in ("preprocessor", "pca", "whitener"):
        setattr(m, kind + "1", Stage(kind, "X", log))
        setattr(m, kind + "2", Stage(kind, "Y", log))
    calls = {}

    def fit_alg(X, Y):
        calls["fit"] = (X, Y)
        return m

    def tr_alg(X=None, Y=None, **kw):
        calls["transform"] = (X, Y, kw)
        return {k: v.through(("algorithm", k, "transform")) for k, v in (("X", X), ("Y", Y)) if v is not None}

    def inv_alg(X=None, Y=None):
        calls["inverse"] = (X, Y)
        return {k: v.through(("algorithm", k, "inverse")) for k, v in (("X", X), ("Y", Y)) if v is not None}

    def pred_alg(X, **kw):
        return Flow("Ypred", X.hist + (("algorithm", "X->Y", "predict"),))
    m._fit_algorithm, m._transform_algorithm, m._inverse_transform_algorithm, m._predict_algorithm = fit_alg, tr_alg, inv_alg, pred_alg
    m._get_components = lambda **kw: (Flow("Px"), Flow("Py"))
    m._get_scores = lambda **kw: (Flow("Rx"), Flow("Ry"))
    m._post_compute = lambda: None
    return m, log, calls


def _fwd(f, method):
    return tuple((k, f, method) for k in ("preprocessor", "pca", "whitener"))


def _bwd(f, method):
    return tuple((k, f, method) for k in ("whitener", "pca", "preprocessor"))


def obligations(agg, which=("fit", "transform", "inverse_transform", "predict", "components", "scores")):
    def vc(method, clause, ok, detail=""):
        agg.vc(f"{FN}.{method}", clause, struct_vc(bool(ok), str(detail)[:300]))

    def guard(method, f):
        try:
            return f()
        except Exception as e:  # noqa: BLE001
            vc(method, "runs on recorder stages", False, f"{type(e).__name__}: {e}")
            return None

    if "fit" in which:
        m, log, calls = _model()
        r = guard("fit", lambda: m.fit(Flow("X"), Flow("Y"), "time", weights_X=Flow("wX"), weights_Y=Flow("wY")))
        if r is not None:
            X, Y = calls.get("fit", (None, None))
            vc("fit", "the algorithm is fitted on field X after preprocessor1, pca1, whitener1 and on field Y after preprocessor2, pca2, whitener2 (each fitted on its own field)",
               X is not None and X.origin == "X" and X.hist == _fwd("X", "fit_transform") and Y.origin == "Y" and Y.hist == _fwd("Y", "fit_transform"), (X, Y))
            w = {(e[1]): e[4] for e in log if e[0] == "preprocessor" and e[2] == "fit_transform"}
            vc("fit", "sample dims and the per-field weights reach the field's own preprocessor", w.get("X") == (("time",), "wX") and w.get("Y") == (("time",), "wY"), w)
    if "transform" in which:
        for given in (("X", "Y"), ("X",), ("Y",)):
            m, log, calls = _model()
            kw = {f: Flow(f + "new") for f in given}
            r = guard("transform", lambda: m.transform(**kw))
            if r is None:
                continue
            outs = [r] if len(given) == 1 else list(r)
            ok = len(outs) == len(given)
            for f, o in zip(given, outs):
                want = _fwd(f, "transform") + (("algorithm", f, "transform"),) + _bwd(f, "inverse_transform_scores_unseen")
                ok = ok and isinstance(o, Flow) and o.origin == f + "new" and o.hist == want
            vc("transform", "each given field goes preprocessor -> PCA -> whitener of its own chain, through the algorithm, and back through the unseen-sample inverses of its own chain in reverse order; results in the order X, Y",
               ok, outs)
    if "inverse_transform" in which:
        for given in (("X", "Y"), ("X",), ("Y",)):
            m, log, calls = _model()
            kw = {f: Flow("scores" + f) for f in given}
            r = guard("inverse_transform", lambda: m.inverse_transform(**kw))
            if r is None:
                continue
            outs = [r] if len(given) == 1 else list(r)
            ok = len(outs) == len(given)
            for f, o in zip(given, outs):
                want = (("algorithm", f, "inverse"),) + _bwd(f, "inverse_transform_data")
                ok = ok and isinstance(o, Flow) and o.origin == "scores" + f and o.hist == want
            vc("inverse_transform", "each given score set is mapped back by the algorithm and then by whitener, PCA and preprocessor of its own field (data inverses, in that order)", ok, outs)
    if "predict" in which:
        m, log, calls = _model()
        r = guard("predict", lambda: m.predict(Flow("Xnew")))
        if r is not None:
            want = _fwd("X", "transform") + (("algorithm", "X->Y", "predict"),) + _bwd("Y", "inverse_transform_scores_unseen")
            vc("predict", "X goes through its own chain forwards, the prediction comes back through the Y chain's unseen-sample inverses", isinstance(r, Flow) and r.hist == want, r)
    for meth, src, inv in (("components", ("Px", "Py"), "inverse_transform_components"), ("scores", ("Rx", "Ry"), "inverse_transform_scores")):
        if meth not in which:
            continue
        m, log, calls = _model()
        r = guard(meth, lambda: getattr(m, meth)())
        if r is not None:
            ok = len(r) == 2 and all(isinstance(o, Flow) for o in r) and r[0].origin == src[0] and r[0].hist == _bwd("X", inv) \
                and r[1].origin == src[1] and r[1].hist == _bwd("Y", inv)
            vc(meth, f"the X and Y results go back through whitener, PCA and preprocessor of their own field ({inv}), returned in the order X, Y", ok, r)

"""Shared pieces of the sidecar contracts: the SVD_k contract of Decomposer.fit (used as the goal
when Decomposer.fit itself is verified and as the callee stub when its callers are verified),
standard facade sets, and helpers to aggregate per-path verification conditions into obligations."""
import collections

import z3

from ..sym import lib
from ..sym import terms as tm
from ..sym.core import (FloatFacade, IntFacade, PNum, Unsupported, assume, ctx, explore, patched_globals,
                        sym_max, sym_min, sym_range, use_ctx, PathLimit)
from ..sym.prove import prove_eq, prove_scalar
from ..sym.terms import fresh, named_ext
from ..sym.xda import NPFacade, SymDA, XRFacade, mk_da

S, F = "§S", "§F"       # fresh, otherwise meaningless dimension names (DESIGN.md 3.3)


class Tok:
    def __init__(self, q):
        self.__qualname__ = q
        self.__name__ = q


def svdk_clauses(X, U, s, V, k):
    """SVD_k: the contract of Decomposer.fit on the 2-d matrix X (dims sample x feature)"""
    return {
        "UhU=I": (tm.mul(tm.H(U), U), tm.I(k)),
        "VhV=I": (tm.mul(tm.H(V), V), tm.I(k)),
        "XV=Us": (tm.mul(X, V), tm.mul(U, s)),
        "XhU=Vs": (tm.mul(tm.H(X), U), tm.mul(V, s)),
    }


class DecomposerStub:
    """call-site stand-in for xeofs.linalg.decomposer.Decomposer generated from SVD_k"""
    calls = []
    positive = False      # contracts that divide by the singular values add the precondition s > 0

    def __init__(self, **kw):
        self.kw = kw
        DecomposerStub.calls.append(("init", dict(kw)))
        ctx().events.append(("call", {"callee": "Decomposer.__init__", "kwargs": dict(kw)}))

    def fit(self, X, dims=("sample", "feature")):
        c = ctx()
        c.events.append(("call", {"callee": "Decomposer.fit", "dims": tuple(dims), "lazy_in": X.lazy}))
        if not isinstance(X, SymDA) or set(X.dims) != set(dims):
            raise ValueError(f"Decomposer.fit: data dims {getattr(X, 'dims', None)} do not match {dims}")
        Xt = X.transpose(*dims)
        n, p = Xt._ext[dims[0]], Xt._ext[dims[1]]
        nm = self.kw.get("n_modes")
        tag = fresh("dec")
        if type(nm) is PNum and nm.z.sort() == z3.IntSort():
            # precondition of Decomposer.fit (otherwise it raises): 1 <= k <= min(n, p)
            if not (nm >= 1):
                raise ValueError("If integer, n_modes must be greater than 0")
            if not (nm <= PNum(n.z) and nm <= PNum(p.z)):
                raise ValueError("n_modes must be less than or equal to the rank of the dataset")
            k = tm.ext_of(nm.z)
        else:
            k = named_ext(f"k.{tag}")
            assume(k.z >= 1)
            assume(k.z <= n.z)
            assume(k.z <= p.z)
        pr = () if X.cplx else ("real",)
        from ..sym.core import decide
        # a square matrix with orthonormal columns is unitary (finite dimension)
        U = tm.sym(f"U.{tag}", n, k, pr + (("unit", "inv") if decide(k.z == n.z) else ()))
        s = tm.sym(f"s.{tag}", k, k, ("diag", "real", "herm", "nonneg") + (("pos", "inv") if self.positive else ()))
        V = tm.sym(f"V.{tag}", p, k, pr + (("unit", "inv") if decide(k.z == p.z) else ()))
        for name, (l, r) in svdk_clauses(Xt.term, U, s, V, k).items():
            c.hyps.append((l, r, "SVD_k:" + name))
        # full-rank clauses of SVD_k (proved for Decomposer.fit under C01): the factor whose size equals k is unitary
        full = False
        if decide(k.z == p.z):
            c.hyps.append((tm.mul(V, tm.H(V)), tm.I(p), "SVD_k: V V^H = I when k = n_features"))
            full = True
        if decide(k.z == n.z):
            c.hyps.append((tm.mul(U, tm.H(U)), tm.I(n), "SVD_k: U U^H = I when k = n_samples"))
            full = True
        if full:
            c.hyps.append((Xt.term, tm.mul(tm.mul(U, s), tm.H(V)), "SVD_k: X = U s V^H when all modes are kept", "lr"))
        lazy = X.lazy and not self.kw.get("compute", True)
        cm = ("range", "1", k.name)
        self.U_ = SymDA(U, (dims[0], "mode"), {dims[0]: n, "mode": k}, {dims[0]: Xt._cid.get(dims[0]), "mode": cm},
                        X.cplx, lazy, name="U")
        self.s_ = SymDA(s, ("mode",), {"mode": k}, {"mode": cm}, False, lazy, name="s", tags=("desc", "nonneg"))
        self.V_ = SymDA(V, (dims[1], "mode"), {dims[1]: p, "mode": k}, {dims[1]: Xt._cid.get(dims[1]), "mode": cm},
                        X.cplx, lazy, name="V")
        self.X_ = Xt


def std_names(xrf=None, npf=None, **extra):
    xrf = xrf or XRFacade()
    npf = npf or NPFacade()
    names = {"np": npf, "xr": xrf, "int": IntFacade, "float": FloatFacade, "range": sym_range,
             "min": sym_min, "max": sym_max}
    names.update(extra)
    return names, xrf, npf


class Agg:
    """aggregates per-path / per-config verification conditions into obligations keyed by id"""

    def __init__(self, res, prop):
        self.res = res
        self.prop = prop
        self.d = collections.OrderedDict()

    def vc(self, function, clause, r, config=""):
        oid = f"{self.prop}.{function}.{clause}" + (f"[{config}]" if config else "")
        e = self.d.setdefault(oid, {"function": function, "clause": clause, "n": 0, "bad": [], "t": 0.0,
                                    "backend": set(), "undecided": False})
        e["n"] += 1
        e["t"] += r.get("time_s", 0.0)
        e["backend"].add(r.get("backend", ""))
        if r["status"] != "discharged":
            e["bad"].append(r.get("residue", "")[:300])
            if r["status"] == "undecided":
                e["undecided"] = True
        return r["status"] == "discharged"

    def flush(self, sig=None):
        for oid, e in self.d.items():
            st = "discharged" if not e["bad"] else ("undecided" if e["undecided"] else "failed")
            self.res.ob(oid, e["function"], e["clause"], st, "+".join(sorted(b for b in e["backend"] if b)),
                        e["t"], "; ".join(e["bad"][:2]), e["n"], sig)
        self.d.clear()


def struct_vc(ok, detail=""):
    return {"status": "discharged" if ok else "failed", "backend": "structural", "time_s": 0.0,
            "residue": "" if ok else detail}

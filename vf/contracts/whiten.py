"""Contracts around Whitener / PCA / _fractional_matrix_power / _SVD (C16, C03, C09)."""
import z3

import xeofs.linalg._numpy._svd as svdmod
import xeofs.linalg._numpy._utils as utilmod
import xeofs.preprocessing.whitener as whmod
import xeofs.preprocessing.pca as pcamod
import xeofs.utils.sanity_checks as scmod

from ..sym import terms as tm
from ..sym import xda
from ..sym.core import PNum, assume, ctx, explore, patched_globals
from ..sym.nd import SymND, passthrough
from ..sym.terms import fresh, named_ext
from ..sym.xda import SymDA, mk_da
from .common import F, S, std_names, Tok

n, p = named_ext("n"), named_ext("p")


def nd_sign_multiplier(data, axis):
    """contract of xeofs.linalg._numpy._svd.get_deterministic_sign_multiplier (entries +-1)"""
    ctx().events.append(("call", {"callee": "_numpy.get_deterministic_sign_multiplier", "axis": axis}))
    if not isinstance(data, SymND) or data.nd != 2 or axis != 0:
        from ..sym.terms import Unsupported
        raise Unsupported("sign multiplier on this argument")
    k = data.term.cols
    d = tm.sym(fresh("sign"), k, k, ("diag", "real", "herm", "unit", "inv"))
    return SymND(d, 1, False, data.lazy)


def kernel_names():
    names, xrf, npf = std_names(get_deterministic_sign_multiplier=nd_sign_multiplier, wait_on=lambda *a: a,
                                randomized_svd=Tok("randomized_svd"), complex_svd=Tok("complex_svd"),
                                dask_svd=Tok("dask_svd"))
    return names, xrf, npf


def trace_whitener_kernel(cplx, alpha_mode):
    """real Whitener.__init__ + _compute_whitener_transform_numpy -> _fractional_matrix_power -> _SVD.fit_transform
    alpha_mode: 'sym' (alpha symbolic in [0,1)), 'zero'"""
    names, xrf, npf = kernel_names()

    def run():
        assume(n.z >= 2)
        assume(p.z >= 1)
        assume(n.z > p.z)
        if alpha_mode == "zero":
            alpha = 0
        else:
            alpha = PNum(z3.Real("alpha"))
            assume(alpha.z >= 0)
            assume(alpha.z <= 1 - z3.RealVal("1/1000000"))       # alpha = 1 is the identity branch (separate clause)
        w = whmod.Whitener(alpha=alpha, sample_name=S, feature_name=F)
        X = SymND(tm.sym("X", n, p, () if cplx else ("real",)), 2, cplx)
        C = tm.smul(1 / tm.rv(n.z), tm.mul(tm.H(X.term), X.term))
        ctx().notes["posdef"] = [C]          # precondition: X has full column rank (n > p)
        T, Tinv = w._compute_whitener_transform_numpy(X)
        return w, X, C, T, Tinv, alpha

    with patched_globals([whmod, utilmod, svdmod, scmod], names):
        return explore(run, maxpaths=64)


def whitener_with_contract(cplx, pe, identity=False, tag="w"):
    """a real Whitener object whose fitted state (T, Tinv) is symbolic and constrained only by the
    contract of Whitener.fit: T, Tinv Hermitian and mutually inverse; dims (feature, mode)/(mode, feature)"""
    w = whmod.Whitener.__new__(whmod.Whitener)
    return w


def trace_whitener_methods(cplx):
    names, xrf, npf = std_names()
    xrf.ufuncs = {}

    def run():
        assume(n.z >= 2)
        assume(p.z >= 1)
        alpha = PNum(z3.Real("alpha"))
        assume(alpha.z >= 0)
        assume(alpha.z <= 1 - z3.RealVal("1/1000000"))
        w = whmod.Whitener(alpha=alpha, sample_name=S, feature_name=F)
        pr = () if cplx else ("real",)
        Tt = tm.sym("T", p, p, pr + ("herm", "inv"))
        Ti = tm.inv(Tt)
        cf = ("in", "X", F)
        w.T = SymDA(Tt, (F, "mode"), {F: p, "mode": p}, {F: cf, "mode": cf}, cplx, owner="whitener")
        w.Tinv = SymDA(Ti, ("mode", F), {"mode": p, F: p}, {"mode": cf, F: cf}, cplx, owner="whitener")
        w.n_samples = PNum(n.z)
        X = mk_da("X", (S, F), (n, p), cplx=cplx)
        k = named_ext("k")
        assume(k.z >= 1)
        P = mk_da("P", (F, "mode"), (p, k), cplx=cplx, cid={F: cf, "mode": ("range", "1", "k")})
        out = {"w": w, "X": X, "P": P, "T": Tt}
        out["Xw"] = w.transform(X)
        out["Xback"] = w.inverse_transform_data(out["Xw"])
        out["Pw"] = w.transform_components(P)
        out["Pback"] = w.inverse_transform_components(out["Pw"])
        out["Pi"] = w.inverse_transform_components(P)
        out["Pi_back"] = w.transform_components(out["Pi"])
        out["scores_id"] = w.inverse_transform_scores(X) is X and w.inverse_transform_scores_unseen(X) is X
        return out

    with patched_globals([whmod, scmod], names):
        return explore(run, maxpaths=16)


def trace_pca_methods(cplx):
    names, xrf, npf = std_names()

    def run():
        assume(n.z >= 2)
        assume(p.z >= 1)
        k = named_ext("kp")
        assume(k.z >= 1)
        assume(k.z <= p.z)
        assume(k.z <= n.z)
        pc = pcamod.PCA(n_modes=PNum(k.z), sample_name=S, feature_name=F)
        pr = () if cplx else ("real",)
        Vt = tm.sym("Vp", p, k, pr)
        ctx().hyps.append((tm.mul(tm.H(Vt), Vt), tm.I(k), "PCA.fit contract: V^H V = I"))
        cf = ("in", "X", F)
        pc.V = SymDA(Vt, (F, "mode"), {F: p, "mode": k}, {F: cf, "mode": ("range", "1", k.name)}, cplx, owner="pca")
        X = mk_da("X", (S, F), (n, p), cplx=cplx)
        m = named_ext("m")
        assume(m.z >= 1)
        Q = mk_da("Q", (F, "mode"), (k, m), cplx=cplx, cid={F: ("range", "1", k.name), "mode": ("range", "1", "m")})
        Y = mk_da("Y", (S, F), (n, k), cplx=cplx, cid={S: X._cid[S], F: ("range", "1", k.name)})
        out = {"pc": pc, "X": X, "V": Vt, "Q": Q, "Y": Y, "k": k}
        out["Xp"] = pc.transform(X)
        out["Yback"] = pc.transform(pc.inverse_transform_data(Y))
        out["Xrec"] = pc.inverse_transform_data(out["Xp"])
        out["Qfull"] = pc.inverse_transform_components(Q)
        out["Qback"] = pc.transform_components(out["Qfull"])
        return out

    with patched_globals([pcamod, scmod], names):
        return explore(run, maxpaths=16)

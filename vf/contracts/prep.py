"""Tracing of the real Preprocessor chain (Scaler, DimensionRenamer, MultiIndexConverter, Stacker, MultiIndexConverter,
Sanitizer through GenericListTransformer, then Concatenator) on structural proxies (domain L)."""
import importlib

import xeofs.preprocessing.scaler as scmod_
from xeofs.preprocessing.preprocessor import Preprocessor

from ..sym import ldom
from ..sym.core import explore, ctx
from ..sym.ldom import LDA, LCoord, CoordId, mk_input
from ..sym.terms import named_ext

MODS = ["xeofs.preprocessing.scaler", "xeofs.preprocessing.dimension_renamer", "xeofs.preprocessing.multi_index_converter",
        "xeofs.preprocessing.stacker", "xeofs.preprocessing.sanitizer", "xeofs.preprocessing.concatenator",
        "xeofs.preprocessing.preprocessor", "xeofs.preprocessing.list_processor", "xeofs.utils.xarray_utils",
        "xeofs.utils.sanity_checks", "xeofs.preprocessing.transformer"]


class Patched:
    def __enter__(self):
        self.saved = []
        rep = {"xr": ldom.XRL(), "np": ldom.NPL(), "dask": ldom.DaskL(), "compute": ldom.compute_l, "pd": ldom.PDL(), "range": ldom.range_l}
        for m in MODS:
            mod = importlib.import_module(m)
            for k, v in rep.items():
                if k in mod.__dict__ or k == "range":
                    self.saved.append((mod, k, mod.__dict__.get(k), k in mod.__dict__))
                    mod.__dict__[k] = v
        self.old_ones = scmod_.feature_ones_like
        scmod_.feature_ones_like = ones_stub
        self.old_cos = scmod_.compute_sqrt_cos_lat_weights
        scmod_.compute_sqrt_cos_lat_weights = coslat_stub
        return self

    def __exit__(self, *a):
        scmod_.feature_ones_like = self.old_ones
        scmod_.compute_sqrt_cos_lat_weights = self.old_cos
        for mod, k, old, had in reversed(self.saved):
            if had:
                mod.__dict__[k] = old
            else:
                mod.__dict__.pop(k, None)


def ones_stub(data, feature_dims):
    """contract of feature_ones_like: ones over the feature dims of `data`, with its coordinates"""
    fd = [d for d in data.dims if d in feature_dims]
    return LDA(("ones",), fd, {d: data._ext[d] for d in fd}, {d: data._coords[d] for d in fd}, False, "fresh")


def coslat_stub(data, feature_dims):
    """contract of compute_sqrt_cos_lat_weights: a positive weight per latitude, over the (unique) latitude dim"""
    lat = [d for d in feature_dims if d in ("lat", "latitude", "lats", "Lat", "Latitude", "Lats", "LAT", "LATITUDE", "LATS")]
    if len(lat) != 1:
        raise ValueError("No latitude coordinate was found to compute coslat weights." if not lat else "Found ambiguous latitude dimensions")
    d = lat[0]
    return LDA(("coslat",), (d,), {d: data._ext[d]}, {d: data._coords[d]}, False, "fresh")


def scores_like(T, name, S="§S"):
    k = named_ext("k")
    return LDA(("in", name), (S, "mode"), {S: T._ext[S], "mode": k},
               {S: T._coords[S], "mode": LCoord("mode", CoordId("modes"), k)})


def snapshot(p):
    """{attribute path: value key} of the preprocessor and every transformer below it (frame conditions)"""
    import z3
    from xeofs.preprocessing.list_processor import GenericListTransformer
    from xeofs.preprocessing.transformer import Transformer
    from ..sym.core import PNum
    out = {}

    def key(v):
        if type(v) is LDA:
            return ("LDA", repr(v.val), tuple(v.dims), tuple((d, repr(c.cid.key)) for d, c in sorted(v._coords.items())))
        if type(v) is LCoord:
            return ("LCoord", repr(v.cid.key))
        if isinstance(v, dict):
            return ("dict", tuple((str(k), key(x)) for k, x in v.items()))
        if isinstance(v, (list, tuple)):
            return (type(v).__name__, tuple(key(x) for x in v))
        if type(v) is PNum:
            return ("PNum", str(z3.simplify(v.z)))
        if isinstance(v, (str, int, float, bool, type(None))):
            return v
        try:
            import xarray as xr
            if isinstance(v, xr.DataArray):
                return ("DataArray", v.name, tuple(v.dims))
        except Exception:  # noqa: BLE001
            pass
        return ("obj", type(v).__name__)

    def walk(obj, path):
        for a, v in sorted(vars(obj).items()):
            if isinstance(v, GenericListTransformer):
                out[f"{path}.{a}.len"] = len(v.transformers)
                for i, t in enumerate(v.transformers):
                    walk(t, f"{path}.{a}[{i}]")
            elif isinstance(v, Transformer):
                walk(v, f"{path}.{a}")
            else:
                out[f"{path}.{a}"] = key(v)
    walk(p, "preprocessor")
    return out


def trace_chain(check_nans=True, lazy=False, compute=True, newdata=None, sample=("time",), feature=("lat", "lon"), order=None,
                with_center=True, with_std=False, multiindex=(), maxpaths=96, refit=False):
    S, F = "§S", "§F"

    def run():
        p = Preprocessor(sample_name=S, feature_name=F, with_center=with_center, with_std=with_std, check_nans=check_nans, compute=compute)
        X = mk_input("X", sample, feature, lazy=lazy, order=order, multiindex=multiindex)
        c = ctx()
        X2 = p.fit_transform(X, tuple(sample))
        out = {"X": X, "fit2D": X2, "events_fit": list(c.events), "p": p, "state_fit": snapshot(p)}
        c.events.clear()
        Xn = newdata() if newdata else mk_input("Xnew", sample, feature, lazy=lazy, order=order, multiindex=multiindex)
        out["Xnew"] = Xn
        T = p.transform(Xn)
        out["new2D"] = T
        out["state_transform"] = snapshot(p)
        out["events_transform"] = list(c.events)
        c.events.clear()
        out["unseen"] = p.inverse_transform_scores_unseen(scores_like(T, "S_new"))
        out["fitscores"] = p.inverse_transform_scores(scores_like(X2, "S_fit"))
        out["back"] = p.inverse_transform_data(X2)
        comps = LDA(("in", "P"), (F, "mode"), {F: X2._ext[F], "mode": named_ext("k")},
                    {F: X2._coords[F], "mode": LCoord("mode", CoordId("modes"), named_ext("k"))})
        out["comps"] = p.inverse_transform_components(comps)
        out["events_inverse"] = list(c.events)
        out["ntransformers"] = len(p.scaler.transformers)
        out["state_end"] = snapshot(p)
        return out

    with Patched():
        return explore(run, maxpaths=maxpaths)

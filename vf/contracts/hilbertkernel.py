"""Contract of xeofs.utils.hilbert_transform._hilbert_transform_with_padding (and _pad_exp), traced on a small
row-block algebra: an array is a vertical stack of blocks, each block a linear combination of named row sets over an
index range [a, b) whose ends are affine in the symbolic sample count n.  The real functions are run as they are; `np`,
`hilbert` are replaced by facades with these contracts:
  scipy.signal.hilbert(z, axis=0) = z + i Hi(z)      (the analytic signal keeps its argument as real part)
  np.polynomial.polynomial.polyfit / polyval          (opaque fit; polyval over a range splits with the range)
  np.take / np.exp / broadcasting products            (opaque)
Proved for every n >= 1: the padded array's middle third is the input itself, so
  Re(result) = y - mean_rows(y)   and   Im(result) = Hi(padded)[n:2n] - its row mean,
with or without padding.  What Hi is (spectral accuracy of the padding) is not a contract matter."""
import collections

import xeofs.utils.hilbert_transform as hmod

from ..sym.terms import Unsupported
from .common import struct_vc


def aff(c, k=0):
    """index c*n + k"""
    return (c, k)


class Blk:
    """rows [lo, hi) of a stacked array; value = {atom: coefficient} over row sets aligned with this block"""

    def __init__(self, lo, hi, val):
        self.lo, self.hi, self.val = lo, hi, {k: v for k, v in val.items() if v != 0}

    def length(self):
        return (self.hi[0] - self.lo[0], self.hi[1] - self.lo[1])


def _comb(a, b, sa=1, sb=1):
    out = collections.Counter()
    for k, v in a.items():
        out[k] += sa * v
    for k, v in b.items():
        out[k] += sb * v
    return {k: v for k, v in out.items() if v != 0}


class Arr:
    """2-d array (rows x features) as a stack of blocks, complex part kept separately"""

    def __init__(self, blocks, imag=None, transposed=False):
        self.blocks, self.imag, self.transposed = blocks, imag, transposed

    @property
    def shape(self):
        n = (sum(b.length()[0] for b in self.blocks), sum(b.length()[1] for b in self.blocks))
        return (Len(n), Len((0, 0), "features"))

    @property
    def T(self):
        return Arr(self.blocks, self.imag, not self.transposed)

    def _zip(self, o, sa, sb):
        if not isinstance(o, Arr) or self.transposed != o.transposed:
            raise Unsupported("array combination")
        if [(b.lo, b.hi) for b in self.blocks] != [(b.lo, b.hi) for b in o.blocks]:
            if [b.length() for b in self.blocks] != [b.length() for b in o.blocks]:
                raise Unsupported(f"adding arrays with different block structure {[(b.lo, b.hi) for b in self.blocks]} vs {[(b.lo, b.hi) for b in o.blocks]}")
        return Arr([Blk(a.lo, a.hi, _comb(a.val, b.val, sa, sb)) for a, b in zip(self.blocks, o.blocks)],
                   None if self.imag is None and o.imag is None else "combined")

    def __add__(self, o):
        return self._zip(o, 1, 1)

    __iadd__ = __add__

    def __sub__(self, o):
        if isinstance(o, RowMean):
            if self.imag is not None and o.of is self:
                return Arr([Blk(b.lo, b.hi, _comb(b.val, {("rowmean", _key(self)): 1}, 1, -1)) for b in self.blocks], ("minus-own-mean", self.imag))
            return Arr([Blk(b.lo, b.hi, _comb(b.val, {("rowmean", _key(o.of)): 1}, 1, -1)) for b in self.blocks], self.imag)
        return self._zip(o, 1, -1)

    def mean(self, axis=None):
        if axis != 0:
            raise Unsupported("mean along another axis")
        return RowMean(self)

    def __getitem__(self, k):
        if type(k) is slice and k.step is None and isinstance(k.start, Len) and isinstance(k.stop, Len):
            lo, hi = k.start.v, k.stop.v
            # positions are relative to the first row of the stack
            base = self.blocks[0].lo
            pos = base
            out = []
            for b in self.blocks:
                ln = b.length()
                rel_lo, rel_hi = (pos[0] - base[0], pos[1] - base[1]), (pos[0] - base[0] + ln[0], pos[1] - base[1] + ln[1])
                if rel_lo == lo and rel_hi == hi:
                    out.append(b)
                pos = (pos[0] + ln[0], pos[1] + ln[1])
            if len(out) != 1:
                raise Unsupported(f"slice [{lo}:{hi}] is not exactly one block of {[(b.lo, b.hi) for b in self.blocks]}")
            return Arr(out, self.imag if self.imag is None else ("rows", lo, hi, self.imag))
        raise Unsupported(f"index {k!r}")


def _key(a):
    return tuple((b.lo, b.hi, tuple(sorted(b.val.items()))) for b in a.blocks)


class RowMean:
    def __init__(self, of):
        self.of = of


class Len:
    """an integer affine in n"""

    def __init__(self, v, what="rows"):
        self.v, self.what = v, what

    def __mul__(self, o):
        if isinstance(o, int):
            return Len((self.v[0] * o, self.v[1] * o))
        return NotImplemented

    __rmul__ = __mul__

    def __neg__(self):
        return Len((-self.v[0], -self.v[1]))

    def __add__(self, o):
        if isinstance(o, int):
            return Len((self.v[0], self.v[1] + o))
        if isinstance(o, Len):
            return Len((self.v[0] + o.v[0], self.v[1] + o.v[1]))
        return NotImplemented

    __radd__ = __add__

    def __sub__(self, o):
        return self + (-o)


class Range:
    def __init__(self, lo, hi):
        self.lo, self.hi = lo, hi

    @property
    def size(self):
        return Len((self.hi[0] - self.lo[0], self.hi[1] - self.lo[1]))

    def __truediv__(self, o):
        return Opaque("range/scalar")

    def __neg__(self):
        return Opaque("-range")


class Opaque:
    """anything whose value the contract does not depend on (amplitudes, exponentials, products of them)"""

    def __init__(self, why, rows=None):
        self.why, self.rows = why, rows

    def __getitem__(self, k):
        return Opaque(self.why + "[]", self.rows)

    def __mul__(self, o):
        return Opaque("product", getattr(o, "rows", None) or self.rows)

    __rmul__ = __mul__
    __truediv__ = __mul__
    __rtruediv__ = __mul__

    def __neg__(self):
        return Opaque("neg", self.rows)

    @property
    def T(self):
        return Opaque(self.why + ".T", self.rows)


class _Poly:
    class polynomial:
        @staticmethod
        def polyfit(x, y, deg=1):
            return ("coefs", _key(y))

        @staticmethod
        def polyval(x, coefs):
            if not isinstance(x, Range):
                raise Unsupported("polyval on a non-range")
            # the value over a range is the stack of its values over any split of the range; split at the multiples of n
            cuts = [x.lo] + [c for c in ((0, 0), (1, 0)) if x.lo[0] * 1000 + x.lo[1] < c[0] * 1000 + c[1] < x.hi[0] * 1000 + x.hi[1]] + [x.hi]
            return Arr([Blk(a, b, {("fit", coefs, a, b): 1}) for a, b in zip(cuts, cuts[1:])], transposed=True)


class NPH:
    polynomial = _Poly

    def __init__(self, n):
        self.n = n

    def arange(self, a, b=None):
        if b is None:
            a, b = Len((0, 0)), a
        a = a if isinstance(a, Len) else Len((0, int(a)))
        b = b if isinstance(b, Len) else Len((0, int(b)))
        return Range(a.v, b.v)

    def take(self, a, idx, axis=0):
        return Opaque("take")

    def exp(self, x):
        return Opaque("exp", rows=((0, 0), (1, 0)))

    def concatenate(self, parts, axis=0):
        if axis != 0:
            raise Unsupported("concatenate axis")
        blocks = []
        pos = None
        for i, prt in enumerate(parts):
            if isinstance(prt, Arr):
                if prt.transposed:
                    raise Unsupported("concatenating a transposed array")
                blocks += prt.blocks
            elif isinstance(prt, Opaque):
                blocks.append(("opaque", i))
            else:
                raise Unsupported(f"concatenate part {type(prt).__name__}")
        # opaque pads have n rows each (one row per entry of exp_ext); place them around the known block
        known = [b for b in blocks if isinstance(b, Blk)]
        if len(known) != 1 or len(blocks) != 3 or not isinstance(blocks[1], Blk):
            raise Unsupported("concatenate layout")
        mid = known[0]
        n1 = mid.length()
        pre = Blk((mid.lo[0] - n1[0], mid.lo[1] - n1[1]), mid.lo, {("pad", 0): 1})
        post = Blk(mid.hi, (mid.hi[0] + n1[0], mid.hi[1] + n1[1]), {("pad", 2): 1})
        return Arr([pre, mid, post])

    def __getattr__(self, k):
        raise Unsupported("np." + k)


def _hilbert(z, axis=0):
    if axis != 0 or not isinstance(z, Arr) or z.imag is not None:
        raise Unsupported("hilbert variant")
    return Arr(z.blocks, ("Hi", _key(z)))


def obligations(agg):
    fn = "_hilbert_transform_with_padding"
    for padding in ("exp", None):
        cfg = f"padding={padding!r}"
        y = Arr([Blk((0, 0), (1, 0), {("y",): 1})])
        old = (hmod.np, hmod.hilbert)
        hmod.np, hmod.hilbert = NPH(None), _hilbert
        try:
            try:
                out = hmod._hilbert_transform_with_padding(y, padding=padding, decay_factor=0.2)
            finally:
                hmod.np, hmod.hilbert = old
        except Unsupported as e:
            agg.vc(fn, "within-supported-subset", {"status": "undecided", "residue": str(e)}, cfg)
            continue
        except Exception as e:  # noqa: BLE001
            agg.vc(fn, "runs on every input length", struct_vc(False, f"{type(e).__name__}: {e}"), cfg)
            continue
        ok_rows = isinstance(out, Arr) and len(out.blocks) == 1 and out.blocks[0].length() == (1, 0)
        agg.vc(fn, "the result has as many rows as the input (the padding is removed again)", struct_vc(ok_rows, str([(b.lo, b.hi) for b in getattr(out, "blocks", [])])), cfg)
        if ok_rows:
            val = out.blocks[0].val
            want = {("y",): 1}
            mean_keys = [k for k in val if k[0] == "rowmean"]
            core = {k: v for k, v in val.items() if k[0] != "rowmean"}
            agg.vc(fn, "real part = the input minus its mean over the samples (for every length, with or without padding)",
                   struct_vc(core == want and len(mean_keys) == 1 and val[mean_keys[0]] == -1, str(val)[:300]), cfg)
            ok_mean = False
            if len(mean_keys) == 1:
                # the mean that is subtracted is the mean of the cropped signal itself, whose real part is y
                ((lo, hi, items),) = mean_keys[0][1]
                ok_mean = dict(items) == want and (hi[0] - lo[0], hi[1] - lo[1]) == (1, 0)
            agg.vc(fn, "the mean removed is that of the cropped signal itself", struct_vc(ok_mean, str(mean_keys)[:300]), cfg)
            im = out.imag
            ok_im = isinstance(im, tuple) and im[0] == "minus-own-mean"
            if padding == "exp":
                ok_im = ok_im and im[1][0] == "rows" and im[1][1] == (1, 0) and im[1][2] == (2, 0)
            agg.vc(fn, "imaginary part = the Hilbert transform of the (padded) series, cropped to the input's rows, minus its mean", struct_vc(ok_im, str(im)[:200]), cfg)

"""Tracing of the real EOFRotator against the contracts of its callees (promax, Decomposer, argsort, sign)."""
import z3

import xeofs
import xeofs.single.eof as eofmod
import xeofs.single.eof_rotator as rotmod
import xeofs.utils.sanity_checks as scmod
import xeofs.utils.xarray_utils as xumod

from ..sym import lib
from ..sym.core import PNum, assume, ctx, explore, patched_globals
from ..sym.terms import named_ext
from ..sym.xda import mk_da
from .common import DecomposerStub, F, S, std_names

n, p = named_ext("n"), named_ext("p")


class PosDecomposer(DecomposerStub):
    positive = True        # the rotator divides by the retained singular values: precondition s > 0


def trace_eof_rotator(power, cplx, post_compute=True, lazy=False):
    names, xrf, npf = std_names(Decomposer=PosDecomposer, promax=lib.promax_stub(power), argsort_dask=lib.argsort_dask,
                                get_deterministic_sign_multiplier=lib.sign_multiplier)
    xrf.ufuncs = {npf.linalg.inv: lib.ufunc_inv, npf.linalg.pinv: lib.ufunc_pinv}

    def run():
        assume(n.z >= 2)
        assume(p.z >= 1)
        cls = xeofs.single.ComplexEOF if cplx else xeofs.single.EOF
        m = cls(n_modes=PNum(z3.Int("k0")), sample_name=S, feature_name=F, compute=not lazy)
        X = mk_da("X", (S, F), (n, p), cplx=cplx, owner="caller", lazy=lazy)
        eofmod.EOF._fit_algorithm(m, X)
        for v in m.data.values():
            v.owner = "model"
        snapshot = {k: (v.term, v.dims, v.name, dict(v._cid)) for k, v in m.data.items()}
        kr = PNum(z3.Int("kr"))
        assume(kr.z >= 2)
        assume(kr.z <= z3.Int("k0"))
        rcls = xeofs.single.ComplexEOFRotator if cplx else xeofs.single.EOFRotator
        rot = rcls(n_modes=kr, power=power, compute=not lazy)
        ctx().events.clear()
        rot._fit_algorithm(m)
        ev_fit = list(ctx().events)
        pre = {k: v for k, v in rot.data.items()}
        Z0 = rot._transform_algorithm(X)          # before sorting (deferred state)
        out = {"m": m, "rot": rot, "X": X, "ev_fit": ev_fit, "pre": pre, "Z_unsorted": Z0, "snapshot": snapshot}
        if post_compute:
            rot._post_compute()
            out["Z_sorted"] = rot._transform_algorithm(X)
        return out

    with patched_globals([eofmod, rotmod, xumod, scmod], names):
        return explore(run, maxpaths=64)

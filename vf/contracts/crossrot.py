"""Tracing of the real CPCCARotator (_fit_algorithm, _post_compute/_sort_by_variance, transform, and the inherited
CPCCA._inverse_transform_algorithm) against the contracts of its callees: promax (discharged in rotkernel.py), the real
Whitener methods on a fitted whitener (T Hermitian invertible, Tinv = inv(T): contract of Whitener.fit, C16), PCA switched
off (identity) or a fitted PCA, argsort_dask, the sign multiplier, np.linalg.inv / norm.  The base model is represented by its
contract (C09): components Q1, Q2, positive singular values, scores_i = (whitened input_i) Q_i."""
import z3

import xeofs
import xeofs.cross.cpcca as cpmod
import xeofs.cross.cpcca_rotator as crmod
import xeofs.preprocessing.pca as pcamod
import xeofs.preprocessing.whitener as whmod
import xeofs.utils.sanity_checks as scmod
import xeofs.utils.xarray_utils as xumod
from xeofs.data_container import DataContainer

from ..sym import lib
from ..sym import terms as tm
from ..sym.core import PNum, assume, ctx, explore, patched_globals
from ..sym.terms import named_ext
from ..sym.xda import SymDA, mk_da
from .common import S, std_names

F1, F2 = "§F1", "§F2"
n, p1, p2, k0 = named_ext("n"), named_ext("p1"), named_ext("p2"), named_ext("k0")


class IdentPrep:
    """preprocessor under contract: the chain is under contract in C02/C05; here it passes 2-d matrices through"""

    def __init__(self, tag):
        self.tag = tag

    def transform(self, X):
        ctx().events.append(("call", {"callee": f"{self.tag}.transform"}))
        return X

    def inverse_transform_scores_unseen(self, X):
        ctx().events.append(("call", {"callee": f"{self.tag}.inverse_transform_scores_unseen"}))
        return X

    def inverse_transform_scores(self, X):
        ctx().events.append(("call", {"callee": f"{self.tag}.inverse_transform_scores"}))
        return X


def _whitener(cplx, pe, fname, tag, identity):
    w = whmod.Whitener(alpha=1.0 if identity else 0.5, sample_name=S, feature_name=fname)
    if not identity:
        pr = () if cplx else ("real",)
        Tt = tm.sym(f"T{tag}", pe, pe, pr + ("herm", "inv"))
        cf = ("in", f"X{tag}", fname)
        w.T = SymDA(Tt, (fname, "mode"), {fname: pe, "mode": pe}, {fname: cf, "mode": cf}, cplx, owner="whitener")
        w.Tinv = SymDA(tm.inv(Tt), ("mode", fname), {"mode": pe, fname: pe}, {"mode": cf, fname: cf}, cplx, owner="whitener")
    w.n_samples = PNum(n.z)
    return w


q1, q2 = named_ext("q1"), named_ext("q2")       # physical feature counts when a PCA pre-reduction is fitted


def _pca(cplx, qe, pe, fname, tag, on):
    """PCA under the contract of PCA.fit: V (features x PCs) with V^H V = I"""
    pc = pcamod.PCA(n_modes=2, use_pca=on, sample_name=S, feature_name=fname)
    if on:
        Vt = tm.sym(f"Vp{tag}", qe, pe, () if cplx else ("real",))
        ctx().hyps.append((tm.mul(tm.H(Vt), Vt), tm.I(pe), "PCA.fit contract: V^H V = I"))
        pc.V = SymDA(Vt, (fname, "mode"), {fname: qe, "mode": pe}, {fname: ("in", f"X{tag}phys", fname), "mode": ("in", f"X{tag}", fname)}, cplx, owner="pca")
    return pc


class BaseModel:
    """a fitted CPCCA-family model as the rotator sees it"""

    def __init__(self, cplx, identity_whitener, with_pca=False):
        pr = () if cplx else ("real",)
        self.sample_name, self.feature_name = S, (F1, F2)
        self.preprocessor1, self.preprocessor2 = IdentPrep("preprocessor1"), IdentPrep("preprocessor2")
        self.pca1 = _pca(cplx, q1, p1, F1, "1", with_pca)
        self.pca2 = _pca(cplx, q2, p2, F2, "2", with_pca)
        self.whitener1 = _whitener(cplx, p1, F1, "1", identity_whitener)
        self.whitener2 = _whitener(cplx, p2, F2, "2", identity_whitener)
        cm = ("range", "1", "k0")
        c1, c2, cs = ("in", "X1", F1), ("in", "X2", F2), ("in", "X", S)
        Q1, Q2 = tm.sym("Q1", p1, k0, pr), tm.sym("Q2", p2, k0, pr)
        s = tm.sym("s", k0, k0, ("diag", "real", "herm", "nonneg", "pos", "inv"))
        if with_pca:
            # the data the user transforms is physical (n x q); the PCA maps it to the n x p matrix the whitener sees
            self.Xpc1 = SymDA(tm.sym("Xph1", n, q1, pr), (S, F1), {S: n, F1: q1}, {S: cs, F1: ("in", "X1phys", F1)}, cplx, owner="caller")
            self.Xpc2 = SymDA(tm.sym("Xph2", n, q2, pr), (S, F2), {S: n, F2: q2}, {S: cs, F2: ("in", "X2phys", F2)}, cplx, owner="caller")
            r1, r2 = tm.mul(self.Xpc1.term, self.pca1.V.term), tm.mul(self.Xpc2.term, self.pca2.V.term)
        else:
            self.Xpc1 = SymDA(tm.sym("Xpc1", n, p1, pr), (S, F1), {S: n, F1: p1}, {S: cs, F1: c1}, cplx, owner="caller")
            self.Xpc2 = SymDA(tm.sym("Xpc2", n, p2, pr), (S, F2), {S: n, F2: p2}, {S: cs, F2: c2}, cplx, owner="caller")
            r1, r2 = self.Xpc1.term, self.Xpc2.term
        Xw1 = r1 if identity_whitener else tm.mul(r1, self.whitener1.T.term)
        Xw2 = r2 if identity_whitener else tm.mul(r2, self.whitener2.T.term)
        mk = lambda t, dims, ext, cid, tags=(): SymDA(t, dims, ext, cid, cplx and len(dims) == 2, owner="model", tags=tags)
        self.data = DataContainer()
        d = {"input_data1": mk(Xw1, (S, F1), {S: n, F1: p1}, {S: cs, F1: c1}),
             "input_data2": mk(Xw2, (S, F2), {S: n, F2: p2}, {S: cs, F2: c2}),
             "components1": mk(Q1, (F1, "mode"), {F1: p1, "mode": k0}, {F1: c1, "mode": cm}),
             "components2": mk(Q2, (F2, "mode"), {F2: p2, "mode": k0}, {F2: c2, "mode": cm}),
             "scores1": mk(tm.mul(Xw1, Q1), (S, "mode"), {S: n, "mode": k0}, {S: cs, "mode": cm}),
             "scores2": mk(tm.mul(Xw2, Q2), (S, "mode"), {S: n, "mode": k0}, {S: cs, "mode": cm}),
             "singular_values": mk(s, ("mode",), {"mode": k0}, {"mode": cm}, ("desc", "nonneg")),
             "total_squared_covariance": SymDA(tm.sym("tsc", tm.ONE, tm.ONE, ("diag", "real")), (), {}, {}, False, owner="model")}
        for k, v in d.items():
            dict.__setitem__(self.data, k, v)
            self.data._allow_compute[k] = True
        self.Q1, self.Q2, self.s = Q1, Q2, s


def trace(power, cplx, identity_whitener=False, presorted=False, with_pca=False):
    names, xrf, npf = std_names(promax=lib.promax_stub(power), argsort_dask=lib.argsort_dask,
                                get_deterministic_sign_multiplier=lib.sign_multiplier)
    xrf.ufuncs = {npf.linalg.inv: lib.ufunc_inv, npf.linalg.pinv: lib.ufunc_pinv, npf.linalg.norm: lib.ufunc_colnorm0}

    def run():
        for e in (n, p1, p2):
            assume(e.z >= 2)
        assume(k0.z >= 2)
        assume(k0.z <= p1.z)
        assume(k0.z <= p2.z)
        if with_pca:
            for qe, pe in ((q1, p1), (q2, p2)):
                assume(qe.z >= pe.z)
        model = BaseModel(cplx, identity_whitener, with_pca)
        kr = PNum(z3.Int("kr"))
        assume(kr.z >= 2)
        assume(kr.z <= k0.z)
        cls = xeofs.cross.ComplexCPCCARotator if cplx else xeofs.cross.CPCCARotator
        rot = cls(n_modes=kr, power=power, compute=True)
        if presorted:
            rot.sorted = True          # whatever an earlier fit + compute of the same rotator object left behind
        ctx().events.clear()
        rot._fit_algorithm(model)
        out = {"model": model, "rot": rot, "kr": kr, "events_fit": list(ctx().events), "sorted_after_fit": rot.sorted,
               "pre": dict(rot.data.items())}
        out["T_unsorted"] = rot.transform(X=model.Xpc1, Y=model.Xpc2)
        rot._post_compute()
        out["T_sorted"] = rot.transform(X=model.Xpc1, Y=model.Xpc2)
        out["T_sorted_normalized"] = rot.transform(X=model.Xpc1, normalized=True)
        out["inv"] = rot._inverse_transform_algorithm(X=rot.data["scores1"], Y=rot.data["scores2"])
        return out

    with patched_globals([crmod, cpmod, whmod, pcamod, xumod, scmod], names):
        return explore(run, maxpaths=96)


def obligations(res, agg, which=("C04", "C05", "C11"), configs=None):
    """obligations of the cross-set rotator; `which` selects the clause families by the property they belong to"""
    from ..sym.core import PathLimit, use_ctx
    from ..sym.prove import normalizer_for, prove_eq
    from .common import struct_vc
    fn = "CPCCARotator"
    configs = configs or [(1, False, False, False, False), (2, False, False, False, False), (1, True, False, False, False), (3, True, False, False, False),
                          (2, False, True, False, False), (2, True, False, True, False), (1, False, False, True, False),
                          (2, False, False, False, True), (1, True, False, False, True), (2, True, True, False, True)]
    for power, cplx, ident, presorted, with_pca in configs:
        cfg = f"power={'1' if power == 1 else '>1'},{'complex' if cplx else 'real'}" + (",no whitening" if ident else "") + (",refit of a sorted rotator" if presorted else "") + \
            (",PCA pre-reduction" if with_pca else "")
        try:
            paths = trace(power, cplx, identity_whitener=ident, presorted=presorted, with_pca=with_pca)
        except PathLimit as e:
            res.undecided_reasons.append(f"{fn}[{cfg}]: {e}")
            continue
        res.paths += len(paths)
        nret = 0
        for pth in paths:
            if pth.kind != "return":
                agg.vc(fn + "._fit_algorithm", "within-supported-subset" if pth.kind == "unsupported" else "does not raise on a fitted base model",
                       {"status": "undecided" if pth.kind == "unsupported" else "failed", "residue": f"{pth.exc!r} {pth.tb[-3:]}"}, cfg)
                continue
            nret += 1
            with use_ctx(pth.ctx):
                v = pth.value
                rot, m, d = v["rot"], v["model"], v["rot"].data
                vc = lambda f, clause, l, r: agg.vc(f"{fn}.{f}", clause, prove_eq(pth.ctx, l, r), cfg)
                fields = ((1, F1, m.data["input_data1"].term, m.Q1, "X"), (2, F2, m.data["input_data2"].term, m.Q2, "Y"))
                if "C04" in which or "C11" in which:
                    agg.vc(fn + "._fit_algorithm", "a fit leaves the rotator unsorted whatever state an earlier fit left (sorting happens in _post_compute)",
                           struct_vc(v["sorted_after_fit"] is False, f"sorted={v['sorted_after_fit']}"), cfg)
                if "C04" in which:
                    for i, F, Xw, Q, key in fields:
                        vc("transform", f"transform(training data) = scores{i} in the deferred (unsorted) state", v["T_unsorted"][i - 1].transpose(S, "mode").term,
                           v["pre"][f"scores{i}"].transpose(S, "mode").term)
                        vc("transform", f"transform(training data) = scores{i} after sorting (same order, same sign)", v["T_sorted"][i - 1].transpose(S, "mode").term,
                           d[f"scores{i}"].transpose(S, "mode").term)
                    vc("transform", "normalized=True differs from the default exactly by the per-mode norms", v["T_sorted_normalized"].transpose(S, "mode").term,
                       tm.mul(d["scores1"].transpose(S, "mode").term, tm.inv(d["norm1"].term)))
                if "C05" in which:
                    N = normalizer_for(pth.ctx, (), ())
                    for i, F, Xw, Q, key in fields:
                        X = (m.Xpc1, m.Xpc2)[i - 1].term
                        P = N.nf(v["T_sorted"][i - 1].transpose(S, "mode").term)
                        name = X.args[0]
                        ok = bool(P) and all(mo.atoms and mo.atoms[0].kind == "sym" and mo.atoms[0].base == name and
                                             sum(1 for a in mo.atoms if a.kind == "sym" and a.base == name) == 1 for mo in P)
                        agg.vc(fn + ".transform", f"transform is right-multiplication of the data matrix of field {key} by a fitted matrix (row-local)", struct_vc(ok, str(P)[:200]), cfg)
                        T = v["T_sorted"][i - 1]
                        agg.vc(fn + ".transform", f"scores of field {key} carry the data's own sample coordinate", struct_vc(T._cid.get(S) == ("in", "X", S) and set(T.dims) == {S, "mode"}, f"{T.dims} {T._cid}"), cfg)
                if "C11" in which:
                    for i, F, Xw, Q, key in fields:
                        kr = d[f"scores{i}"]._ext["mode"]
                        E = tm.sel(k0, kr)
                        want = tm.mul(tm.mul(tm.mul(Xw, Q), E), tm.H(tm.mul(Q, E)))
                        vc("_fit_algorithm + _inverse_transform_algorithm", f"reconstruction of field {key} from the rotated scores = reconstruction from the same number of unrotated modes",
                           v["inv"][key].transpose(S, F).term, want)
                    sq = d["squared_covariance"]
                    agg.vc(fn + "._sort_by_variance", "rotated modes are returned in descending order of squared covariance", struct_vc("desc" in sq.tags and rot.sorted is True, str(sq.tags)), cfg)
                    vc("_fit_algorithm", "squared covariance = (norm1 norm2)^2", v["pre"]["squared_covariance"].term,
                       tm.dpow(tm.mul(v["pre"]["norm1"].term, v["pre"]["norm2"].term), 2))
                    calls = [e for e in v["events_fit"] if e[0] == "call" and e[1].get("callee") == "get_deterministic_sign_multiplier"]
                    agg.vc(fn + "._fit_algorithm", "one sign multiplier, taken from the rotated combined loadings, is applied to both fields' components and scores",
                           struct_vc(len(calls) == 1 and calls[0][1].get("dim") == "common_feature_dim", str(calls)), cfg)
                    if power == 1:
                        R = v["pre"]["rotation_matrix"].term
                        vc("_fit_algorithm", "power = 1: the rotation matrix is unitary", tm.mul(tm.H(R), R), tm.I(d["scores1"]._ext["mode"]))
        if nret == 0:
            agg.vc(fn + "._fit_algorithm", "has-returning-path", struct_vc(False, "vacuity guard"), cfg)

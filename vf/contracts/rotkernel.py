"""Contracts of the numpy rotation kernels xeofs.linalg._numpy._rotation._varimax / _promax and of the xarray wrapper
xeofs.linalg.rotation.promax, traced on positional proxies.

_varimax(X): returns (X R, R) with R unitary k x k (k = n_modes >= 2), for every number of iterations: the iteration
`for i in range(max_iter)` is replaced by the Hoare loop rule (vf/sym/looprule.py) with the invariant
"R is a k x k unitary matrix"; the element-wise parts of the varimax criterion are abstracted to unconstrained
matrices (the contract does not depend on them); np.linalg.svd is used under its contract.
_promax(X, power): with _varimax under the contract above, returns (X T, T, phi) with T = R L, R unitary,
phi = inv(L) inv(L)^H; for power = 1, L = I (T unitary, phi = I).
Assumptions (recorded): the stabiliser eps is neglected (treated as 0) and no row of the loadings is zero
(communalities h > 0); the matrices the code inverts are invertible; column maxima are positive.
"""
import z3

import xeofs.linalg._numpy._rotation as rk
import xeofs.linalg.rotation as rotmod

from ..sym import looprule, ndlib
from ..sym import terms as tm
from ..sym import xda
from ..sym.core import PBool, PNum, PathLimit, Unsupported, assume, ctx, decide, explore, patched_globals, use_ctx
from ..sym.nd import Col, SymND, passthrough
from ..sym.prove import prove_eq
from ..sym.terms import fresh, named_ext

p_, k_ = named_ext("p"), named_ext("k")


# ---------------------------------------------------------------- element-wise markers
class Abs2(SymND):
    """M * conj(M) (element-wise squared modulus): only its row / column sums are interpreted"""

    def __init__(self, base):
        SymND.__init__(self, tm.fn("abs2", base.term, props=("real",)), 2, False, base.lazy)
        self.base = base


class AbsM(SymND):
    """abs(M) element-wise: only column maxima and powers are interpreted"""

    def __init__(self, base):
        SymND.__init__(self, tm.fn("absm", base.term, props=("real",)), 2, False, base.lazy)
        self.base = base

    def __pow__(self, e):
        if isinstance(e, int) and e == 0:
            return Ones(self.base)
        return opaque_like(self.base, "abspow", cplx=False)


class Ones(SymND):
    def __init__(self, base):
        SymND.__init__(self, tm.fn("ones", base.term, props=("real",)), 2, False, base.lazy)


def opaque_like(m, why, cplx=None):
    """an unconstrained matrix of the shape of m (sound abstraction of an element-wise expression)"""
    t = m.term
    c = m.cplx if cplx is None else cplx
    ctx().notes.setdefault("opaque", []).append(why)
    return SymND(tm.sym(fresh("ew." + why), t.rows, t.cols, () if c else ("real",)), 2, c, m.lazy)


def _ew_mul(a, b):
    if isinstance(b, Ones):
        return a
    if isinstance(a, Ones):
        return b
    if type(a) is SymND and type(b) is SymND:
        ta, tb = a.term, b.term
        if tb is ta or repr(tm.conj(ta)) == repr(tb) or repr(tm.conj(tb)) == repr(ta):
            return Abs2(a)
    return opaque_like(a, "product", cplx=a.cplx or b.cplx)


_orig_mul, _orig_sub, _orig_add, _orig_abs, _orig_pow = SymND.__mul__, SymND.__sub__, SymND.__add__, SymND.__abs__, SymND.__pow__


class KernelOps:
    """while active, SymND supports the element-wise operations the rotation kernels use (opt-in: other kernels keep failing closed)"""

    def __enter__(self):
        def mul(self, o):
            if isinstance(o, SymND) and self.nd == 2 and o.nd == 2:
                return _ew_mul(self, o)
            return _orig_mul(self, o)

        def sub(self, o):
            if isinstance(self, Abs2) or (isinstance(o, SymND) and self.nd == 2 and o.nd != 2):
                return opaque_like(self, "difference", cplx=False if isinstance(self, Abs2) else None)
            return _orig_sub(self, o)

        def add(self, o):
            if isinstance(o, float) and abs(o) < 1e-12 and self.nd == 1:
                ctx().notes.setdefault("neglected", []).append(f"stabiliser {o!r} added to {self.term!r} is treated as 0")
                return self
            return _orig_add(self, o)

        def absf(self):
            if self.nd == 2:
                return AbsM(self)
            return _orig_abs(self)

        def powf(self, e):
            if self.nd == 2 and "diag" in self.term.props:
                return SymND(tm.dpow(self.term, e), 2, self.cplx, self.lazy)
            return _orig_pow(self, e)
        SymND.__mul__ = SymND.__rmul__ = mul
        SymND.__sub__, SymND.__add__, SymND.__abs__, SymND.__pow__ = sub, add, absf, powf
        return self

    def __exit__(self, *a):
        SymND.__mul__ = SymND.__rmul__ = _orig_mul
        SymND.__sub__, SymND.__add__, SymND.__abs__, SymND.__pow__ = _orig_sub, _orig_add, _orig_abs, _orig_pow


def _posdiag(t, why):
    c = ctx()
    c.notes.setdefault("pos_diag", []).append(t.args[0])
    c.notes.setdefault("assumed_positive", []).append(why)
    return tm.T(t.op, t.args, t.rows, t.cols, t.props | {"diag", "real", "herm", "nonneg", "pos", "inv"})


class NPK(xda.NPFacade):
    """`np` as seen by the rotation kernels"""

    def eye(self, n):
        e = tm.ext_of(PNum(n).z if type(n) is not PNum else n.z)
        return SymND(tm.I(e), 2, False, False)

    def sum(self, x, axis=None):
        if isinstance(x, Abs2) and axis in (0, 1):
            M = x.base.term
            g = tm.dg(tm.mul(M, tm.H(M))) if axis == 1 else tm.dg(tm.mul(tm.H(M), M))
            return SymND(_posdiag(g, "no zero " + ("row" if axis == 1 else "column") + " in the matrix whose squared moduli are summed"), 1, False, x.lazy, ("nonneg",))
        if isinstance(x, SymND) and x.nd == 1 and axis is None:
            r = z3.Real(fresh("sum"))
            if "nonneg" in x.tags:
                ctx().facts.append(r >= 0)
            return PNum(r)
        raise Unsupported("np.sum variant")

    def max(self, x, axis=None):
        if isinstance(x, AbsM) and axis == 0:
            k = x.term.cols
            ctx().notes.setdefault("assumed_positive", []).append("column maxima of |X| are positive (no zero column)")
            return SymND(tm.sym(fresh("colmax"), k, k, ("diag", "real", "herm", "nonneg", "pos", "inv")), 1, False, x.lazy, ("nonneg",))
        raise Unsupported("np.max variant")

    def abs(self, x):
        if isinstance(x, SymND):
            return abs(x)
        return super().abs(x)

    def diag(self, x):
        if isinstance(x, SymND) and x.nd == 2 and x.term.op == "inv":
            # diagonal of the inverse of a Gram matrix (Hermitian positive definite once it is invertible): positive
            return SymND(_posdiag(tm.dg(x.term), "diagonal of inv(L^H L) is positive (L has full column rank)"), 1, False, x.lazy, ("nonneg",))
        return super().diag(x)


# ---------------------------------------------------------------- _varimax with the loop rule
class VarimaxVC:
    EndPath = looprule.EndPath

    def __init__(self, agg, cfg, cplx):
        self.agg, self.cfg, self.cplx = agg, cfg, cplx
        self.fn = "_varimax"

    def _inv(self, R, where):
        ok_shape = isinstance(R, SymND) and R.nd == 2 and decide(R.term.rows.z == k_.z) and decide(R.term.cols.z == k_.z)
        self.agg.vc(self.fn, f"loop invariant {where}: R is n_modes x n_modes", {"status": "discharged" if ok_shape else "failed", "backend": "structural",
                                                                             "time_s": 0.0, "residue": "" if ok_shape else repr(R)}, self.cfg)
        if ok_shape:
            self.agg.vc(self.fn, f"loop invariant {where}: R^H R = I", prove_eq(ctx(), tm.mul(tm.H(R.term), R.term), tm.I(k_)), self.cfg)
            self.agg.vc(self.fn, f"loop invariant {where}: R R^H = I", prove_eq(ctx(), tm.mul(R.term, tm.H(R.term)), tm.I(k_)), self.cfg)

    def loop_entry(self, ordinal, kind, seqs, loc):
        self._inv(loc["R"], "holds on entry")

    def choose(self, ordinal):
        return decide(z3.Bool("arbitrary_iteration"))

    def fresh_index(self, ordinal):
        i = z3.Int("i")
        assume(i >= 0)
        return PNum(i)

    def havoc(self, ordinal, name):
        if name == "R":
            # assuming the invariant: an arbitrary unitary k x k matrix
            return SymND(tm.sym(fresh("Rinv"), k_, k_, (() if self.cplx else ("real",)) + ("unit", "inv")), 2, self.cplx, False)
        if name in ("delta", "delta_old"):
            r = z3.Real(fresh(name))
            ctx().facts.append(r >= 0)
            return PNum(r)
        return None     # every other variable assigned in the body is assigned before it is read

    def bind(self, ordinal, kind, seqs, idx):
        return idx

    def assume_inv(self, ordinal, idx, loc):
        pass            # carried by the properties of the havocked R

    def check_inv(self, ordinal, idx, loc):
        self._inv(loc["R"], "is preserved by an arbitrary iteration")

    def loop_break(self, ordinal, loc):
        self._inv(loc["R"], "holds when the loop is left by break")

    def assume_exit(self, ordinal, seqs, loc):
        pass


def trace_varimax(agg, cplx, compute):
    cfg = f"{'complex' if cplx else 'real'},compute={compute}"
    vc = VarimaxVC(agg, cfg, cplx)
    npk = NPK()
    names = {"np": npk, "svd_compressed": xda._Token("dask.svd_compressed")}
    with patched_globals([rk], names):
        f, text, info = looprule.compile_with_rule(rk._varimax, 0, vc)

        def run():
            assume(p_.z >= 1)
            assume(k_.z >= 1)
            X = SymND(tm.sym("X", p_, k_, () if cplx else ("real",)), 2, cplx, False)
            out = f(X, max_iter=PNum(z3.Int("max_iter")), rtol=1e-8, compute=compute)
            return X, out
        with KernelOps():
            paths = explore(run, maxpaths=64)
    return cfg, paths


def varimax_stub(cplx_holder):
    """call-site contract of _varimax: (X R, R) with R unitary; raises for fewer than 2 modes"""
    def _varimax(X, gamma=1, max_iter=1000, rtol=1e-8, compute=True):
        ctx().events.append(("call", {"callee": "_varimax", "kwargs": {"max_iter": max_iter, "rtol": rtol, "compute": compute}}))
        k = X.term.cols
        if not decide(k.z >= 2):
            raise ValueError("Cannot rotate modes (columns), but must be 2 or more.")
        R = tm.sym(fresh("Rv"), k, k, (() if X.cplx else ("real",)) + ("unit", "inv"))
        ctx().notes["Rv"] = R
        return SymND(tm.mul(X.term, R), 2, X.cplx, X.lazy), SymND(R, 2, X.cplx, X.lazy)
    return _varimax


def trace_promax(power, cplx):
    npk = NPK()
    npk.linalg.inv = ndlib.nd_inv        # direct call on a positional proxy
    names = {"np": npk, "_varimax": varimax_stub(cplx)}

    def run():
        assume(p_.z >= 1)
        assume(k_.z >= 1)
        X = SymND(tm.sym("X", p_, k_, () if cplx else ("real",)), 2, cplx, False)
        out = rk._promax(X, power=power, max_iter=PNum(z3.Int("max_iter")), rtol=1e-8, compute=True)
        return X, out
    with patched_globals([rk], names):
        with KernelOps():
            return explore(run, maxpaths=32)


def promax_kernel_stub(power):
    """call-site contract of _promax for the wrapper trace"""
    def _promax(X, **kw):
        ctx().events.append(("call", {"callee": "_promax", "kwargs": dict(kw)}))
        k = X.term.cols
        if not decide(k.z >= 2):
            raise ValueError("Cannot rotate modes (columns), but must be 2 or more.")
        pr = () if X.cplx else ("real",)
        T_ = tm.sym(fresh("T"), k, k, pr + (("unit", "inv") if kw.get("power", 1) == 1 else ("inv",)))
        ctx().notes["T"] = T_
        return (SymND(tm.mul(X.term, T_), 2, X.cplx, X.lazy), SymND(T_, 2, X.cplx, X.lazy),
                SymND(tm.mul(tm.inv(T_), tm.H(tm.inv(T_))), 2, X.cplx, X.lazy))
    return _promax


def trace_wrapper(power, cplx, feature="§F"):
    """the xarray wrapper promax(loadings, feature_dim, **kwargs) with _promax under its contract"""
    xrf = xda.XRFacade()
    stub = promax_kernel_stub(power)
    xrf.ufuncs = {stub: passthrough(xda)}
    names = {"xr": xrf, "_promax": stub}

    def run():
        assume(p_.z >= 1)
        assume(k_.z >= 2)
        L = xda.mk_da("L", (feature, "mode"), (p_, k_), cplx=cplx)
        return L, rotmod.promax(L, feature, power=power, max_iter=PNum(z3.Int("max_iter")), rtol=1e-8, compute=True)
    with patched_globals([rotmod], names):
        return explore(run, maxpaths=16)


def obligations(res, agg):
    """all obligations of the rotation kernels; used by C11"""
    # ---- _varimax
    for cplx in (False, True):
        for compute in (True, False):
            try:
                cfg, paths = trace_varimax(agg, cplx, compute)
            except PathLimit as e:
                res.undecided_reasons.append(f"_varimax: {e}")
                continue
            except Exception as e:  # noqa: BLE001
                agg.vc("_varimax", "loop rule applicable", {"status": "undecided", "residue": f"{type(e).__name__}: {e}"}, f"{'complex' if cplx else 'real'},compute={compute}")
                continue
            res.paths += len(paths)
            nret = nraise2 = nconv = 0
            for pth in paths:
                if pth.kind == "raise" and isinstance(pth.exc, looprule.EndPath):
                    continue
                if pth.kind == "unsupported":
                    agg.vc("_varimax", "within-supported-subset", {"status": "undecided", "residue": f"{pth.exc} {pth.tb[-3:]}"}, cfg)
                    continue
                with use_ctx(pth.ctx):
                    small = decide(k_.z < 2)
                    if pth.kind == "raise":
                        if isinstance(pth.exc, ValueError) and small:
                            nraise2 += 1
                            continue
                        if isinstance(pth.exc, RuntimeError) and compute and not small:
                            nconv += 1          # allowed: reported non-convergence
                            continue
                        agg.vc("_varimax", "raises only ValueError (fewer than 2 modes) or RuntimeError (no convergence, compute=True)",
                               {"status": "failed", "backend": "structural", "time_s": 0.0, "residue": f"{pth.exc!r} {pth.tb[-2:]}"}, cfg)
                        continue
                    nret += 1
                    X, (Xrot, R) = pth.value
                    agg.vc("_varimax", "fewer than 2 modes are refused", {"status": "discharged" if not small else "failed", "backend": "structural", "time_s": 0.0,
                                                                        "residue": "" if not small else "returned with k < 2"}, cfg)
                    agg.vc("_varimax", "post: R^H R = I", prove_eq(pth.ctx, tm.mul(tm.H(R.term), R.term), tm.I(k_)), cfg)
                    agg.vc("_varimax", "post: R R^H = I", prove_eq(pth.ctx, tm.mul(R.term, tm.H(R.term)), tm.I(k_)), cfg)
                    agg.vc("_varimax", "post: rotated = X R (Kaiser normalisation undone exactly)", prove_eq(pth.ctx, Xrot.term, tm.mul(X.term, R.term)), cfg)
            for name, n in (("has-returning-path", nret), ("has a path refusing fewer than 2 modes", nraise2)):
                agg.vc("_varimax", name, {"status": "discharged" if n else "failed", "backend": "structural", "time_s": 0.0, "residue": "vacuity guard"}, cfg)
    # ---- _promax
    for power in (1, 2, 4):
        for cplx in (False, True):
            cfg = f"power={power},{'complex' if cplx else 'real'}"
            try:
                paths = trace_promax(power, cplx)
            except PathLimit as e:
                res.undecided_reasons.append(f"_promax: {e}")
                continue
            res.paths += len(paths)
            nret = 0
            for pth in paths:
                if pth.kind == "unsupported":
                    agg.vc("_promax", "within-supported-subset", {"status": "undecided", "residue": f"{pth.exc} {pth.tb[-3:]}"}, cfg)
                    continue
                with use_ctx(pth.ctx):
                    if pth.kind == "raise":
                        ok = isinstance(pth.exc, ValueError) and decide(k_.z < 2)
                        if not ok:
                            agg.vc("_promax", "raises only for fewer than 2 modes", {"status": "failed", "backend": "structural", "time_s": 0.0,
                                                                                     "residue": f"{pth.exc!r} {pth.tb[-2:]}"}, cfg)
                        continue
                    nret += 1
                    X, (Xrot, T_, phi) = pth.value
                    Rv = pth.ctx.notes["Rv"]
                    agg.vc("_promax", "rotated = X T for the returned rotation matrix T (both normalisations undone exactly)",
                           prove_eq(pth.ctx, Xrot.term, tm.mul(X.term, T_.term)), cfg)
                    # T = Rv L: recover L = Rv^H T and compare phi with inv(L) inv(L)^H through the identity phi T^H... : phi = inv(T) inv(T)^H
                    L = tm.mul(tm.H(Rv), T_.term)
                    agg.vc("_promax", "T = R L with R the unitary varimax rotation", prove_eq(pth.ctx, tm.mul(Rv, L), T_.term), cfg)
                    agg.vc("_promax", "phi T^H = inv(T) ... stated without inverses: T phi T^H = I", prove_eq(pth.ctx, tm.mul(tm.mul(T_.term, phi.term), tm.H(T_.term)), tm.I(k_)), cfg)
                    if power == 1:
                        agg.vc("_promax", "power = 1: T^H T = I (the Varimax solution is orthogonal)", prove_eq(pth.ctx, tm.mul(tm.H(T_.term), T_.term), tm.I(k_)), cfg)
                        agg.vc("_promax", "power = 1: phi = I (uncorrelated)", prove_eq(pth.ctx, phi.term, tm.I(k_)), cfg)
            agg.vc("_promax", "has-returning-path", {"status": "discharged" if nret else "failed", "backend": "structural", "time_s": 0.0, "residue": "vacuity guard"}, cfg)
    # ---- wrapper
    for power in (1, 2):
        for cplx in (False, True):
            cfg = f"power={power},{'complex' if cplx else 'real'}"
            try:
                paths = trace_wrapper(power, cplx)
            except PathLimit as e:
                res.undecided_reasons.append(f"promax: {e}")
                continue
            res.paths += len(paths)
            nret = 0
            for pth in paths:
                if pth.kind != "return":
                    agg.vc("promax", "within-supported-subset", {"status": "undecided" if pth.kind == "unsupported" else "failed",
                                                                 "residue": f"{pth.exc!r} {pth.tb[-3:]}"}, cfg)
                    continue
                nret += 1
                with use_ctx(pth.ctx):
                    L, (rot, R, phi) = pth.value
                    T_ = pth.ctx.notes["T"]
                    call = [e for e in pth.ctx.events if e[0] == "call" and e[1].get("callee") == "_promax"]
                    ok_kw = len(call) == 1 and call[0][1]["kwargs"].get("power") == power and set(call[0][1]["kwargs"]) == {"power", "max_iter", "rtol", "compute"}
                    agg.vc("promax", "the keyword arguments reach the kernel unchanged", {"status": "discharged" if ok_kw else "failed", "backend": "structural", "time_s": 0.0,
                                                                                        "residue": "" if ok_kw else str(call)}, cfg)
                    ok_d = rot.dims == ("§F", "mode") and R.dims == ("mode_m", "mode_n") and phi.dims == ("mode_m", "mode_n")
                    agg.vc("promax", "outputs are labelled (feature, mode), (mode_m, mode_n), (mode_m, mode_n)", {"status": "discharged" if ok_d else "failed", "backend": "structural",
                                                                                                                "time_s": 0.0, "residue": f"{rot.dims} {R.dims} {phi.dims}"}, cfg)
                    agg.vc("promax", "rotated loadings = loadings T in (feature, mode) layout", prove_eq(pth.ctx, rot.transpose("§F", "mode").term, tm.mul(L.transpose("§F", "mode").term, T_)), cfg)
                    agg.vc("promax", "rotation matrix returned untransposed", prove_eq(pth.ctx, R.term, T_), cfg)
            agg.vc("promax", "has-returning-path", {"status": "discharged" if nret else "failed", "backend": "structural", "time_s": 0.0, "residue": "vacuity guard"}, cfg)

"""Input generators and helpers for the bounded stand-ins / replay harness: they run the REAL
xeofs code on concrete data and evaluate contract clauses numerically (DESIGN.md 2.3, 2.4)."""
import itertools
import warnings

import numpy as np
import xarray as xr

warnings.filterwarnings("ignore")


def spectrum(kind, r, rng):
    if kind == "geometric":
        return 2.0 ** -np.arange(r)
    if kind == "flat":
        return np.ones(r)
    if kind == "clustered":
        s = np.concatenate([np.full((r + 1) // 2, 4.0), np.full(r // 2, 1.0)])
        return s * (1 + 1e-3 * np.arange(r)[::-1])
    if kind == "deficient":
        s = 2.0 ** -np.arange(r)
        s[max(1, r // 2):] = 0.0
        return s
    if kind == "random":
        return np.sort(rng.uniform(0.2, 3.0, r))[::-1]
    raise ValueError(kind)


def matrix(rng, n, p, spec="random", scale=1.0, cplx=False, centred=False):
    """n x p matrix with a prescribed singular spectrum (of the matrix itself, before any centring)"""
    r = min(n, p)
    def orth(m, k):
        a = rng.standard_normal((m, k)) + (1j * rng.standard_normal((m, k)) if cplx else 0)
        q, _ = np.linalg.qr(a)
        return q
    U, V = orth(n, r), orth(p, r)
    s = spectrum(spec, r, rng)
    X = (U * s) @ V.conj().T * scale
    if centred:
        X = X - X.mean(0)
    return X


def da2(X, sample="time", feature="x", t0=0):
    n, p = X.shape
    return xr.DataArray(X, dims=(sample, feature), coords={sample: np.arange(t0, t0 + n), feature: np.arange(p)})


def da3(X, nlat, sample="time", names=("lat", "lon")):
    n, p = X.shape
    nlon = p // nlat
    assert nlat * nlon == p
    return xr.DataArray(X.reshape(n, nlat, nlon), dims=(sample,) + tuple(names),
                        coords={sample: np.arange(n), names[0]: np.linspace(-60, 60, nlat), names[1]: np.arange(nlon) * 10.0})


def relerr(a, b):
    a, b = np.asarray(a), np.asarray(b)
    if a.shape != b.shape:
        return np.inf
    d = np.linalg.norm((a - b).ravel())
    return d / max(np.linalg.norm(b.ravel()), np.finfo(float).tiny)


def abserr(a, b):
    a, b = np.asarray(a), np.asarray(b)
    if a.shape != b.shape:
        return np.inf
    return float(np.max(np.abs(a - b))) if a.size else 0.0


def tol_for(X, solver="full", base=1e-9):
    return base if solver == "full" else 1e-5


def grid(**axes):
    keys = list(axes)
    for vals in itertools.product(*[axes[k] for k in keys]):
        yield dict(zip(keys, vals))


def subsample(items, k, rng):
    items = list(items)
    if len(items) <= k:
        return items
    idx = rng.choice(len(items), size=k, replace=False)
    return [items[i] for i in sorted(idx)]

"""./check Cxx [--tier quick|thorough] [--replay file] [--freeze-baseline]"""
import argparse
import importlib
import json
import os
import sys
import time
import traceback

from .sym.terms import Unsupported
import warnings

from . import report


def main():
    ap = argparse.ArgumentParser()
    ap.add_argument("prop")
    ap.add_argument("--tier", default=os.environ.get("VERIF_TIER", "quick"), choices=["quick", "thorough"])
    ap.add_argument("--replay")
    ap.add_argument("--freeze-baseline", action="store_true")
    a = ap.parse_args()
    seed = int(os.environ.get("VERIF_SEED", "0") or 0)
    warnings.filterwarnings("ignore")
    t0 = time.time()
    try:
        mod = importlib.import_module(f"props.{a.prop}")
    except ModuleNotFoundError as e:
        print(f"CHECKER-ERROR no check for {a.prop}: {e}")
        return 3
    if a.replay:
        payload = json.load(open(a.replay))
        ok, text = mod.replay(payload)
        print(text)
        print("REPLAY: property holds on this input" if ok else f"REPLAY: VIOLATION property={a.prop} reproduced")
        return 0 if ok else 1
    from .sym import selftest
    bad = selftest.run()
    if bad:
        for b in bad:
            print("CHECKER-ERROR engine self-check:", b)
        return 3
    try:
        res = mod.run(a.tier, seed)
    except Unsupported as e:
        # code outside the modelled subset was reached outside a traced path (e.g. a property that now runs code when the
        # check inspects a result): undecided, never a violation and not a checker crash
        traceback.print_exc()
        res = report.Result(a.prop)
        res.undecided_reasons.append(f"unsupported operation outside a traced path (no obligation could be generated): {e}")
        if hasattr(mod, "run_bounded"):
            try:
                mod.run_bounded(res, a.tier, seed)         # the bounded stand-in still runs: a failing input is a violation
            except Exception:  # noqa: BLE001
                traceback.print_exc()
                print(f"CHECKER-ERROR property={a.prop} internal exception in the bounded part")
                return 3
    except Exception:  # noqa: BLE001
        traceback.print_exc()
        print(f"CHECKER-ERROR property={a.prop} internal exception")
        return 3
    if a.freeze_baseline:
        p = os.path.join(report.ROOT, "contracts", "baseline.json")
        os.makedirs(os.path.dirname(p), exist_ok=True)
        b = json.load(open(p)) if os.path.exists(p) else {}
        b[a.prop] = {"proved": sorted(o.id for o in res.obs if o.status == "discharged"),
                     "not_proved": sorted(o.id for o in res.obs if o.status != "discharged")}
        json.dump(b, open(p, "w"), indent=1, sort_keys=True)
        print(f"baseline frozen for {a.prop}: {len(b[a.prop]['proved'])} proved, {len(b[a.prop]['not_proved'])} not")
    cmd = f"./check {a.prop} --tier {a.tier}"
    rc = report.finish(res, a.tier, seed, mod.LEVEL, t0, cmd, getattr(mod, "EXPLANATION", ""))
    n = sum(o.vcs for o in res.obs)
    d = sum(o.vcs for o in res.obs if o.status == "discharged")
    print(f"{a.prop}: {len(res.obs)} obligations ({d}/{n} VCs discharged), {len(res.cases)} bounded evaluations "
          f"({sum(1 for c in res.cases if not c.ok)} failing), exit {rc}, {time.time() - t0:.1f}s")
    return rc


if __name__ == "__main__":
    sys.exit(main())

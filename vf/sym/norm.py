"""Deterministic normaliser for matrix terms (DESIGN.md 2.2): non-commutative polynomials whose
monomials are  coef * (commutative scalar factors) * [atom, atom, ...]  with H/conj/T pushed to the
atoms, diagonal runs kept as commutative monomials with real exponents, selection-isometry algebra,
and hypotheses used as oriented rewrite rules (together with their adjoint / conjugate images).
Scalar side conditions (orderings of extents, equality of coefficients and exponents) go to z3.
"""
import z3

from .terms import T, Unsupported, ONE, same_ext, ext_of, rv


class Atom:
    __slots__ = ("kind", "base", "h", "c", "i", "rows", "cols", "diag", "real", "herm", "pos",
                 "invt", "unit", "exp", "inner", "key", "perm", "nn")

    def __init__(self, kind, base, rows, cols, h=False, c=False, i=False, diag=False, real=False,
                 herm=False, pos=False, invt=False, unit=False, exp=None, inner=None):
        self.kind, self.base, self.rows, self.cols = kind, base, rows, cols
        self.perm = kind == "sym" and isinstance(base, str) and base.startswith("Perm[")
        self.nn = False
        self.diag, self.real, self.herm, self.pos, self.invt, self.unit = diag, real, herm, pos, invt, unit
        if real:
            c = False
        if diag:                       # H of a diagonal = conj ; T of a diagonal = itself
            if h:
                h = False
                c = (not c) and not real
        if herm and h:
            h = False
        self.h, self.c, self.i = h, c, i
        self.exp = exp if exp is not None else (z3.RealVal(1) if diag else None)
        self.inner = inner
        self.key = (kind, base, self.h, self.c, self.i, rows.name, cols.name)

    def with_(self, **kw):
        d = dict(kind=self.kind, base=self.base, rows=self.rows, cols=self.cols, h=self.h, c=self.c,
                 i=self.i, diag=self.diag, real=self.real, herm=self.herm, pos=self.pos,
                 invt=self.invt, unit=self.unit, exp=self.exp, inner=self.inner)
        nn = kw.pop("nn", self.nn)
        d.update(kw)
        a = Atom(**d)
        a.nn = nn or a.pos
        return a

    def adj(self, h, c):
        """image under (optional) adjoint and (optional) conjugation; T = adjoint+conj"""
        if not h and not c:
            return self
        nh = self.h ^ h
        nc = self.c ^ c
        r, cc = (self.cols, self.rows) if h else (self.rows, self.cols)
        if self.diag:
            # Atom.__init__ turns h into conj for diagonals; pass flags relative to base
            a = Atom(self.kind, self.base, self.rows, self.cols, h=False, c=(self.c ^ h ^ c),
                     i=self.i, diag=True, real=self.real, herm=self.herm, pos=self.pos,
                     invt=self.invt, unit=self.unit, exp=self.exp, inner=self.inner)
            a.nn = self.nn
            return a
        return Atom(self.kind, self.base, r, cc, h=nh, c=nc, i=self.i, diag=False, real=self.real,
                    herm=self.herm, pos=self.pos, invt=self.invt, unit=self.unit, exp=None,
                    inner=self.inner)

    def __repr__(self):
        if self.kind == "sel":
            b = f"E[{self.base[0]}>{self.base[1]}]"
        elif self.kind == "restr":
            b = f"{self.base[0]}|{self.base[1]}"
        elif self.kind in ("inv", "dg", "fn"):
            b = f"{self.kind}<{self.base}>"
        else:
            b = str(self.base)
        s = ("conj " if self.c else "") + b + ("^-1" if self.i else "") + ("^H" if self.h else "")
        if self.diag and not (z3.is_rational_value(self.exp) and self.exp.as_fraction() == 1):
            s += f"^({z3.simplify(self.exp)})"
        return s


class Mono:
    __slots__ = ("coef", "scal", "atoms", "rows", "cols")

    def __init__(self, coef, scal, atoms, rows, cols):
        self.coef = coef
        self.scal = tuple(scal)      # ((key, exp z3 Real), ...) sorted by key; registry in Normaliser
        self.atoms = tuple(atoms)
        self.rows, self.cols = rows, cols

    def skey(self):
        return (tuple(k for k, _ in self.scal), tuple(a.key for a in self.atoms))

    def __repr__(self):
        c = z3.simplify(self.coef)
        sc = "".join(f"·{k}^({z3.simplify(e)})" for k, e in self.scal)
        return f"({c}){sc}·{list(self.atoms)}"


def _is_num(e, v=None):
    e = z3.simplify(e)
    if z3.is_rational_value(e) or z3.is_int_value(e):
        return True if v is None else e.as_fraction() == v
    return False


def _PolyTerm(P):
    """wrap an already-flattened polynomial as a term"""
    return T("poly", (P,), P[0].rows, P[0].cols, ())


class Normalizer:
    MAXSTEPS = 600

    def __init__(self, facts=(), timeout_ms=4000):
        self.facts = list(facts)
        self.rules = []            # (name, lhs keys tuple, rhs list[Mono])
        self.steps = []            # log of applied rewrite names
        self.timeout_ms = timeout_ms
        self.exts = {}
        self._cache = {}
        self._canon = {}
        self._reps = []
        self.pos_inner = set()       # keys of inner polynomials whose diagonal part is known strictly positive

    # ---------- z3 helpers
    def valid(self, cond):
        k = ("v", str(cond))
        if k in self._cache:
            return self._cache[k]
        s = z3.Solver()
        s.set("timeout", self.timeout_ms)
        s.add(self.facts)
        s.add(z3.Not(cond))
        r = s.check() == z3.unsat
        self._cache[k] = r
        return r

    def le(self, a, b):
        return self.valid(a.z <= b.z)

    # ---------- flatten terms to polynomials
    def atom_of_sym(self, t, h, c):
        p = t.props
        a = Atom("sym", t.args[0], t.rows, t.cols, diag="diag" in p, real="real" in p,
                 herm="herm" in p, pos="pos" in p, invt=("inv" in p or "pos" in p or "unit" in p),
                 unit="unit" in p)
        a.nn = "nonneg" in p or "pos" in p
        return a.adj(h, c)

    def reg(self, *exts):
        for e in exts:
            self.cn(e)

    def cn(self, e):
        """canonical representative of an extent modulo the equalities implied by the facts"""
        if e.name in self._canon:
            return self._canon[e.name]
        for r in self._reps:
            if self.valid(r.z == e.z):
                self._canon[e.name] = r
                return r
        self._reps.append(e)
        self._canon[e.name] = e
        self.exts[e.name] = e
        return e

    def flat(self, t, h=False, c=False):
        """-> list[Mono] (not yet normalised)"""
        if t.rows is not self.cn(t.rows) or t.cols is not self.cn(t.cols):
            t = T(t.op, t.args, self.cn(t.rows), self.cn(t.cols), t.props)
        r, cc = (t.cols, t.rows) if h else (t.rows, t.cols)
        one = z3.RealVal(1)
        if t.op == "poly":
            return self.adj_poly(t.args[0], h, c)
        if t.op == "sym":
            return [Mono(one, (), [self.atom_of_sym(t, h, c)], r, cc)]
        if t.op == "I":
            return [Mono(one, (), [], r, cc)]
        if t.op == "zero":
            return []
        if t.op == "sel":
            if t.rows is t.cols:
                return [Mono(one, (), [], r, cc)]
            a = Atom("sel", (t.rows.name, t.cols.name), t.rows, t.cols, real=True).adj(h, False)
            return [Mono(one, (), [a], r, cc)]
        if t.op == "J":
            return [Mono(one, (), [Atom("J", t.rows.name, t.rows, t.cols, real=True, herm=True)], r, cc)]
        if t.op == "mul":
            a, b = t.args
            if h:
                a, b = b, a
            pa, pb = self.flat(a, h, c), self.flat(b, h, c)
            out = []
            for x in pa:
                for y in pb:
                    out.append(Mono(x.coef * y.coef, self.smerge(x.scal, y.scal), x.atoms + y.atoms,
                                    x.rows, y.cols))
            return out
        if t.op == "add":
            return self.flat(t.args[0], h, c) + self.flat(t.args[1], h, c)
        if t.op == "smul":
            return [Mono(t.args[0] * m.coef, m.scal, m.atoms, m.rows, m.cols)
                    for m in self.flat(t.args[1], h, c)]
        if t.op == "H":
            return self.flat(t.args[0], not h, c)
        if t.op == "conj":
            return self.flat(t.args[0], h, not c)
        if t.op == "T":
            return self.flat(t.args[0], not h, not c)
        if t.op == "dpow":
            base, e = t.args
            P = self.nf_poly(self.flat(base, False, c))
            if len(P) != 1:
                raise Unsupported(f"power of a sum of diagonal terms: {t!r}")
            m = P[0]
            if not all(a.diag for a in m.atoms):
                raise Unsupported("power of non-diagonal product")
            atoms = []
            for a in m.atoms:
                enum = z3.simplify(e).as_fraction() if _is_num(e) else None
                if not (a.pos or (enum is not None and enum >= 0 and (enum.denominator == 1 or a.nn))):
                    raise Unsupported(f"non-integer/negative power of a diagonal not known positive: {a!r}")
                atoms.append(a.with_(exp=z3.simplify(a.exp * e)))
            scal = tuple((k, z3.simplify(x * e)) for k, x in m.scal)
            coef = m.coef
            if _is_num(coef, 1):
                pass
            else:
                if not self.valid(coef > 0):
                    raise Unsupported(f"power of a scalar not known positive: {coef}")
                if _is_num(e) and z3.simplify(e).as_fraction().denominator == 1:
                    n = int(z3.simplify(e).as_fraction())
                    cf = z3.RealVal(1)
                    for _ in range(abs(n)):
                        cf = cf * coef
                    coef = cf if n >= 0 else 1 / cf
                else:
                    scal = self.smerge(scal, self.num_atoms(coef, e))
                    coef = z3.RealVal(1)
            return [Mono(coef, scal, atoms, r, cc)]
        if t.op == "inv":
            P = self.nf_poly(self.flat(t.args[0], False, False))
            if len(P) == 1 and all(a.invt for a in P[0].atoms) and all(
                    self.scalar_pos(k) for k, _ in P[0].scal):
                m = P[0]
                atoms = []
                for a in reversed(m.atoms):
                    if a.diag:
                        atoms.append(a.with_(exp=z3.simplify(-a.exp)))
                    elif a.unit:
                        atoms.append(a.adj(True, False))
                    else:
                        atoms.append(a.with_(i=not a.i))
                mm = Mono(1 / m.coef, tuple((k, z3.simplify(-e)) for k, e in m.scal), atoms, m.cols, m.rows)
                return self.adj_poly([mm], h, c)
            coef_out = one
            if len(P) == 1 and not P[0].scal and not _is_num(P[0].coef, 1):
                coef_out = 1 / P[0].coef          # inv(c M) = (1/c) inv(M)
                P = [Mono(one, (), P[0].atoms, P[0].rows, P[0].cols)]
            lead, trail = [], []
            if len(P) == 1 and not P[0].scal:
                # inv(A M B) = inv(B) inv(M) inv(A) for (square) invertible atoms at either end
                atoms = list(P[0].atoms)
                while atoms and atoms[0].invt and len(atoms) > 1:
                    lead.append(atoms.pop(0))
                while atoms and atoms[-1].invt and len(atoms) > 1:
                    trail.insert(0, atoms.pop())
                if (lead or trail) and not all(x.invt for x in atoms):
                    P = [Mono(one, (), atoms, atoms[0].rows, atoms[-1].cols)]
                else:
                    lead, trail = [], []

            def _inv_atoms(xs):
                out = []
                for x in reversed(xs):
                    if x.diag:
                        out.append(x.with_(exp=z3.simplify(-x.exp)))
                    elif x.unit:
                        out.append(x.adj(True, False))
                    else:
                        out.append(x.with_(i=not x.i))
                return out
            key = self.pkey(P)
            herm = "herm" in t.props or key == self.pkey(self.nf_poly(self.adj_poly(P, True, False)))
            a = Atom("inv", key, P[0].cols, P[0].rows, real="real" in t.props or all(x.real for m_ in P for x in m_.atoms), herm=herm,
                     diag="diag" in t.props and not (lead or trail), invt=True, inner=P)
            mm = Mono(coef_out, (), _inv_atoms(trail) + [a] + _inv_atoms(lead), t.rows, t.cols)
            return self.adj_poly([mm], h, c)
        if t.op == "dg":
            P = self.nf_poly(self.flat(t.args[0], False, c))
            out = []
            for m in P:
                if all(a.diag for a in m.atoms):
                    out.append(m)
                    continue
                atoms = list(m.atoms)
                lead, trail = [], []
                while atoms and atoms[0].diag:
                    lead.append(atoms.pop(0))
                while atoms and atoms[-1].diag:
                    trail.insert(0, atoms.pop())
                if lead or trail:        # dg(D1 M D2) = D1 dg(M) D2
                    core = T("dg", (_PolyTerm([Mono(z3.RealVal(1), (), atoms, atoms[0].rows, atoms[-1].cols)]),),
                             atoms[0].rows, atoms[-1].cols, ("diag",))
                    cp = self.flat(core, False, False)
                    for x in cp:
                        out.append(Mono(m.coef * x.coef, self.smerge(m.scal, x.scal), lead + list(x.atoms) + trail, m.rows, m.cols))
                    continue
                inner = [Mono(z3.RealVal(1), (), m.atoms, m.rows, m.cols)]
                herm = self.pkey(inner) == self.pkey(self.nf_poly(self.adj_poly(inner, True, False)))
                a = Atom("dg", self.pkey(inner), t.rows, t.cols, diag=True,
                         real=herm or all(x.real for x in m.atoms), herm=herm, inner=inner)
                a.nn = self._is_gram(m.atoms)
                if self.pkey(inner) in self.pos_inner:
                    a.pos = a.invt = a.nn = True
                out.append(Mono(m.coef, m.scal, [a], m.rows, m.cols))
            return out
        if t.op == "tr":
            P = self.nf_poly(self.flat(t.args[0], False, c))
            out = []
            for m in P:
                atoms = m.atoms
                if len(atoms) == 1 and atoms[0].kind == "dg" and _is_num(atoms[0].exp, 1):
                    inner = atoms[0].inner[0]
                    atoms = inner.atoms
                if not atoms:
                    out.append(Mono(m.coef * z3.ToReal(m.rows.z), m.scal, [], ONE, ONE))
                    continue
                best = None
                for i in range(len(atoms)):
                    cand = list(atoms[i:]) + list(atoms[:i])
                    for r in self.nf_mono(Mono(z3.RealVal(1), (), cand, cand[0].rows, cand[-1].cols)):
                        if best is None or len(r.atoms) < len(best[0].atoms):
                            best = ([r], None)
                            best = (r, i)
                        break
                red = best[0]
                if len(red.atoms) < len(atoms):
                    # the rotated product simplified: trace of the simplified product
                    sub = T("tr", (_PolyTerm([Mono(red.coef, red.scal, red.atoms, red.rows, red.cols)]),), ONE, ONE, ("diag",))
                    for y in self.flat(sub, False, False):
                        out.append(Mono(m.coef * y.coef, self.smerge(m.scal, y.scal), [], ONE, ONE))
                    continue
                rot = self.canon_cyclic(atoms)
                k = ("tr", tuple(a.key for a in rot) + tuple(str(a.exp) for a in rot if a.diag))
                self.scalars[k] = ("tr", rot)
                out.append(Mono(m.coef, self.smerge(m.scal, ((k, z3.RealVal(1)),)), [], ONE, ONE))
            return out
        if t.op in ("scale", "sinv", "spow"):
            S = self.nf_poly(self.flat(t.args[0], False, c))
            if any(m.atoms for m in S):
                raise Unsupported(f"1x1 term that is not a scalar expression: {t.args[0]!r}")
            if t.op == "scale":
                P = self.flat(t.args[1], h, c)
                return [Mono(x.coef * y.coef, self.smerge(x.scal, y.scal), y.atoms, y.rows, y.cols)
                        for x in S for y in P]
            if len(S) != 1:
                raise Unsupported("inverse/power of a sum of scalars")
            m = S[0]
            e = z3.RealVal(-1) if t.op == "sinv" else t.args[1]
            if _is_num(e) and z3.simplify(e).as_fraction().denominator == 1:
                n = int(z3.simplify(e).as_fraction())
                cf = z3.RealVal(1)
                for _ in range(abs(n)):
                    cf = cf * m.coef
                coef = cf if n >= 0 else 1 / cf
                scal = tuple((k, z3.simplify(x * e)) for k, x in m.scal)
            else:
                if not self.valid(m.coef > 0):
                    raise Unsupported("fractional power of a scalar not known positive")
                scal = tuple((k, z3.simplify(x * e)) for k, x in m.scal)
                coef = z3.RealVal(1)
                if not _is_num(m.coef, 1):
                    scal = self.smerge(scal, self.num_atoms(m.coef, e))
            return [Mono(coef, scal, [], ONE, ONE)]
        if t.op == "re":
            P = self.nf_poly(self.flat(t.args[0], h, c))
            if all(all(a.real for a in m.atoms) for m in P):
                return P
            key = self.pkey(P)
            a = Atom("fn", ("re", key), r, cc, real=True, inner=P)
            return [Mono(one, (), [a], r, cc)]
        if t.op == "fn":
            name, arg = t.args
            P = self.nf_poly(self.flat(arg, False, False))
            a = Atom("fn", (name, self.pkey(P)), t.rows, t.cols, diag="diag" in t.props,
                     real="real" in t.props, pos="pos" in t.props, inner=P)
            return [Mono(one, (), [a.adj(h, c)], r, cc)]
        raise Unsupported(f"normaliser: term op {t.op}")

    scalars = {}

    def num_atoms(self, c, e):
        """positive scalar c raised to the real power e as a tuple of canonical ('num', base) scalar atoms"""
        c = z3.simplify(c)
        if self.valid(c == 1):
            return ()
        if z3.is_app(c) and c.decl().kind() == z3.Z3_OP_DIV:
            a, b = c.arg(0), c.arg(1)
            return self.smerge(self.num_atoms(a, e), self.num_atoms(b, z3.simplify(-e)))
        if z3.is_app(c) and c.decl().kind() == z3.Z3_OP_MUL:
            out = ()
            for i in range(c.num_args()):
                out = self.smerge(out, self.num_atoms(c.arg(i), e))
            return out
        if z3.is_rational_value(c) and c.as_fraction() == 1:
            return ()
        k = ("num", str(c))
        self.scalars[k] = ("num", c)
        return ((k, z3.simplify(e)),)

    @staticmethod
    def _is_gram(atoms):
        """A^H A (optionally A^H D A with D a positive diagonal): positive semi-definite"""
        k = len(atoms)
        mid = []
        if k % 2 == 1:
            mid = [atoms[k // 2]]
            if not ((mid[0].diag and (mid[0].pos or mid[0].nn)) or mid[0].kind == "J"):
                return False
        first, second = atoms[:k // 2], atoms[k // 2 + len(mid):]
        return [x.key for x in first] == [x.adj(True, False).key for x in reversed(second)]

    def scalar_pos(self, k):
        kind, v = self.scalars[k]
        return kind == "num"

    @staticmethod
    def smerge(a, b):
        d = {}
        for k, e in tuple(a) + tuple(b):
            d[k] = z3.simplify(d[k] + e) if k in d else e
        return tuple(sorted(((k, e) for k, e in d.items() if not _is_num(e, 0)), key=lambda x: str(x[0])))

    def canon_cyclic(self, atoms):
        atoms = list(atoms)
        best = None
        for i in range(len(atoms)):
            rot = atoms[i:] + atoms[:i]
            k = tuple(str(a.key) for a in rot)
            if best is None or k < best[0]:
                best = (k, rot)
        return tuple(best[1])

    def pkey(self, P):
        return tuple(sorted((str(z3.simplify(m.coef)), str(m.scal), tuple(a.key for a in m.atoms),
                             tuple(str(a.exp) for a in m.atoms if a.diag)) for m in P))

    def adj_poly(self, P, h, c):
        if not h and not c:
            return list(P)
        out = []
        for m in P:
            atoms = [a.adj(h, c) for a in (reversed(m.atoms) if h else m.atoms)]
            rr, cc = (m.cols, m.rows) if h else (m.rows, m.cols)
            out.append(Mono(m.coef, m.scal, atoms, rr, cc))
        return out

    # ---------- rules from hypotheses
    def add_pos(self, t):
        """register: the diagonal part of term t is strictly positive (a precondition)"""
        P = self.nf_poly(self.flat(t))
        for m in P:
            self.pos_inner.add(self.pkey([Mono(z3.RealVal(1), (), m.atoms, m.rows, m.cols)]))

    def add_hyp(self, lhs, rhs, name="hyp", orient=None):
        """lhs, rhs: terms.  orient: None = longer side is rewritten to shorter; 'lr' forces lhs->rhs"""
        L = self.nf_poly(self.flat(lhs))
        R = self.nf_poly(self.flat(rhs))
        if orient is None:
            if len(L) != 1 or (len(R) == 1 and len(R[0].atoms) > len(L[0].atoms)):
                L, R = R, L
        if not L and not R:
            return                # 0 = 0: already derivable from the rules present (e.g. the adjoint image of an earlier hypothesis)
        def _plain(P):
            # rules are keyed by atom identity: a left-hand side must not carry diagonal exponents other than 1
            return len(P) == 1 and not P[0].scal and all((not a.diag) or _is_num(a.exp, 1) for a in P[0].atoms)
        if not _plain(L) and _plain(R) and R[0].atoms:
            L, R = R, L
        if len(L) != 1 or L[0].scal:
            raise Unsupported(f"hypothesis with a non-monomial left-hand side: {lhs!r}")
        if not _plain(L):
            raise Unsupported(f"hypothesis whose left-hand side carries a diagonal power: {lhs!r}")
        m = L[0]
        if not m.atoms:
            if self.equal_poly(L, R)[0]:
                return            # already derivable from the rules present (e.g. the same hypothesis recorded twice)
            raise Unsupported("hypothesis rewriting the identity")
        R = [Mono(x.coef / m.coef, x.scal, x.atoms, x.rows, x.cols) for x in R]
        for h, c in ((False, False), (True, False), (False, True), (True, True)):
            lh = self.adj_poly([Mono(z3.RealVal(1), (), m.atoms, m.rows, m.cols)], h, c)[0]
            rh = self.adj_poly(R, h, c)
            key = tuple(a.key for a in lh.atoms)
            if any(k == key for _, k, _ in self.rules):
                continue
            self.rules.append((name, key, rh))

    # ---------- local rewriting of one monomial
    def step(self, m):
        """-> None or (list[Mono], why)"""
        l = list(m.atoms)
        n = len(l)
        E = self.exts
        # drop zero-exponent diagonals
        for i, a in enumerate(l):
            if a.diag and _is_num(a.exp, 0):
                return [self._with(m, l[:i] + l[i + 1:])], "diag^0"
            if a.diag and a.unit and a.real and _is_num(a.exp) and not _is_num(a.exp, 1):
                f = z3.simplify(a.exp).as_fraction()
                if f.denominator == 1:      # entries are +-1: d^2 = I
                    if int(f) % 2 == 0:
                        return [self._with(m, l[:i] + l[i + 1:])], "sign^2"
                    return [self._with(m, l[:i] + [a.with_(exp=z3.RealVal(1))] + l[i + 1:])], "sign^odd"
        for i in range(n - 1):
            a, b = l[i], l[i + 1]
            if a.kind == "sel" and b.kind == "sel":
                (am, ak), (bm, bk) = a.base, b.base
                if not a.h and not b.h and ak == bm:
                    return [self._with(m, l[:i] + self._sel(am, bk) + l[i + 2:])], "sel-comp"
                if a.h and b.h and bk == am:
                    return [self._with(m, l[:i] + self._sel(bm, ak, h=True) + l[i + 2:])], "sel-compH"
                if a.h and not b.h and am == bm:
                    if ak == bk:
                        return [self._with(m, l[:i] + l[i + 2:])], "sel-iso"
                    if self.le(E[bk], E[ak]):
                        return [self._with(m, l[:i] + self._sel(ak, bk) + l[i + 2:])], "selH-sel"
                    if self.le(E[ak], E[bk]):
                        return [self._with(m, l[:i] + self._sel(bk, ak, h=True) + l[i + 2:])], "selH-sel'"
            # diagonal through selection:  D E[m>k] = E[m>k] (D|k) ;  E^H D = (D|k) E^H
            if a.diag and b.kind == "sel" and not b.h and a.cols.name == b.base[0]:
                return [self._with(m, l[:i] + [b, self._restr(a, E[b.base[1]])] + l[i + 2:])], "diag-sel"
            if b.diag and a.kind == "sel" and a.h and b.rows.name == a.base[0]:
                return [self._with(m, l[:i] + [self._restr(b, E[a.base[1]]), a] + l[i + 2:])], "sel-diag"
            # diagonal through a permutation:  D P = P (D.P) ;  P^H D = (D.P) P^H
            if a.diag and b.perm and not b.h and not b.i:
                return [self._with(m, l[:i] + [b, self._restr(a, b.cols, via=b.base)] + l[i + 2:])], "diag-perm"
            if b.diag and a.perm and a.h and not a.i:
                return [self._with(m, l[:i] + [self._restr(b, a.rows, via=a.base), a] + l[i + 2:])], "perm-diag"
            if a.kind == "J" and b.kind == "J":
                return [self._with(m, l[:i] + [a] + l[i + 2:])], "J-idem"
            # inverses / unitaries
            if a.kind == b.kind and a.base == b.base and not a.diag and a.c == b.c:
                if a.kind in ("sym", "inv") and a.invt and a.h == b.h and a.i != b.i:
                    return [self._with(m, l[:i] + l[i + 2:])], "A*A^-1"
                if a.unit and a.h != b.h and a.i == b.i:
                    return [self._with(m, l[:i] + l[i + 2:])], "U^H*U"
            # diagonal run: sort + merge
            if a.diag and b.diag:
                ka, kb = (a.kind, str(a.base), a.c), (b.kind, str(b.base), b.c)
                if ka == kb:
                    if a.pos or a.invt or (self._nonneg_int(a.exp) and self._nonneg_int(b.exp)) or (
                            a.nn and self._nonneg(a.exp) and self._nonneg(b.exp)):
                        return [self._with(m, l[:i] + [a.with_(exp=z3.simplify(a.exp + b.exp))] + l[i + 2:])], "diag-merge"
                elif str(ka) > str(kb):
                    return [self._with(m, l[:i] + [b, a] + l[i + 2:])], "diag-comm"
        # opaque inverse next to its own argument: inv(P) P = P inv(P) = I, also for the adjoint / conjugate images
        # (keys AND diagonal exponents of the neighbouring segment must match the argument exactly; a single diagonal
        # atom with a larger integer exponent loses one power)
        def _same(xs, ys):
            return len(xs) == len(ys) and all(x.key == y.key and ((not x.diag) or _eqz(x.exp, y.exp)) for x, y in zip(xs, ys))

        def _eqz(a, b):
            return z3.eq(z3.simplify(a), z3.simplify(b))
        for i, a in enumerate(l):
            if a.kind == "inv" and len(a.inner) == 1 and not a.inner[0].scal:
                inn = self.adj_poly(a.inner, a.h, a.c)[0] if (a.h or a.c) else a.inner[0]
                k = len(inn.atoms)
                if not k:
                    continue
                for lo, hi in ((i + 1, i + 1 + k), (i - k, i)):
                    if lo < 0 or hi > n:
                        continue
                    seg = l[lo:hi]
                    if _same(seg, list(inn.atoms)):
                        rest = l[:i] + l[hi:] if lo > i else l[:lo] + l[i + 1:]
                        mm = self._with(m, rest)
                        mm.coef = mm.coef / inn.coef
                        return [mm], "inv(P)*P"
                    if k == 1 and seg[0].key == inn.atoms[0].key and seg[0].diag and _is_num(inn.atoms[0].exp, 1) \
                            and self._nonneg_int(seg[0].exp) and z3.simplify(seg[0].exp).as_fraction() >= 1:
                        red = seg[0].with_(exp=z3.simplify(seg[0].exp - 1))
                        rest = (l[:i] + [red] + l[hi:]) if lo > i else (l[:lo] + [red] + l[i + 1:])
                        mm = self._with(m, rest)
                        mm.coef = mm.coef / inn.coef
                        return [mm], "inv(D)*D^e"
        # hypotheses
        keys = [a.key for a in l]
        for name, lhs, rhs in self.rules:
            k = len(lhs)
            for i in range(n - k + 1):
                if tuple(keys[i:i + k]) == lhs and all(
                        (not a.diag) or _is_num(a.exp, 1) for a in l[i:i + k]):
                    out = []
                    for r in rhs:
                        out.append(Mono(m.coef * r.coef, self.smerge(m.scal, r.scal),
                                        l[:i] + list(r.atoms) + l[i + k:], m.rows, m.cols))
                    return out, f"{name}"
        return None

    @staticmethod
    def _nonneg(e):
        e = z3.simplify(e)
        return (z3.is_rational_value(e) or z3.is_int_value(e)) and e.as_fraction() >= 0

    @staticmethod
    def _nonneg_int(e):
        e = z3.simplify(e)
        return (z3.is_rational_value(e) or z3.is_int_value(e)) and e.as_fraction() >= 0 \
            and e.as_fraction().denominator == 1

    def _with(self, m, atoms):
        return Mono(m.coef, m.scal, atoms, m.rows, m.cols)

    def _sel(self, mname, kname, h=False):
        if mname == kname:
            return []
        E = self.exts
        a = Atom("sel", (mname, kname), E[mname], E[kname], real=True)
        return [a.adj(h, False)]

    def _restr(self, d, k, via=None):
        """restriction of diagonal atom d to its leading k x k block (or its image under a permutation)"""
        if via is None and d.rows.name == k.name:
            return d
        if d.kind == "restr" and via is None and not str(d.base[1]).startswith("Perm["):
            base = (d.base[0], k.name)
        else:
            base = (("conj " if d.c else "") + f"{d.kind}:{d.base}", via or k.name)
        a = Atom("restr", base, k, k, diag=True, real=d.real, herm=d.herm, pos=d.pos, invt=d.invt,
                 unit=d.unit, exp=d.exp)
        a.nn = d.nn
        return a

    # ---------- polynomial normal form
    def nf_mono(self, m):
        work = [m]
        done = []
        steps = 0
        while work:
            x = work.pop()
            r = self.step(x)
            if r is None:
                done.append(x)
                continue
            steps += 1
            if steps > self.MAXSTEPS:
                raise Unsupported("normaliser step limit")
            self.steps.append(r[1])
            work.extend(r[0])
        return done

    def nf_poly(self, P):
        out = {}
        for m in P:
            for x in self.nf_mono(m):
                x = self._fold_nums(x)
                k = (x.skey(), tuple(str(z3.simplify(a.exp)) for a in x.atoms if a.diag),
                     tuple(str(z3.simplify(e)) for _, e in x.scal))
                if k in out:
                    out[k] = Mono(out[k].coef + x.coef, x.scal, x.atoms, x.rows, x.cols)
                else:
                    out[k] = x
        res = []
        for x in out.values():
            c = z3.simplify(x.coef)
            if _is_num(c, 0):
                continue
            x.coef = c
            res.append(x)
        return res

    def _fold_nums(self, x):
        """numeric scalar atoms with integer exponents are folded into the coefficient"""
        if not any(k[0] == "num" for k, _ in x.scal):
            return x
        coef, keep = x.coef, []
        for k, e in x.scal:
            es = z3.simplify(e)
            if k[0] == "num" and _is_num(es) and es.as_fraction().denominator == 1:
                v = self.scalars[k][1]
                nexp = int(es.as_fraction())
                f = z3.RealVal(1)
                for _ in range(abs(nexp)):
                    f = f * v
                coef = coef * f if nexp >= 0 else coef / f
            else:
                keep.append((k, e))
        return Mono(coef, tuple(keep), x.atoms, x.rows, x.cols)

    def nf(self, t):
        return self.nf_poly(self.flat(t))

    # ---------- equality
    def equal(self, a, b):
        """-> (ok, residue text)"""
        A, B = self.nf(a), self.nf(b)
        return self.equal_poly(A, B)

    def equal_poly(self, A, B):
        rest = list(B)
        resid = []
        for m in A:
            hit = None
            for j, x in enumerate(rest):
                if m.skey() == x.skey():
                    conds = [m.coef == x.coef]
                    conds += [p.exp == q.exp for p, q in zip(m.atoms, x.atoms) if p.diag]
                    conds += [e1 == e2 for (_, e1), (_, e2) in zip(m.scal, x.scal)]
                    if self.valid(z3.And(conds)):
                        hit = j
                        break
            if hit is None:
                if self.valid(m.coef == 0):
                    continue
                resid.append(("lhs", m))
            else:
                rest.pop(hit)
        for x in rest:
            if not self.valid(x.coef == 0):
                resid.append(("rhs", x))
        if resid:
            return False, "; ".join(f"{s}:{m!r}" for s, m in resid)
        return True, ""

"""Matrix-algebra terms over C (domain A of DESIGN.md 1.3).

Everything is a matrix: a 0-d xarray value is a 1x1 term, a 1-d value over dim d is the
diagonal matrix diag(v) of extent |d|, a 2-d value is rows x cols.  Extents are symbolic
(z3 Int expressions) and compared by *identity of their canonical text*.
"""
import itertools
from fractions import Fraction

import z3


class Unsupported(Exception):
    """The traced code used something the proxies/facades do not model: the function is
    out of reach for the deductive part (never silently approximated)."""


_ext_cache = {}


class Ext:
    __slots__ = ("name", "z")

    def __init__(self, name, z=None):
        self.name = name
        self.z = z if z is not None else z3.Int(name)

    def __repr__(self):
        return self.name


def ext_of(z):
    """canonical Ext for a z3 Int expression"""
    z = z3.simplify(z) if not isinstance(z, int) else z3.IntVal(z)
    k = str(z)
    if k not in _ext_cache:
        _ext_cache[k] = Ext(k, z)
    return _ext_cache[k]


def named_ext(name):
    if name not in _ext_cache:
        _ext_cache[name] = Ext(name)
    return _ext_cache[name]


ONE = ext_of(1)


EXT_EQ = None   # hook set by the tracer: (Ext, Ext) -> bool, equality under the current path facts


def same_ext(a, b):
    if a is b or a.name == b.name:
        return True
    return bool(EXT_EQ and EXT_EQ(a, b))


def rv(x):
    """lift a python number to a z3 Real"""
    if isinstance(x, z3.ExprRef):
        return z3.ToReal(x) if x.sort() == z3.IntSort() else x
    if isinstance(x, bool):
        raise Unsupported("bool as real")
    if isinstance(x, int):
        return z3.RealVal(x)
    if isinstance(x, float):
        return z3.RealVal(str(Fraction(x)))
    if isinstance(x, Fraction):
        return z3.RealVal(str(x))
    raise Unsupported(f"cannot lift {type(x).__name__} to a real scalar")


class T:
    """term node.  props: subset of {real, diag, herm, pos, inv, unit}
    real: all entries real; diag: diagonal; herm: Hermitian; pos: diagonal with strictly positive
    real entries; inv: square and invertible; unit: unitary (square, U^H U = U U^H = I)"""
    __slots__ = ("op", "args", "rows", "cols", "props")

    def __init__(self, op, args, rows, cols, props=()):
        self.op = op
        self.args = tuple(args)
        self.rows = rows
        self.cols = cols
        self.props = frozenset(props)

    def __repr__(self):
        if self.op == "sym":
            return self.args[0]
        if self.op == "I":
            return f"I[{self.rows}]"
        if self.op == "sel":
            return f"E[{self.rows}>{self.cols}]"
        if self.op == "J":
            return f"J[{self.rows}]"
        if self.op == "smul":
            return f"({z3.simplify(self.args[0])})*{self.args[1]!r}"
        if self.op == "dpow":
            return f"{self.args[0]!r}^({z3.simplify(self.args[1])})"
        return f"{self.op}({', '.join(map(repr, self.args))})"


def sym(name, rows, cols, props=()):
    return T("sym", (name,), rows, cols, props)


def I(e):
    return T("I", (), e, e, ("diag", "herm", "real", "unit", "inv"))


def Z(r, c):
    return T("zero", (), r, c, ("real",))


def sel(m, k):
    """m x k : the first k columns of I_m (k <= m is a side condition of the caller)"""
    if same_ext(m, k):
        return I(m)
    return T("sel", (), m, k, ("real",))


def J(n):
    """centring projector I - 11^T/n"""
    return T("J", (), n, n, ("real", "herm"))


def mul(a, b):
    if not same_ext(a.cols, b.rows):
        raise Unsupported(f"shape mismatch {a.rows}x{a.cols} @ {b.rows}x{b.cols}: {a!r} @ {b!r}")
    pr = set()
    for p in ("diag", "real", "pos", "inv", "unit"):
        if p in a.props and p in b.props:
            pr.add(p)
    if "diag" in pr and "herm" in a.props and "herm" in b.props:
        pr.add("herm")
    return T("mul", (a, b), a.rows, b.cols, pr)


def add(a, b):
    if not (same_ext(a.rows, b.rows) and same_ext(a.cols, b.cols)):
        raise Unsupported(f"shape mismatch in add: {a!r} + {b!r}")
    pr = (a.props & b.props) - {"inv", "unit", "pos"}
    if "pos" in a.props and "pos" in b.props:
        pr = pr | {"pos", "inv"}
    return T("add", (a, b), a.rows, a.cols, pr)


def smul(c, a):
    c = rv(c)
    pr = set(a.props) - {"unit", "pos", "inv"}
    return T("smul", (c, a), a.rows, a.cols, pr)


def neg(a):
    return smul(z3.RealVal(-1), a)


def sub(a, b):
    return add(a, neg(b))


def H(a):
    if "herm" in a.props:
        return a
    return T("H", (a,), a.cols, a.rows, a.props)


def conj(a):
    if "real" in a.props:
        return a
    return T("conj", (a,), a.rows, a.cols, a.props)


def Tr(a):
    if "diag" in a.props:
        return a
    return T("T", (a,), a.cols, a.rows, a.props)


def inv(a):
    if not same_ext(a.rows, a.cols):
        raise Unsupported("inverse of a non-square term")
    return T("inv", (a,), a.cols, a.rows, a.props)


def dpow(d, e):
    """real power of a positive diagonal matrix (or non-negative integer power of any diagonal)"""
    if "diag" not in d.props:
        raise Unsupported("dpow of a non-diagonal term")
    pr = {"diag"} | (d.props & {"real", "pos", "herm", "inv"})
    return T("dpow", (d, rv(e)), d.rows, d.cols, pr)


def dg(a):
    """diagonal part of a square matrix, as a diagonal matrix"""
    if not same_ext(a.rows, a.cols):
        raise Unsupported("dg of non-square")
    return T("dg", (a,), a.rows, a.cols, {"diag"} | (a.props & {"real", "herm"}))


def tr(a):
    """trace, as a 1x1 term"""
    if not same_ext(a.rows, a.cols):
        raise Unsupported("trace of non-square")
    return T("tr", (a,), ONE, ONE, {"diag"} | (a.props & {"real", "herm"}))


def re(a):
    if "real" in a.props:
        return a
    return T("re", (a,), a.rows, a.cols, (a.props | {"real"}) - {"unit", "inv", "pos"})


def fn(name, a, rows=None, cols=None, props=()):
    """uninterpreted function of a term (abs, hilbert, ...)"""
    return T("fn", (name, a), rows or a.rows, cols or a.cols, props)


def vstack(a, b):
    if not same_ext(a.cols, b.cols):
        raise Unsupported("vstack cols mismatch")
    return T("vstack", (a, b), ext_of(a.rows.z + b.rows.z), a.cols, a.props & b.props & {"real"})


_fresh = itertools.count()


def fresh(prefix):
    return f"{prefix}#{next(_fresh)}"

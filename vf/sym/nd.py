"""Positional array proxies (numpy level) for the kernels that xeofs runs through xr.apply_ufunc:
the facade's apply_ufunc can *trace through* such a kernel (the real function object is called on
SymND values) instead of replacing it by a stub.  A SymND is 2-d (rows x cols term), 1-d (diagonal
term) or 0-d (1x1 term)."""
import numpy as _np
import z3

from . import terms as tm
from .core import PNum, PBool, Unsupported, ctx, decide, zl
from .terms import ONE, ext_of, same_ext


class SymND:
    def __init__(self, term, ndim, cplx=False, lazy=False, tags=()):
        self.term, self.nd, self.cplx, self.lazy = term, ndim, cplx, lazy
        self.tags = frozenset(tags)

    @property
    def __class__(self):
        if self.lazy:
            import dask.array
            return dask.array.Array
        return _np.ndarray

    @property
    def ndim(self):
        return self.nd

    @property
    def shape(self):
        if self.nd == 2:
            return (PNum(self.term.rows.z), PNum(self.term.cols.z))
        if self.nd == 1:
            return (PNum(self.term.rows.z),)
        return ()

    @property
    def dtype(self):
        return _np.dtype(complex if self.cplx else float)

    def _new(self, term, nd=None, cplx=None, tags=()):
        return SymND(term, self.nd if nd is None else nd, self.cplx if cplx is None else cplx, self.lazy, tags)

    def copy(self):
        return self._new(self.term, tags=self.tags)

    def conj(self):
        return self._new(tm.conj(self.term), tags=self.tags) if self.cplx else self

    @property
    def T(self):
        if self.nd < 2:
            return self
        return self._new(tm.Tr(self.term))

    def transpose(self, *a):
        return self.T

    @property
    def real(self):
        return self._new(tm.re(self.term), cplx=False, tags=self.tags) if self.cplx else self

    def __matmul__(self, o):
        if not isinstance(o, SymND):
            return NotImplemented
        if self.nd == 2 and o.nd == 2:
            return SymND(tm.mul(self.term, o.term), 2, self.cplx or o.cplx, self.lazy or o.lazy)
        raise Unsupported("matmul with a vector operand")

    def _scal(self, o):
        if isinstance(o, (int, float)) and type(o) is not bool or type(o) is PNum:
            return tm.rv(zl(o))
        if isinstance(o, (_np.integer, _np.floating)):
            return tm.rv(float(o))
        return None

    def __mul__(self, o):
        z = self._scal(o)
        if z is not None:
            return self._new(tm.smul(z, self.term))
        if isinstance(o, Col):            # h[:, None] * X : row scaling
            if self.nd == 2:
                return SymND(tm.mul(o.v.term, self.term), 2, self.cplx or o.v.cplx, self.lazy)
        if isinstance(o, SymND):
            if self.nd == 2 and o.nd == 1:      # broadcast over the last axis: column scaling
                return SymND(tm.mul(self.term, o.term), 2, self.cplx or o.cplx, self.lazy or o.lazy)
            if self.nd == 1 and o.nd == 2:
                return o.__mul__(self)
            if self.nd == 1 and o.nd == 1:
                return SymND(tm.mul(self.term, o.term), 1, self.cplx or o.cplx, self.lazy or o.lazy)
            if o.nd == 0:
                return self._new(tm.T("scale", (o.term, self.term), self.term.rows, self.term.cols, self.term.props - {"unit"}))
            if self.nd == 0:
                return o.__mul__(self)
            raise Unsupported("element-wise product of two matrices")
        return NotImplemented

    __rmul__ = __mul__
    __imul__ = __mul__

    def __truediv__(self, o):
        z = self._scal(o)
        if z is not None:
            return self._new(tm.smul(1 / z, self.term))
        if isinstance(o, SymND):
            if o.nd == 0:
                return self._new(tm.T("scale", (tm.T("sinv", (o.term,), ONE, ONE, o.term.props), self.term),
                                      self.term.rows, self.term.cols, self.term.props - {"unit"}))
            if o.nd == 1 and self.nd in (1, 2):
                return SymND(tm.mul(self.term, tm.inv(o.term)), self.nd, self.cplx or o.cplx, self.lazy or o.lazy)
        return NotImplemented

    def __rtruediv__(self, o):
        z = self._scal(o)
        if z is not None and self.nd == 1:
            return self._new(tm.smul(z, tm.inv(self.term)))
        return NotImplemented

    def __add__(self, o):
        if isinstance(o, SymND) and o.nd == self.nd:
            return SymND(tm.add(self.term, o.term), self.nd, self.cplx or o.cplx, self.lazy or o.lazy)
        return NotImplemented

    def __sub__(self, o):
        if isinstance(o, SymND) and o.nd == self.nd:
            return SymND(tm.sub(self.term, o.term), self.nd, self.cplx or o.cplx, self.lazy or o.lazy)
        return NotImplemented

    def __neg__(self):
        return self._new(tm.neg(self.term))

    def __abs__(self):
        if self.nd == 1:
            return SymND(tm.fn("abs", self.term, props=("diag", "real", "herm", "nonneg")), 1, False, self.lazy, ("nonneg",))
        raise Unsupported("abs of a matrix")

    def __pow__(self, e):
        if self.nd == 1:
            if type(e) is PNum:
                return self._new(tm.dpow(self.term, e.z))
            if isinstance(e, (int, float)) and type(e) is not bool:
                return self._new(tm.dpow(self.term, e))
        if self.nd == 0 and isinstance(e, (int, float)):
            return self._new(tm.T("spow", (self.term, tm.rv(e)), ONE, ONE, self.term.props))
        raise Unsupported("power of a matrix")

    def __gt__(self, o):
        if self.nd == 1:
            return Mask(self, ">", o)
        raise Unsupported("comparison of a matrix")

    def __ge__(self, o):
        if self.nd == 1:
            return Mask(self, ">=", o)
        raise Unsupported("comparison of a matrix")

    def __getitem__(self, key):
        if not isinstance(key, tuple):
            key = (key,)
        r = self
        for ax, k in enumerate(key):
            if type(k) is slice and k == slice(None):
                continue
            if k is None:
                if r.nd == 1 and ax == 1:
                    return Col(r)
                raise Unsupported("newaxis")
            if type(k) is slice and k.start is None and k.step is None and not (type(k.stop) is int and k.stop < 0):
                r = r._prefix(ax, k.stop)
            elif isinstance(k, Mask):
                r = r._mask(ax, k)
            elif isinstance(k, ArgsortND):
                r = r._perm(ax, k)
            elif type(k) is slice and k.step is None and (k.stop is None or type(k.stop) is int and k.stop < 0 or k.start is not None):
                r = r._rows(ax, k)
            else:
                raise Unsupported(f"index {k!r}")
        return r

    def _apply(self, ax, M, ext_new):
        t = self.term
        if self.nd == 2:
            nt = tm.mul(tm.Tr(M), t) if ax == 0 else tm.mul(t, M)
            return nt
        nt = tm.mul(tm.mul(tm.Tr(M), t), M)
        return tm.T(nt.op, nt.args, ext_new, ext_new, t.props & {"diag", "real", "pos", "herm", "inv"})

    def _prefix(self, ax, stop):
        old = self.term.rows if (ax == 0) else self.term.cols
        z = zl(stop)
        if decide(z >= old.z):
            return self
        if not decide(z >= 0):
            raise Unsupported("negative slice stop")
        new = ext_of(z)
        return self._new(self._apply(ax, tm.sel(old, new), new), tags=self.tags & {"desc", "asc", "nonneg"})

    def _rows(self, ax, k):
        """general contiguous row window X[a:b] as a row-selection isometry (used by POP: X[1:], X[:-1])"""
        old = self.term.rows if ax == 0 else self.term.cols
        a = 0 if k.start is None else k.start
        b = old.z if k.stop is None else (old.z + k.stop if k.stop < 0 else k.stop)
        new = ext_of(z3.simplify(b - a))
        W = tm.sym(f"Win[{a}:{z3.simplify(b)}|{old.name}]", old, new, ("real",))
        ctx().hyps.append((tm.mul(tm.Tr(W), W), tm.I(new), "row window is an isometry"))
        return self._new(self._apply(ax, W, new))

    def _mask(self, ax, mask):
        if not mask.all_true():
            raise Unsupported("data-dependent boolean mask that is not provably all-true")
        return self

    def _perm(self, ax, a):
        old = self.term.rows if ax == 0 else self.term.cols
        P = tm.sym(f"Perm[{a.name}]", old, old, ("real", "unit", "inv"))
        tags = set(self.tags & {"nonneg"})
        if self.nd == 1 and a.of is self.term:
            tags.add("desc" if a.rev else "asc")
        return self._new(self._apply(ax, P, old), tags=tags)

    def mean(self, axis=None):
        raise Unsupported("mean on positional proxy")

    def cumsum(self, axis=None):
        if self.nd != 1:
            raise Unsupported("cumsum of a matrix")
        from .xda import CumSum
        return CumSum(self, self.term.rows)

    def item(self):
        if self.nd == 0:
            return PNum(z3.Real(f"item[{self.term!r}]"))
        raise ValueError("can only convert an array of size 1 to a Python scalar")

    def var(self, axis=None, ddof=0):
        if self.nd == 2 and axis == 0:
            n = self.term.rows
            g = tm.dg(tm.mul(tm.mul(tm.H(self.term), tm.J(n)), self.term))
            g = tm.T(g.op, g.args, g.rows, g.cols, g.props | {"real", "herm"})
            return SymND(tm.smul(1 / tm.rv(n.z - ddof), g), 1, False, self.lazy, ("nonneg",))
        raise Unsupported("var")

    def sum(self, axis=None):
        if self.nd == 1:
            return SymND(tm.tr(self.term), 0, self.cplx, self.lazy)
        raise Unsupported("sum of matrix")

    def __array__(self, *a, **k):
        raise Unsupported("np.asarray on a proxy")

    def __bool__(self):
        raise Unsupported("truth value of an array proxy")

    def __len__(self):
        raise Unsupported("len of array proxy")

    def __iter__(self):
        raise Unsupported("iteration over array proxy")

    def __getattr__(self, k):
        if k.startswith("__"):
            raise AttributeError(k)
        raise Unsupported("ndarray proxy has no attribute " + k)

    def __repr__(self):
        return f"SymND{self.nd}<{self.term!r}>"


class Col:
    """v[:, np.newaxis]"""

    def __init__(self, v):
        self.v = v

    def __mul__(self, o):
        if isinstance(o, SymND) and o.nd == 2:
            return SymND(tm.mul(self.v.term, o.term), 2, self.v.cplx or o.cplx, o.lazy)
        return NotImplemented

    __rmul__ = __mul__


class Mask:
    def __init__(self, v, op, rhs):
        self.v, self.op, self.rhs = v, op, rhs

    def all_true(self):
        """a cut-off mask `s > eps` is all-true under the full-rank precondition (EPS read as 0)"""
        return "pos" in self.v.term.props and self.op in (">", ">=") and (
            isinstance(self.rhs, (int, float, _np.floating)) and abs(float(self.rhs)) < 1e-6)


class ArgsortND:
    def __init__(self, name, of, rev=False):
        self.name, self.of, self.rev = name, of, rev

    def __getitem__(self, k):
        if type(k) is slice and k.start is None and k.stop is None and k.step == -1:
            return ArgsortND(self.name + "~", self.of, not self.rev)
        raise Unsupported("indexing an argsort result")


def passthrough(xda_mod):
    """apply_ufunc handler that runs the REAL kernel on positional proxies"""
    SymDA = xda_mod.SymDA

    def handler(func, args, icd, ocd, kwargs):
        nds = []
        lazy = False
        for a, core in zip(args, icd):
            if isinstance(a, SymDA):
                core = tuple(core)
                if set(core) != set(a.dims):
                    if not set(core) <= set(a.dims):
                        raise ValueError(f"operand to apply_ufunc has required core dimensions {list(core)}, but some are missing: {a.dims}")
                    raise Unsupported("apply_ufunc with non-core (broadcast) dimensions")
                at = a.transpose(*core) if len(core) == 2 else a
                nds.append(SymND(at.term, len(core), a.cplx, a.lazy, at.tags))
                lazy = lazy or a.lazy
            else:
                nds.append(a)
        out = func(*nds, **kwargs)
        single = len(ocd) == 1
        outs = (out,) if single else tuple(out)
        if len(outs) != len(ocd):
            raise ValueError("apply_ufunc: number of outputs does not match output_core_dims")
        res = []
        # extents -> dims bookkeeping: an output dim that is an input core dim keeps that input's coordinate
        cids = {}
        for a in args:
            if isinstance(a, SymDA):
                cids.update({d: a._cid.get(d) for d in a.dims})
        for o, core in zip(outs, ocd):
            core = tuple(core)
            if not isinstance(o, SymND) or o.nd != len(core):
                raise Unsupported(f"kernel output {o!r} does not match core dims {core}")
            if o.nd == 2:
                ext = {core[0]: o.term.rows, core[1]: o.term.cols}
            elif o.nd == 1:
                ext = {core[0]: o.term.rows}
            else:
                ext = {}
            res.append(SymDA(o.term, core, ext, {d: cids.get(d) for d in core}, o.cplx, o.lazy, tags=o.tags))
        return res[0] if single else tuple(res)
    return handler

"""Domain L (DESIGN.md 1.3): structural proxies for labelled arrays of any rank, traced through the REAL
preprocessing chain.  A LDA carries ordered dims, symbolic extents, a coordinate identity per dim, a value
provenance term (a nested tuple), a lazy flag, an owner tag; effects (force / mutate) go to the tracing context.

Coordinate identities (CoordId) are compared modulo two laws of xarray that the property itself allows:
`sorted[c]` has the same labels as c (unstack sorts), and `kept[c]` (labels surviving dropna) is a sub-selection
of c.  Order-sensitive comparisons (.equals/.identical) between c and sorted[c] fork on "c is already sorted".
"""
import builtins
import itertools

import numpy as _np
import pandas as _pd
import xarray as _xr
import z3

from .core import PBool, PNum, Unsupported, ctx, decide, zl
from .terms import Ext, ext_of, named_ext, fresh


class CoordId:
    def __init__(self, kind, *parts):
        self.kind, self.parts = kind, parts
        self.key = (kind,) + tuple(getattr(p, "key", p) for p in parts)

    def base(self):
        """identity modulo sorting"""
        c = self
        while c.kind == "sorted":
            c = c.parts[0]
        return c

    def same_labels(self, o):
        return self.base().key == o.base().key

    def __repr__(self):
        return f"{self.kind}{list(self.parts)}" if self.parts else self.kind


KEPT = {}     # key of a kept[...] identity -> (extent of the selection, extent of the full coordinate)


class LCoord:
    """a coordinate variable: 1-d labelled array over its own dim"""

    def __init__(self, dim, cid, ext, index_kind="Index", levels=(), lazy=False):
        self.dim, self.cid, self.ext, self.index_kind, self.levels = dim, cid, ext, index_kind, tuple(levels)

    @property
    def __class__(self):
        return _xr.DataArray

    @property
    def size(self):
        return PNum(self.ext.z)

    @property
    def dims(self):
        return (self.dim,)

    @property
    def sizes(self):
        return {self.dim: PNum(self.ext.z)}

    def isel(self, m=None, **kw):
        m = dict(m or {}, **kw)
        (d, v), = m.items()
        if d != self.dim or not isinstance(v, LValues) or not isinstance(v.c, LCoord):
            raise Unsupported("coordinate isel")
        # positional selection by the integer positions another array still carries along this dim
        pos = v.c
        if pos.cid.kind == "kept" and pos.cid.parts[0].kind in ("range",):
            return LCoord(self.dim, CoordId("kept", self.cid), pos.ext, self.index_kind, self.levels)
        raise Unsupported(f"positional selection by {pos.cid}")

    @property
    def name(self):
        return self.dim

    def equals(self, o):
        return self._eq(o)

    def identical(self, o):
        return self._eq(o)

    def _eq(self, o):
        if not isinstance(o, LCoord):
            return False
        if self.cid.key == o.cid.key:
            return True
        if self.cid.same_labels(o.cid):
            b = z3.Bool(f"is_sorted[{self.cid.base()}]")
            return decide(b)
        a, b_ = sorted([str(self.cid), str(o.cid)])
        eq = decide(z3.Bool(f"coords_equal[{a} == {b_}]"))
        # a sub-selection equals the full coordinate exactly when nothing was dropped
        for x, y in ((self, o), (o, self)):
            if x.cid.kind == "kept" and x.cid.parts[0].key == y.cid.key:
                ctx().facts.append((x.ext.z == y.ext.z) if eq else (x.ext.z < y.ext.z))
        return eq

    @property
    def values(self):
        return LValues(self)

    @property
    def data(self):
        return LValues(self)

    @property
    def indexes(self):
        d = {self.dim: LIndex(self)}
        for l in self.levels:
            d[l] = LIndex(self, l)
        return d

    @property
    def coords(self):
        return {self.dim: self}

    def __getattr__(self, k):
        if k.startswith("__"):
            raise AttributeError(k)
        raise Unsupported("coordinate proxy has no attribute " + k)

    def __repr__(self):
        return f"<coord {self.dim}:{self.cid}>"


class LValues:
    def __init__(self, c):
        self.c = c


class LIndex:
    def __init__(self, c, level=None):
        self.c, self.level = c, level

    @property
    def __class__(self):
        return _pd.MultiIndex if (self.c.index_kind == "MultiIndex" and self.level is None) else _pd.Index

    @property
    def size(self):
        return PNum(self.c.ext.z)

    @property
    def names(self):
        return list(self.c.levels)


def _lindex_getattr(self, k):
    if k.startswith("__"):
        raise AttributeError(k)
    raise Unsupported("index proxy has no attribute " + k)


LIndex.__getattr__ = _lindex_getattr


class SymRangeL:
    def __init__(self, a, b):
        self.a, self.b = a, b


class _CoordsView:
    def __init__(self, da):
        self.da = da

    def __getitem__(self, d):
        if d in self.da._coords:
            return self.da._coords[d]
        raise KeyError(d)

    def __setitem__(self, d, v):
        da = self.da
        if d not in da._dims:
            raise Unsupported("assigning a non-dimension coordinate")
        if isinstance(v, LCoord):
            if not decide(v.ext.z == da._ext[d].z):
                raise ValueError(f"conflicting sizes for dimension {d!r}")
            da._coords[d] = LCoord(d, v.cid, da._ext[d], v.index_kind, v.levels)
        elif isinstance(v, SymRangeL):
            da._coords[d] = LCoord(d, CoordId("range", str(v.a)), da._ext[d])
        elif isinstance(v, range):
            da._coords[d] = LCoord(d, CoordId("range", str(v.start)), da._ext[d])
        elif isinstance(v, _np.ndarray) and v.ndim == 1 and v.dtype.kind == "i" and len(v) and (_np.diff(v) == 1).all():
            if not decide(da._ext[d].z == len(v)):
                raise ValueError(f"conflicting sizes for dimension {d!r}")
            da._coords[d] = LCoord(d, CoordId("range", str(int(v[0]))), da._ext[d])
        else:
            raise Unsupported(f"coords[{d}] = {type(v).__name__}")

    def __contains__(self, d):
        return d in self.da._coords

    def items(self):
        return list(self.da._coords.items())

    def keys(self):
        return list(self.da._coords.keys())

    def __iter__(self):
        return iter(list(self.da._coords))


class LDA:
    def __init__(self, val, dims, ext, coords, lazy=False, owner="fresh", name=None, cplx=False, attrs=None):
        self.val = val
        self._dims = tuple(dims)
        self._ext = dict(ext)
        self._coords = {d: c for d, c in coords.items() if c is not None}
        self.lazy, self.owner, self._name, self.cplx = lazy, owner, name, cplx
        self._attrs = dict(attrs or {})

    @property
    def __class__(self):
        return _xr.DataArray

    dims = property(lambda s: s._dims)

    @property
    def shape(self):
        return tuple(PNum(self._ext[d].z) for d in self._dims)

    @property
    def sizes(self):
        return {d: PNum(self._ext[d].z) for d in self._dims}

    @property
    def ndim(self):
        return len(self._dims)

    @property
    def coords(self):
        return _CoordsView(self)

    @property
    def indexes(self):
        return {d: LIndex(c) for d, c in self._coords.items() if d in self._dims}

    @property
    def data(self):
        return _Buf(self)

    @property
    def dtype(self):
        return _np.dtype(complex if self.cplx else float)

    def _gn(self):
        return self._name

    def _sn(self, v):
        if self.owner != "fresh":
            ctx().events.append(("mutate", f"name of {self.owner} object {self.val!r}: {self._name!r} -> {v!r}"))
        self._name = v
    name = property(_gn, _sn)

    def _ga(self):
        return self._attrs

    def _sa(self, v):
        if self.owner != "fresh":
            ctx().events.append(("mutate", f"attrs of {self.owner} object {self.val!r}"))
        self._attrs = dict(v)
    attrs = property(_ga, _sa)

    def _force(self, what):
        if self.lazy:
            ctx().events.append(("force", f"{what} on lazy {_short(self.val)}"))

    def _new(self, val, dims=None, ext=None, coords=None, lazy=None):
        dims = self._dims if dims is None else tuple(dims)
        ext = dict(self._ext if ext is None else ext)
        co = dict(self._coords if coords is None else coords)
        return LDA(val, dims, ext, {d: c for d, c in co.items() if d in dims or True}, self.lazy if lazy is None else lazy, "fresh", None, self.cplx, self._attrs)

    def __getitem__(self, k):
        if isinstance(k, str):
            if k in self._coords:
                return self._coords[k]
            raise KeyError(k)
        raise Unsupported(f"indexing a structural proxy with {type(k).__name__}")

    def __getattr__(self, k):
        if k.startswith("__") or k.startswith("_"):
            raise AttributeError(k)
        if k in self._coords:
            return self._coords[k]
        raise Unsupported("DataArray proxy (structural) has no attribute " + k)

    def copy(self, deep=True):
        r = self._new(self.val)
        r._name = self._name
        return r

    def rename(self, m=None, **kw):
        if m is not None and not isinstance(m, dict):
            r = self._new(self.val)
            r._name = m
            return r
        m = dict(m or {}, **kw)
        for k in m:
            if k not in self._dims and k not in self._coords:
                raise ValueError(f"cannot rename {k!r} because it is not a variable or dimension in this dataset")
        dims = [m.get(d, d) for d in self._dims]
        if len(set(dims)) != len(dims):
            raise ValueError("rename would create duplicate dimensions")
        for new in m.values():
            if new in self._dims and new not in m:
                raise ValueError(f"the new name {new!r} conflicts")
        ext = {m.get(d, d): e for d, e in self._ext.items()}
        co = {m.get(d, d): LCoord(m.get(d, d), c.cid, c.ext, c.index_kind, c.levels) for d, c in self._coords.items()}
        r = self._new(self.val, dims, ext, co)
        r._name = self._name
        return r

    def transpose(self, *dims):
        if ... in dims:
            rest = [d for d in self._dims if d not in dims]
            i = dims.index(...)
            dims = dims[:i] + tuple(rest) + dims[i + 1:]
        if not dims:
            dims = self._dims[::-1]
        if set(dims) != set(self._dims) or len(dims) != len(self._dims):
            raise ValueError(f"{dims} must be a permuted list of {self._dims}")
        return self._new(self.val, dims)

    # ---- reductions / element-wise
    def _red(self, op, dims, **kw):
        dims = (dims,) if isinstance(dims, str) else tuple(dims)
        for d in dims:
            if d not in self._dims:
                raise ValueError(f"{d!r} not found in array dimensions {self._dims}")
        keep = [d for d in self._dims if d not in dims]
        return self._new((op, dims, self.val), keep)

    def mean(self, dims=None, **kw): return self._red("mean", dims)
    def std(self, dims=None, **kw): return self._red("std", dims)
    def var(self, dims=None, **kw): return self._red("var", dims)

    def any(self, dims=None):
        if dims is None:
            return self._new(("any", (), self.val), ())
        return self._red("any", dims)

    def sum(self, dims=None):
        if dims is None:
            return self._new(("sum", (), self.val), ())
        return self._red("sum", dims)

    def clip(self, min=None, max=None):
        return self._new(("clip", self.val))

    def notnull(self):
        return self._new(("notnull", self.val))

    def conj(self):
        return self

    def _bin(self, o, op):
        if isinstance(o, LDA):
            dims = list(self._dims) + [d for d in o._dims if d not in self._dims]
            ext = dict(self._ext)
            co = dict(self._coords)
            for d in o._dims:
                if d in self._dims:
                    a, b = self._coords.get(d), o._coords.get(d)
                    if a is not None and b is not None and a.cid.key != b.cid.key:
                        if a.cid.same_labels(b.cid):
                            pass          # same labels, xarray re-orders by label
                        else:
                            a_, b_ = sorted([str(a.cid), str(b.cid)])
                            if not decide(z3.Bool(f"coords_equal[{a_} == {b_}]")):
                                # inner join on differing labels silently drops / misaligns: a structural event
                                ctx().events.append(("inner-join", f"{d}: {a.cid} vs {b.cid}"))
                                co[d] = LCoord(d, CoordId("common", a.cid, b.cid), named_ext(fresh("common")))
                                ext[d] = co[d].ext
                else:
                    ext[d] = o._ext[d]
                    co[d] = o._coords.get(d)
            return LDA((op, self.val, o.val), dims, ext, co, self.lazy or o.lazy, "fresh", None, self.cplx or o.cplx)
        if isinstance(o, (int, float, _np.integer, _np.floating)) and type(o) is not bool:
            return self._new((op, self.val, float(o)))
        if isinstance(o, _xr.DataArray) and o.ndim == 0:
            # placeholder parameters such as xr.DataArray(name="mean_") never take part when the option is off
            raise Unsupported("arithmetic with an unset (placeholder) parameter")
        return NotImplemented

    __array_priority__ = 1000          # numpy scalars defer to the proxy's reflected operators

    def __sub__(self, o): return self._bin(o, "-")
    def __add__(self, o): return self._bin(o, "+")
    __radd__ = __add__
    def __mul__(self, o): return self._bin(o, "*")
    __rmul__ = __mul__
    def __truediv__(self, o): return self._bin(o, "/")
    def __and__(self, o): return self._bin(o, "&")
    def __invert__(self): return self._new(("~", self.val))

    def __bool__(self):
        if self._dims:
            raise ValueError("The truth value of an array with more than one element is ambiguous.")
        self._force("bool()")
        return decide(z3.Bool(f"truth[{_short(self.val)}]"))

    @property
    def values(self):
        self._force(".values")
        return LValues(self)

    def compute(self):
        self._force(".compute()")
        r = self._new(self.val, lazy=False)
        return r

    def isin(self, vals):
        return self._new(("isin", self.val, len(vals)))

    def equals(self, o):
        if isinstance(o, LDA) and o.val == self.val:
            return True
        self._force("equals()")
        return decide(z3.Bool(f"equals[{_short(self.val)} == {_short(getattr(o, 'val', o))}]"))

    def stack(self, m=None, **kw):
        m = dict(m or {}, **kw)
        (new, old), = m.items()
        old = tuple(old)
        for d in old:
            if d not in self._dims:
                raise ValueError(f"invalid existing dimension {d}")
        if new in self._dims:
            raise ValueError(f"cannot create a new dimension with the same name as an existing dimension {new!r}")
        dims = [d for d in self._dims if d not in old] + [new]
        prod = self._ext[old[0]].z
        for d in old[1:]:
            prod = prod * self._ext[d].z
        e = ext_of(prod)
        ext = {d: self._ext[d] for d in dims if d != new}
        ext[new] = e
        co = {d: c for d, c in self._coords.items() if d in dims}
        co[new] = LCoord(new, CoordId("stack", *[self._coords[d].cid for d in old]), e, "MultiIndex", levels=old)
        return self._new(self.val, dims, ext, co)

    def unstack(self, dim=None):
        if dim is None:
            raise Unsupported("unstack() of all dims")
        c = self._coords[dim]
        partial = c.cid.kind == "kept" and c.cid.parts[0].kind == "stack"
        stackid = c.cid.parts[0] if partial else c.cid
        if stackid.kind != "stack":
            raise ValueError(f"cannot unstack dimensions that do not have exactly one multi-index: {dim}")
        old = c.levels
        dims = [d for d in self._dims if d != dim] + list(old)
        ext = {d: self._ext[d] for d in self._dims if d != dim}
        co = {d: cc for d, cc in self._coords.items() if d != dim}
        for d, cid in zip(old, stackid.parts):
            if partial:
                # only the level values that still occur; combinations that were dropped come back as NaN
                ext[d] = named_ext(fresh(f"n_kept[{cid.base()}]"))
                co[d] = LCoord(d, CoordId("sorted", CoordId("kept", cid)), ext[d])
            else:
                ext[d] = named_ext(f"n[{cid.base()}]")
                co[d] = LCoord(d, CoordId("sorted", cid), ext[d])
        return self._new(("nanfill-unstack", self.val) if partial else self.val, dims, ext, co)

    def isel(self, m=None, **kw):
        """positional selection with an index token (an object with take_key / take_size: e.g. a recorded random draw)"""
        m = dict(m or {}, **kw)
        r = self
        for d, v in m.items():
            if d not in r._dims:
                raise ValueError(f"Dimensions {{{d!r}}} do not exist. Expected one or more of {r._dims}")
            if not hasattr(v, "take_key"):
                raise Unsupported(f"isel with {type(v).__name__}")
            e = ext_of(zl(v.take_size))
            ext = dict(r._ext)
            ext[d] = e
            co = dict(r._coords)
            if d in co:
                co[d] = LCoord(d, CoordId("take", co[d].cid, v.take_key), e)
            r = r._new(("take", d, v.take_key, r.val), None, ext, co)
        return r

    def drop_vars(self, names, errors="raise"):
        if isinstance(names, str):
            names = [names]
        co = dict(self._coords)
        for nme in names:
            co.pop(nme, None)
        return self._new(self.val, None, None, co)

    def assign_coords(self, m=None, **kw):
        m = dict(m or {}, **kw)
        r = self._new(self.val)
        r._name = self._name
        for d, v in m.items():
            r.coords[d] = v
        return r

    def set_index(self, m=None, **kw):
        m = dict(m or {}, **kw)
        r = self._new(self.val)
        for d, levels in m.items():
            c = r._coords[d]
            r._coords[d] = LCoord(d, c.cid, c.ext, "MultiIndex", tuple(levels))
        return r

    def where(self, cond, other=None, drop=False):
        if not drop:
            return self._new(("where", self.val, getattr(cond, "val", cond)))
        self._force("where(drop=True)")
        ext = {d: named_ext(fresh("kept_" + d)) for d in self._dims}
        co = {d: LCoord(d, CoordId("kept", c.cid), ext[d], c.index_kind, c.levels) for d, c in self._coords.items() if d in self._dims}
        for d, c in co.items():
            ctx().notes.setdefault("kept", {})[(c.cid.key, ext[d].name)] = (ext[d], self._ext[d])
        for d in self._dims:
            ctx().facts.append(ext[d].z <= self._ext[d].z)
            ctx().facts.append(ext[d].z >= 0)
        return self._new(("kept", self.val, getattr(cond, "val", cond)), None, ext, co)

    def dropna(self, dim, **kw):
        self._force("dropna")
        ext = dict(self._ext)
        ext[dim] = named_ext(fresh("kept_" + dim))
        co = dict(self._coords)
        c = co[dim]
        co[dim] = LCoord(dim, CoordId("kept", c.cid), ext[dim], c.index_kind, c.levels)
        return self._new(("kept", self.val), None, ext, co)

    def sel(self, m=None, drop=False, **kw):
        m = dict(m or {}, **kw)
        r = self._new(self.val)
        for d, v in m.items():
            if d not in self._dims:
                raise KeyError(d)
            if isinstance(v, SymRangeL):
                a, b = v.a, v.b
                whole = decide(zl(a) == 0) and decide(zl(b) == self._ext[d].z)
                if whole:
                    continue
                e = ext_of(zl(b) - zl(a))
                r._ext[d] = e
                r._coords[d] = LCoord(d, CoordId("block", self._coords[d].cid, str(a), str(b)), e)
                exts = ctx().notes.get("concat_exts", {}).get(r.val) if isinstance(r.val, tuple) and r.val[:2] == ("concat", d) else None
                item = None
                if exts is not None:
                    # which concatenated item is [a, b)?  (positions are cumulative extents)
                    lo = z3.IntVal(0)
                    for j, ez in enumerate(exts):
                        if decide(zl(a) == lo) and decide(zl(b) == lo + ez):
                            item = j
                            break
                        lo = lo + ez
                if item is not None:
                    r.val = ("block-item", item, r.val[2 + item])
                else:
                    r.val = ("block", d, str(a), str(b), r.val)
            else:
                raise Unsupported("sel value " + type(v).__name__)
        return r

    def reindex(self, m=None, **kw):
        m = dict(m or {}, **kw)
        r = self._new(("reindex", self.val))
        for d, v in m.items():
            tgt = v.c if isinstance(v, LValues) else v
            r._coords[d] = LCoord(d, tgt.cid, tgt.ext, "Index")
            r._ext[d] = tgt.ext
        return r

    def __array__(self, *a, **k):
        raise Unsupported("np.asarray on a structural proxy")

    def __len__(self):
        raise Unsupported("len of array proxy")

    def __iter__(self):
        raise Unsupported("iteration over array proxy")

    def __repr__(self):
        return f"LDA{self._dims} val={_short(self.val)} coords={{{', '.join(f'{d}:{c.cid}' for d, c in self._coords.items())}}}" + (" LAZY" if self.lazy else "")


LDA.__name__ = "DataArray"
LDA.__qualname__ = "DataArray"


class _Buf:
    def __init__(self, da):
        self.da = da

    @property
    def __class__(self):
        if self.da.lazy:
            import dask.array
            return dask.array.Array
        return _np.ndarray


def _short(v, n=90):
    s = repr(v)
    return s if len(s) <= n else s[:n] + "..."


def ops_in(val):
    """set of operation names occurring in a provenance term"""
    out = set()
    def walk(v):
        if isinstance(v, tuple):
            if v and isinstance(v[0], str):
                out.add(v[0])
            for x in v:
                walk(x)
    walk(val)
    return out


# ---------------------------------------------------------------- facades for the preprocessing modules
class _DAmeta(type):
    def __instancecheck__(cls, o):
        return builtins.isinstance(o, _xr.DataArray)

    def __call__(cls, *a, **k):
        return _xr.DataArray(*a, **k)      # only concrete placeholder arrays are constructed by the chain


class DAFacade(metaclass=_DAmeta):
    pass


class _DSmeta(type):
    def __instancecheck__(cls, o):
        return builtins.isinstance(o, _xr.Dataset)


class DSFacade(metaclass=_DSmeta):
    pass


class XRL:
    DataArray = DAFacade
    Dataset = DSFacade
    DataTree = _xr.DataTree

    def concat(self, objs, dim=None, **kw):
        objs = list(objs)
        if not objs:
            raise ValueError("must supply at least one object to concatenate")
        a = objs[0]
        if all(isinstance(o, LDA) and dim not in o._dims for o in objs):
            # stacking along a new leading dimension (xarray aligns the other dims by label)
            for o in objs[1:]:
                if set(o._dims) != set(a._dims):
                    raise Unsupported("concat of arrays with different dims along a new dim")
                for d in a._dims:
                    ca, cb = a._coords.get(d), o._coords.get(d)
                    if ca is not None and cb is not None and not ca.cid.same_labels(cb.cid):
                        ctx().events.append(("outer-join", f"concat along new {dim}: {d} labels differ ({ca.cid} vs {cb.cid})"))
            e = ext_of(z3.IntVal(len(objs)))
            ext = dict(a._ext)
            ext[dim] = e
            return LDA(("stack-new", dim) + tuple(o.val for o in objs), (dim,) + a._dims, ext, dict(a._coords),
                       any(o.lazy for o in objs), "fresh", None, a.cplx)
        if len(objs) == 1:
            return a._new(("concat", dim, a.val))
        tot = objs[0]._ext[dim].z
        for o in objs[1:]:
            tot = tot + o._ext[dim].z
        e = ext_of(tot)
        ext = dict(a._ext)
        ext[dim] = e
        co = dict(a._coords)
        co[dim] = LCoord(dim, CoordId("concat", *[o._coords[dim].cid for o in objs]), e)
        positional = kw.get("join") == "override" or kw.get("compat") == "override"
        for o in objs[1:]:
            for d in a._dims:
                if d != dim:
                    ca, cb = a._coords.get(d), o._coords.get(d)
                    if ca is not None and cb is not None and not ca.cid.same_labels(cb.cid):
                        ctx().events.append(("outer-join", f"concat along {dim}: {d} labels differ ({ca.cid} vs {cb.cid})"))
                    elif ca is not None and cb is not None and ca.cid.key != cb.cid.key and positional:
                        # same labels in a possibly different order: only label-based alignment keeps values on their labels
                        ctx().events.append(("positional-join", f"concat along {dim} without alignment: {d} is {ca.cid} vs {cb.cid}"))
        val = ("concat", dim) + tuple(o.val for o in objs)
        ctx().notes.setdefault("concat_exts", {})[val] = [o._ext[dim].z for o in objs]
        return a._new(val, None, ext, co, any(o.lazy for o in objs))

    def corr(self, a, b, dim=None, **kw):
        """xr.corr: Pearson correlation (both arguments centred along dim) over the broadcast of the other dims"""
        if kw:
            raise Unsupported("xr.corr options")
        prod = a._bin(b, "*")
        r = prod._red("mean", dim)
        return LDA(("corr", (dim,) if isinstance(dim, str) else tuple(dim), a.val, b.val), r._dims, r._ext, r._coords, r.lazy, "fresh", None, r.cplx)

    def __getattr__(self, k):
        raise Unsupported("xr." + k)


class NPL:
    float32 = _np.float32

    def finfo(self, t):
        return _np.finfo(t)

    def unique(self, a):
        return _np.unique(a)

    def asarray(self, a):
        flat = _np.ravel(_np.array(a, dtype=object))
        if any(isinstance(x, (LDA, PNum, LCoord)) for x in flat):
            raise Unsupported("np.asarray on a proxy")
        return _np.asarray(a)

    def cumsum(self, l):
        out, acc = [], 0
        for x in l:
            acc = acc + x
            out.append(acc)
        return out

    def sign(self, x):
        if isinstance(x, LDA):
            return x._new(("sign", x.val))
        raise Unsupported("np.sign of a non-proxy")

    def arange(self, a, b=None):
        if type(a) is PNum or type(b) is PNum:
            return SymRangeL(a if b is not None else 0, b if b is not None else a)
        return _np.arange(a, b) if b is not None else _np.arange(a)

    def __getattr__(self, k):
        raise Unsupported("np." + k)


class DaskL:
    def compute(self, *a, **k):
        for x in a:
            if isinstance(x, LDA) and x.lazy:
                ctx().events.append(("compute", f"dask.compute({_short(x.val)})"))
        return tuple(_unl(x) for x in a)

    @property
    def base(self):
        return self


def _unl(x):
    if isinstance(x, LDA) and x.lazy:
        r = x._new(x.val, lazy=False)
        r._name = x._name
        return r
    return x


def compute_l(*a, **k):
    return DaskL().compute(*a, **k)


class PDL:
    MultiIndex = _pd.MultiIndex
    Index = _pd.Index


def range_l(a, b=None):
    if type(a) is PNum or type(b) is PNum:
        return SymRangeL(0 if b is None else a, a if b is None else b)
    return builtins.range(a, b) if b is not None else builtins.range(a)


def mk_input(tag, sample=("time",), feature=("lat", "lon"), lazy=False, order=None, owner="user-input", cplx=False, feature_tag="fit",
             multiindex=()):
    """symbolic input array: sample coordinates are the data set's own, feature coordinates are shared ('fit') unless told otherwise"""
    dims = list(order or (list(sample) + list(feature)))
    ext = {d: named_ext(f"n_{tag}_{d}" if d in sample else f"n_{feature_tag}_{d}") for d in dims}
    co = {}
    for d in dims:
        cid = CoordId(f"{tag}.{d}") if d in sample else CoordId(f"{feature_tag}.{d}")
        co[d] = LCoord(d, cid, ext[d], "MultiIndex" if d in multiindex else "Index", levels=(f"{d}_a", f"{d}_b") if d in multiindex else ())
    return LDA(("in", tag), dims, ext, co, lazy, owner, None, cplx)

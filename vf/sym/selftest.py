"""Engine self-check (DESIGN.md 3.4 / 4.1), run at the start of every check: the normaliser must accept a fixed list
of true matrix identities and REJECT a fixed list of false ones (each false one is a bug class met or seeded during the
build), and every accepted identity is cross-checked numerically with numpy on random instances that satisfy the
hypotheses (built from a real SVD).  A failure makes the check exit 3 (checker error), never a VIOLATION."""
import numpy as np
import z3

from . import terms as tm
from .norm import Normalizer
from .terms import named_ext


def _setup(cplx):
    n, p, k = named_ext("stn"), named_ext("stp"), named_ext("stk")
    facts = [n.z >= 2, p.z >= 1, k.z >= 1, k.z <= n.z, k.z <= p.z]
    pr = () if cplx else ("real",)
    X, U, V = tm.sym("X", n, p, pr), tm.sym("U", n, k, pr), tm.sym("V", p, k, pr)
    S = tm.sym("s", k, k, ("diag", "real", "herm", "nonneg"))
    Sp = tm.sym("sp", k, k, ("diag", "real", "herm", "nonneg", "pos", "inv"))
    R = tm.sym("R", k, k, pr + ("unit", "inv"))
    A = tm.sym("A", k, k, pr + ("inv",))
    W = tm.sym("W", n, k, pr)
    N = Normalizer(facts)
    N.add_hyp(tm.mul(tm.H(U), U), tm.I(k))
    N.add_hyp(tm.mul(tm.H(V), V), tm.I(k))
    N.add_hyp(tm.mul(X, V), tm.mul(U, S))
    N.add_hyp(tm.mul(tm.H(X), U), tm.mul(V, S))
    return N, dict(n=n, p=p, k=k, X=X, U=U, V=V, S=S, Sp=Sp, R=R, A=A, W=W)


def cases(e):
    n, k = e["n"], e["k"]
    X, U, V, S, Sp, R, A, W = e["X"], e["U"], e["V"], e["S"], e["Sp"], e["R"], e["A"], e["W"]
    G = tm.mul(tm.H(W), W)
    wd = tm.sym("w", n, n, ("diag", "real", "herm", "nonneg", "pos", "inv"))
    inv = 1 / tm.rv(n.z - 1)
    true = [
        (tm.mul(tm.H(tm.mul(U, S)), tm.mul(U, S)), tm.dpow(S, 2)),
        (tm.mul(tm.smul(inv, tm.mul(tm.H(X), X)), V), tm.mul(V, tm.smul(inv, tm.dpow(S, 2)))),
        (tm.mul(tm.mul(U, R), tm.H(tm.mul(V, R))), tm.mul(U, tm.H(V))),
        (tm.mul(tm.mul(A, tm.inv(A)), S), S),
        (tm.mul(tm.dpow(Sp, 0.5), tm.dpow(Sp, 0.5)), Sp),
        (tm.mul(tm.mul(Sp, tm.inv(Sp)), Sp), Sp),
        (tm.tr(tm.mul(tm.mul(tm.H(R), tm.dpow(S, 2)), R)), tm.tr(tm.dpow(S, 2))),
        (tm.mul(tm.mul(U, S), tm.inv(S)), U),                      # under the (assumed) invertibility the division expresses
        (tm.mul(tm.inv(tm.mul(tm.mul(R, G), tm.H(R))), tm.mul(R, G)), R),       # inv(R G R^H) R G = R
        (tm.mul(tm.H(tm.inv(G)), G), tm.I(k)),                                   # the inverse of a Hermitian matrix is Hermitian
        (tm.mul(tm.mul(tm.mul(A, G), tm.inv(tm.mul(A, G))), S), S),              # P inv(P) = I with an invertible atom stripped
        (tm.mul(tm.H(tm.inv(tm.mul(G, A))), tm.H(tm.mul(G, A))), tm.I(k)),       # inv(P)^H P^H = I
    ]
    false = [
        (tm.smul(inv, tm.dpow(S, 2)), tm.smul(1 / tm.rv(n.z), tm.dpow(S, 2))),          # N for N-1
        (tm.mul(X, tm.conj(V)), tm.mul(U, S)) if "real" not in X.props else (tm.mul(X, V), tm.mul(U, tm.dpow(S, 2))),   # dropped conjugate
        (tm.mul(tm.mul(tm.mul(U, S), tm.inv(S)), S), U),                              # S^2 * inv(S) must not cancel completely
        (tm.mul(tm.mul(U, A), tm.H(tm.mul(V, A))), tm.mul(U, tm.H(V))),               # non-unitary rotation
        (tm.mul(tm.H(tm.mul(U, R)), U), tm.I(k)),
        (tm.mul(U, tm.H(U)), tm.I(n)),                                                # only U^H U = I is known
        (tm.dpow(Sp, 0.5), Sp),
        (tm.mul(S, R), tm.mul(R, S)),                                                 # diagonal does not commute with a full matrix
        (tm.mul(A, tm.H(tm.inv(A))), tm.I(k)),                                        # A inv(A)^H = I only for unitary A
        (tm.mul(tm.inv(G), tm.mul(tm.mul(tm.H(W), wd), W)), tm.I(k)),                                                    # a weight in the middle
        (tm.mul(tm.inv(tm.mul(tm.mul(tm.H(W), tm.dpow(wd, 2)), W)), tm.mul(tm.mul(tm.H(W), wd), W)), tm.I(k)),            # exponent mismatch
        (tm.mul(tm.H(tm.inv(tm.mul(G, A))), tm.mul(G, A)), tm.I(k)),                                                       # inv(P)^H P
    ]
    return true, false


def _numeric(t, val):
    op = t.op
    if op == "sym":
        return val[t.args[0]]
    if op == "I":
        return np.eye(val["#" + t.rows.name])
    if op == "mul":
        return _numeric(t.args[0], val) @ _numeric(t.args[1], val)
    if op == "add":
        return _numeric(t.args[0], val) + _numeric(t.args[1], val)
    if op == "smul":
        c = t.args[0]
        c = z3.simplify(z3.substitute(c, *[(z3.Int(k[1:]), z3.IntVal(v)) for k, v in val.items() if k.startswith("#")]))
        return float(c.as_fraction()) * _numeric(t.args[1], val)
    if op == "H":
        return _numeric(t.args[0], val).conj().T
    if op == "conj":
        return _numeric(t.args[0], val).conj()
    if op == "T":
        return _numeric(t.args[0], val).T
    if op == "inv":
        return np.linalg.inv(_numeric(t.args[0], val))
    if op == "dpow":
        d = np.diag(_numeric(t.args[0], val)).real
        return np.diag(d ** float(z3.simplify(t.args[1]).as_fraction()))
    if op == "tr":
        return np.array([[np.trace(_numeric(t.args[0], val))]])
    raise KeyError(op)


def run():
    """-> list of failure messages (empty = engine self-check passed)"""
    fails = []
    rng = np.random.default_rng(0)
    for cplx in (False, True):
        N, e = _setup(cplx)
        true, false = cases(e)
        nn, pp, kk = 7, 5, 3
        Xn = rng.standard_normal((nn, pp)) + (1j * rng.standard_normal((nn, pp)) if cplx else 0)
        Un, sn, Vh = np.linalg.svd(Xn, full_matrices=False)
        q, _ = np.linalg.qr(rng.standard_normal((kk, kk)) + (1j * rng.standard_normal((kk, kk)) if cplx else 0))
        val = {"X": Xn, "U": Un[:, :kk], "V": Vh[:kk].conj().T, "s": np.diag(sn[:kk]), "sp": np.diag(sn[:kk] + 0.5), "R": q,
               "A": rng.standard_normal((kk, kk)) + 2 * np.eye(kk), "w": np.diag(rng.uniform(0.5, 2.0, nn)), "W": rng.standard_normal((nn, kk)) + (1j * rng.standard_normal((nn, kk)) if cplx else 0), "#stn": nn, "#stp": pp, "#stk": kk}
        for i, (l, r) in enumerate(true):
            ok, resid = N.equal(l, r)
            if not ok:
                fails.append(f"true identity #{i} ({'complex' if cplx else 'real'}) not derived: {resid[:120]}")
            a, b = _numeric(l, val), _numeric(r, val)
            if not np.allclose(a, b, atol=1e-9):
                fails.append(f"numeric cross-check of accepted identity #{i} failed")
        for i, (l, r) in enumerate(false):
            ok, _ = N.equal(l, r)
            a, b = _numeric(l, val), _numeric(r, val)
            if np.allclose(a, b, atol=1e-9):
                continue            # happens to hold on this instance (e.g. real data): not a discriminating case
            if ok:
                fails.append(f"FALSE identity #{i} ({'complex' if cplx else 'real'}) was accepted by the normaliser")
    # a hypothesis whose left-hand side carries a diagonal power must not become a rule on the bare atom
    k = named_ext("stk")
    Sp = tm.sym("sp", k, k, ("diag", "real", "herm", "nonneg", "pos", "inv"))
    Dg = tm.sym("dg", k, k, ("diag", "real", "herm", "nonneg", "pos", "inv"))
    N2 = Normalizer([k.z >= 1])
    try:
        N2.add_hyp(tm.dpow(Sp, 2), Dg, "power", "lr")
        if N2.equal(Sp, Dg)[0]:
            fails.append("FALSE identity (s = d from s^2 = d) was accepted by the normaliser")
        if not N2.equal(tm.mul(Sp, Sp), Dg)[0]:
            fails.append("true identity (s s = d from s^2 = d) not derived")
    except Exception as e:  # noqa: BLE001  (refusing such a hypothesis is sound)
        if "diagonal power" not in str(e):
            fails.append(f"power hypothesis: {e!r}")
    return fails

"""Labelled-array proxies (domains A and L of DESIGN.md 1.3) presenting as xr.DataArray, and the
fail-closed facades for the `xr` / `np` / `dask` names of a traced module.

A SymDA carries: ordered dims, a symbolic extent per dim, a coordinate identity per dim, a matrix
term (0-d: 1x1, 1-d: diagonal, 2-d: rows x cols in dims order), dtype class (real/complex), a lazy
flag, an owner tag and a mutation/force event log (through the tracing context).
"""
import builtins

import numpy as _np
import xarray as _xr
import z3

from . import terms as tm
from .core import PNum, PBool, SymRange, Unsupported, ctx, decide, zl
from .terms import Ext, ext_of, same_ext, ONE, named_ext, fresh


class Coord:
    """a dimension coordinate of a SymDA (a labelled 1-d variable over its own dim)"""

    def __init__(self, dim, ext, cid, lazy=False):
        self.dim, self.ext, self.cid, self.lazy = dim, ext, cid, lazy

    @property
    def __class__(self):
        return _xr.DataArray

    @property
    def size(self):
        return PNum(self.ext.z)

    @property
    def dims(self):
        return (self.dim,)

    @property
    def name(self):
        return self.dim

    @property
    def data(self):
        return CoordValues(self)

    @property
    def values(self):
        return CoordValues(self)

    def __getattr__(self, k):
        if k.startswith("__"):
            raise AttributeError(k)
        raise Unsupported("Coord." + k)

    def __repr__(self):
        return f"<coord {self.dim}:{self.cid}>"


class CoordValues:
    def __init__(self, c):
        self.c = c


class _Coords:
    def __init__(self, da):
        self.da = da

    def __getitem__(self, d):
        da = self.da
        if d in da._dims:
            return Coord(d, da._ext[d], da._cid.get(d))
        raise KeyError(d)

    def __contains__(self, d):
        return d in self.da._dims and self.da._cid.get(d) is not None

    def items(self):
        return [(d, self[d]) for d in self.da._dims if self.da._cid.get(d) is not None]

    def keys(self):
        return [d for d, _ in self.items()]

    def __iter__(self):
        return iter(self.keys())

    def update(self, other):
        if isinstance(other, _Coords):
            for d, c in other.items():
                if d in self.da._dims:
                    if not same_ext(self.da._ext[d], c.ext):
                        raise ValueError("conflicting sizes for dimension " + d)
                    self.da._cid[d] = c.cid
            return
        raise Unsupported("coords.update with " + type(other).__name__)


def cid_equal(a, b):
    """coordinate identities: equal tuples, or the same label range (extents already known equal)"""
    if a == b:
        return True
    if isinstance(a, tuple) and isinstance(b, tuple) and a and b and a[0] == b[0] == "range" and a[1] == b[1]:
        from .terms import _ext_cache
        ea, eb = _ext_cache.get(a[2]), _ext_cache.get(b[2])
        return ea is not None and eb is not None and same_ext(ea, eb)
    return False


def _is_cplx(*xs):
    return any(getattr(x, "cplx", False) for x in xs)


class SymDA:
    def __init__(self, term, dims, ext, cid=None, cplx=False, lazy=False, owner="fresh", name=None,
                 attrs=None, mark=None, tags=()):
        self.term = term
        self.tags = frozenset(tags)   # order/sign facts about a 1-d value: "desc", "nonneg", "asc"
        self._dims = tuple(dims)
        self._ext = {d: ext[d] for d in self._dims}
        self._cid = dict(cid or {})
        self.cplx = cplx
        self.lazy = lazy
        self.owner = owner
        self._name = name
        self._attrs = dict(attrs or {})
        self.mark = mark      # pending element-wise marker ("abs", "abs2")
        self.view_of = None   # owner of the buffer this array is a view of (slices / transposes / renames share memory)
        n = len(self._dims)
        if n == 2:
            assert same_ext(term.rows, self._ext[self._dims[0]]) and same_ext(term.cols, self._ext[self._dims[1]]), \
                (term, self._dims, self._ext)
        elif n == 1:
            assert same_ext(term.rows, self._ext[self._dims[0]]) and same_ext(term.cols, term.rows), (term, dims)
        elif n == 0:
            assert same_ext(term.rows, ONE) and same_ext(term.cols, ONE)
        else:
            raise Unsupported("arrays with more than 2 dims in the algebra domain")

    # ---- presentation
    @property
    def __class__(self):
        return _xr.DataArray

    dims = property(lambda s: s._dims)

    @property
    def shape(self):
        return tuple(PNum(self._ext[d].z) for d in self._dims)

    @property
    def ndim(self):
        return len(self._dims)

    @property
    def sizes(self):
        return {d: PNum(self._ext[d].z) for d in self._dims}

    @property
    def coords(self):
        return _Coords(self)

    @property
    def data(self):
        return NDView(self)

    @property
    def dtype(self):
        return _np.dtype(complex if self.cplx else float)

    @property
    def values(self):
        self._force(".values")
        return NDView(self)

    def _force(self, what):
        if self.lazy:
            ctx().events.append(("force", f"{what} on lazy {self.term!r}"))

    def _get_name(self):
        return self._name

    def _set_name(self, v):
        if self.owner != "fresh":
            ctx().events.append(("mutate", f"name of {self.owner} object {self._name!r} -> {v!r}"))
        self._name = v

    name = property(_get_name, _set_name)

    def _get_attrs(self):
        return self._attrs

    def _set_attrs(self, v):
        if self.owner != "fresh":
            ctx().events.append(("mutate", f"attrs of {self.owner} object {self._name!r}"))
        self._attrs = dict(v)

    attrs = property(_get_attrs, _set_attrs)

    def __getattr__(self, k):
        if k.startswith("_"):
            raise AttributeError(k)
        if k in self._dims:
            return Coord(k, self._ext[k], self._cid.get(k))
        raise Unsupported("DataArray proxy has no attribute " + k)

    def __getitem__(self, key):
        if isinstance(key, str):
            if key in self._dims:
                return Coord(key, self._ext[key], self._cid.get(key))
            raise KeyError(key)
        if not isinstance(key, tuple):
            key = (key,)
        if len(key) > len(self._dims):
            raise IndexError("too many indices")
        r = self
        for ax, k in enumerate(key):
            d = self._dims[ax]
            if type(k) is slice:
                if k.start is None and k.stop is None and k.step is None:
                    continue
                if k.start is None and k.step is None:
                    r = r._prefix(d, k.stop)
                    continue
                if k.start is None and k.stop is None and k.step == -1 and isinstance(r.mark, Argsort):
                    r = r._new(r.term, mark=r.mark[::-1])
                    continue
                raise Unsupported(f"positional slice {k}")
            if isinstance(k, Argsort):
                r = r._permute(d, k)
                continue
            if type(k) is int and k == -1:
                r = r._last(d)
                continue
            raise Unsupported(f"positional index of type {type(k).__name__}")
        return r

    def _new(self, term, dims=None, ext=None, cid=None, cplx=None, lazy=None, mark=None, tags=(), view=False):
        dims = self._dims if dims is None else tuple(dims)
        ext = self._ext if ext is None else ext
        cid = self._cid if cid is None else cid
        r = SymDA(term, dims, ext, {d: cid.get(d) for d in dims}, self.cplx if cplx is None else cplx,
                  self.lazy if lazy is None else lazy, "fresh", None, self._attrs, mark, tags)
        if view:
            r.view_of = self.view_of or (self.owner if self.owner != "fresh" else None)
        return r

    def _inplace(self, what, result):
        """in-place arithmetic writes into the buffer: a mutation event if that buffer belongs to someone else"""
        src = self.owner if self.owner != "fresh" else self.view_of
        if src:
            ctx().events.append(("mutate", f"in-place {what} on {'a view of ' if self.owner == 'fresh' else ''}{src} object {self._name!r}"))
        return result

    def copy(self, deep=True):
        r = self._new(self.term, mark=self.mark, tags=self.tags)
        r._name = self._name
        return r

    # ---- structure
    def _axis(self, d):
        if d not in self._dims:
            raise ValueError(f"{d!r} not found in array dimensions {self._dims}")
        return self._dims.index(d)

    def _side(self, d, M, right_form=None):
        """apply an index-space operator along dim d: value -> M^T-contracted along d.
        For 2-d: axis 0: M^T @ term ; axis 1: term @ M.  For 1-d (diag): M^T D M."""
        n = len(self._dims)
        ax = self._axis(d)
        if n == 2:
            return tm.mul(tm.Tr(M), self.term) if ax == 0 else tm.mul(self.term, M)
        if n == 1:
            return tm.mul(tm.mul(tm.Tr(M), self.term), M)
        raise Unsupported("index operator on 0-d")

    def _prefix(self, d, stop):
        old = self._ext[d]
        z = zl(stop)
        if decide(z >= old.z):
            return self
        if not decide(z >= 0):
            raise Unsupported("negative slice stop")
        new = ext_of(z)
        E = tm.sel(old, new)
        t = self._side(d, E)
        if len(self._dims) == 1:
            t = tm.T(t.op, t.args, new, new, self.term.props & {"diag", "real", "pos", "herm", "inv"})
        ext = dict(self._ext)
        ext[d] = new
        cid = dict(self._cid)
        cid[d] = ("prefix", self._cid.get(d), new.name)
        if isinstance(self._cid.get(d), tuple) and self._cid[d][0] == "blocks" and self._cid[d][3] == new.name:
            cid[d] = self._cid[d][1]
        elif isinstance(self._cid.get(d), tuple) and self._cid[d][0] == "range":
            cid[d] = ("range", self._cid[d][1], new.name)
        return self._new(t, None, ext, cid, tags=self.tags & {"desc", "asc", "nonneg"}, view=True)

    def _suffix(self, d, start):
        """x.isel(d=slice(start, None)): the trailing rows as a row-window isometry W (W^H W = I, E^H W = 0 for the leading block)"""
        old = self._ext[d]
        a = zl(start)
        if decide(a <= 0):
            return self
        if not decide(a <= old.z):
            raise Unsupported("slice start beyond the extent")
        new = ext_of(z3.simplify(old.z - a))
        lead = ext_of(z3.simplify(a))
        W = block_tail(old, lead, new)
        t = self._side(d, W)
        ext = dict(self._ext)
        ext[d] = new
        cid = dict(self._cid)
        cid[d] = ("suffix", self._cid.get(d), lead.name)
        c0 = self._cid.get(d)
        if isinstance(c0, tuple) and c0[0] == "blocks" and c0[3] == lead.name:
            cid[d] = c0[2]
        return self._new(t, None, ext, cid, view=True)

    def conj(self):
        return self._new(tm.conj(self.term)) if self.cplx else self

    def dot(self, other, dims=None, dim=None):
        return XRFacade().dot(self, other, dims=dims, dim=dim)

    @property
    def real(self):
        return self._new(tm.re(self.term), cplx=False) if self.cplx else self

    def transpose(self, *dims):
        if ... in dims:
            rest = [d for d in self._dims if d not in dims]
            i = dims.index(...)
            dims = dims[:i] + tuple(rest) + dims[i + 1:]
        if not dims:
            dims = self._dims[::-1]
        if set(dims) != set(self._dims) or len(dims) != len(self._dims):
            raise ValueError(f"{dims} must be a permuted list of {self._dims}")
        if tuple(dims) == self._dims:
            return self
        return self._new(tm.Tr(self.term), dims, view=True)

    @property
    def T(self):
        return self.transpose()

    def rename(self, m=None, **kw):
        if m is not None and not isinstance(m, dict):
            r = self._new(self.term, mark=self.mark, tags=self.tags, view=True)
            r._name = m
            return r
        m = dict(m or {}, **kw)
        for k in m:
            if k not in self._dims:
                raise ValueError(f"cannot rename {k!r} because it is not a variable or dimension in this dataset")
        dims = [m.get(d, d) for d in self._dims]
        if len(set(dims)) != len(dims):
            raise ValueError("rename would create duplicate dimensions")
        ext = {m.get(d, d): e for d, e in self._ext.items()}
        cid = {m.get(d, d): c for d, c in self._cid.items()}
        r = self._new(self.term, dims, ext, cid, mark=self.mark, tags=self.tags, view=True)
        r._name = self._name
        return r

    def assign_coords(self, m=None, **kw):
        m = dict(m or {}, **kw)
        cid = dict(self._cid)
        for d, v in m.items():
            if d not in self._dims:
                raise Unsupported("assign_coords for a non-dimension coordinate")
            cid[d] = self._coord_id_of(d, v)
        r = self._new(self.term, None, None, cid, mark=self.mark, tags=self.tags, view=True)
        r._name = self._name
        return r

    def _coord_id_of(self, d, v):
        e = self._ext[d]
        if isinstance(v, SymRange):
            if not decide(zl(v.b) - zl(v.a) == e.z):
                raise ValueError(f"conflicting sizes for dimension {d!r}")
            return ("range", str(v.a), e.name)
        if isinstance(v, (Coord, CoordValues)):
            c = v.c if isinstance(v, CoordValues) else v
            if not same_ext(c.ext, e) and not decide(c.ext.z == e.z):
                raise ValueError(f"conflicting sizes for dimension {d!r}")
            return c.cid
        if isinstance(v, (range, list, tuple, _np.ndarray)):
            if not decide(e.z == len(v)):
                raise ValueError(f"conflicting sizes for dimension {d!r}")
            vv = list(v)
            if vv == list(range(vv[0], vv[0] + len(vv))) if vv else False:
                return ("range", str(vv[0]), e.name)
            return ("const", tuple(vv))
        raise Unsupported(f"coordinate value of type {type(v).__name__}")

    def drop_vars(self, names, errors="raise"):
        if isinstance(names, str):
            names = [names]
        cid = dict(self._cid)
        for nme in names:
            if nme in cid:
                cid[nme] = None
        return self._new(self.term, None, None, cid, mark=self.mark)

    drop = drop_vars

    def expand_dims(self, d):
        raise Unsupported("expand_dims")

    def shift(self, shifts=None, **kw):
        shifts = dict(shifts or {}, **kw)
        (d, k), = shifts.items()
        self._axis(d)
        if type(k) is PNum:
            if not decide(k.z <= 0):
                raise Unsupported("shift by a positive lag")
            return _Shifted(self, d, PNum(z3.simplify(-k.z)))
        if not (type(k) in (int, _np.int64, _np.int32) and k <= 0):
            raise Unsupported("shift by a positive lag")
        return _Shifted(self, d, -int(k))

    # ---- label based selection
    def sel(self, m=None, drop=False, **kw):
        m = dict(m or {}, **kw)
        r = self
        for d, v in m.items():
            r = r._sel1(d, v)
        return r

    def _sel1(self, d, v):
        self._axis(d)
        cid = self._cid.get(d)
        if type(v) is slice:
            if v.step is not None:
                raise Unsupported("label slice with step")
            if isinstance(cid, tuple) and cid[0] == "range":
                first = builtins.int(cid[1])
                lo = first if v.start is None else v.start
                if type(lo) is PNum or lo != first:
                    if type(lo) is PNum and decide(lo.z <= first) or type(lo) is not PNum and lo <= first:
                        pass
                    else:
                        raise Unsupported("label slice not starting at the first label")
                if v.stop is None:
                    return self
                stop = v.stop
                if isinstance(stop, SymDA):
                    stop = stop.as_pnum()
                # labels first..stop inclusive -> first (stop-first+1) positions
                cnt = zl(stop) - first + 1
                if decide(cnt <= 0):
                    raise Unsupported("empty label slice")
                return self._prefix(d, PNum(z3.simplify(cnt)))
            raise Unsupported(f"label slice on a coordinate that is not a known range: {cid}")
        if isinstance(v, Coord):
            if cid_equal(v.cid, cid) and same_ext(v.ext, self._ext[d]):
                return self
            if isinstance(v.cid, tuple) and isinstance(cid, tuple) and v.cid[0] == "range" and cid[0] == "range" \
                    and v.cid[1] == cid[1]:
                return self._prefix(d, PNum(v.ext.z)) if decide(v.ext.z <= self._ext[d].z) else self._keyerr(d)
            # arbitrary labels: existence is decided symbolically, selection is a column-selection isometry
            ok = z3.Bool(f"labels[{v.cid}] subset of labels[{cid}]")
            ctx().notes.setdefault("label_preds", []).append(("subset", v.cid, cid, ok))
            if not decide(ok):
                raise KeyError(f"not all values found in index {d!r}")
            P = tm.sym(f"Pick[{v.cid}<{cid}]", self._ext[d], v.ext, ("real",))
            c = ctx()
            c.hyps.append((tm.mul(tm.Tr(P), P), tm.I(v.ext), "label-selection is an isometry"))
            t = self._side(d, P)
            if len(self._dims) == 1:
                t = tm.T(t.op, t.args, v.ext, v.ext, self.term.props & {"diag", "real", "pos", "herm", "inv"})
            ext = dict(self._ext)
            ext[d] = v.ext
            ci = dict(self._cid)
            ci[d] = v.cid
            return self._new(t, None, ext, ci)
        raise Unsupported(f"sel with {type(v).__name__}")

    def _keyerr(self, d):
        raise KeyError(f"not all values found in index {d!r}")

    def isel(self, m=None, **kw):
        m = dict(m or {}, **kw)
        r = self
        for d, v in m.items():
            r._axis(d)
            if isinstance(v, NDView) and isinstance(v.da, SymDA) and isinstance(v.da.mark, Argsort):
                r = r._permute(d, v.da.mark)
            elif isinstance(v, Argsort):
                r = r._permute(d, v)
            elif type(v) is slice and v.start is None and v.stop is None and v.step == -1:
                r = r._reverse(d)
            elif type(v) is slice and v.start is None and v.step is None:
                r = r._prefix(d, v.stop)
            elif type(v) is slice and v.start in (0, None) and v.step is None:
                r = r._prefix(d, v.stop)
            elif type(v) is slice and v.step is None and v.stop is None:
                r = r._suffix(d, v.start)
            else:
                raise Unsupported(f"isel with {type(v).__name__}")
        return r

    def _permute(self, d, a):
        P = a.matrix(self._ext[d])
        t = self._side(d, P)
        if len(self._dims) == 1:
            t = tm.T(t.op, t.args, t.rows, t.cols, self.term.props & {"diag", "real", "pos", "herm", "inv"})
        cid = dict(self._cid)
        cid[d] = ("perm", self._cid.get(d), a.name)
        tags = set(self.tags & {"nonneg"})
        if len(self._dims) == 1 and a.of is self.term:
            tags.add("desc" if a.rev else "asc")
        return self._new(t, None, None, cid, tags=tags)

    def _reverse(self, d):
        """x.isel(d=slice(None, None, -1)): the order-reversing permutation along d"""
        e = self._ext[d]
        P = tm.sym(f"Perm[rev|{e.name}]", e, e, ("real", "unit", "inv"))
        t = self._side(d, P)
        if len(self._dims) == 1:
            t = tm.T(t.op, t.args, t.rows, t.cols, self.term.props & {"diag", "real", "pos", "herm", "inv", "nonneg"})
        cid = dict(self._cid)
        cid[d] = ("perm", self._cid.get(d), "rev")
        tags = set(self.tags & {"nonneg"})
        if "asc" in self.tags:
            tags.add("desc")
        if "desc" in self.tags:
            tags.add("asc")
        return self._new(t, None, None, cid, tags=tags)

    # ---- arithmetic
    def _bin_mul(self, o, inverse=False):
        if isinstance(o, SymDA):
            if o.mark is not None or self.mark is not None:
                raise Unsupported("arithmetic on a pending element-wise marker")
            ot = o.term
            if inverse:
                ot = self._inv_of(o)
            cplx = self.cplx or o.cplx
            lazy = self.lazy or o.lazy
            a, b = len(self._dims), len(o._dims)
            if b == 0:
                return self._new(tm.T("scale", (ot, self.term), self.term.rows, self.term.cols,
                                      self.term.props - {"unit", "pos", "inv"} | (ot.props & self.term.props & {"pos", "inv"})),
                                 cplx=cplx, lazy=lazy)
            if a == 0:
                if inverse:
                    raise Unsupported("scalar / array")
                return o._bin_mul(self)
            if b == 1:
                d = o._dims[0]
                if d in self._dims:
                    self._align(o, d)
                    if a == 1:
                        return self._new(tm.mul(self.term, ot), cplx=cplx, lazy=lazy)
                    t = tm.mul(ot, self.term) if self._axis(d) == 0 else tm.mul(self.term, ot)
                    return self._new(t, cplx=cplx, lazy=lazy)
                raise Unsupported("outer-product broadcasting")
            if a == 1 and b == 2:
                if inverse:
                    raise Unsupported("vector / matrix")
                return o._bin_mul(self)
            if a == 2 and b == 2 and not inverse and set(o._dims) == set(self._dims):
                # x * conj(x): element-wise squared modulus, only usable through .sum()
                ot2 = o.transpose(*self._dims).term
                st = self.term
                if ot2 is st and not self.cplx or (ot2.op == "conj" and ot2.args[0] is st) or (st.op == "conj" and st.args[0] is ot2):
                    base = st if st.op != "conj" else st.args[0]
                    return self._new(base, mark="abs2", cplx=False)
            raise Unsupported("element-wise product of two 2-d arrays")
        if isinstance(o, (int, float)) and type(o) is not bool or type(o) is PNum:
            z = tm.rv(zl(o))
            return self._new(tm.smul(1 / z if inverse else z, self.term))
        return NotImplemented

    def _inv_of(self, o):
        n = len(o._dims)
        if n == 2:
            raise Unsupported("element-wise division by a 2-d array")
        if n == 0:
            return tm.T("sinv", (o.term,), ONE, ONE, o.term.props)
        return tm.inv(o.term)

    def _align(self, o, d):
        """xarray aligns on differing coordinate labels (inner join): only identical identities are modelled"""
        if not same_ext(self._ext[d], o._ext[d]):
            raise Unsupported(f"broadcast with different extents along {d}")
        a, b = self._cid.get(d), o._cid.get(d)
        if a is not None and b is not None and not cid_equal(a, b):
            raise Unsupported(f"arithmetic between arrays with different {d} coordinates: {a} vs {b}")

    def __mul__(self, o): return self._bin_mul(o)
    def __rmul__(self, o): return self._bin_mul(o)
    def __imul__(self, o): return self._inplace("*=", self._bin_mul(o))
    def __truediv__(self, o): return self._bin_mul(o, inverse=True)
    def __itruediv__(self, o): return self._inplace("/=", self._bin_mul(o, inverse=True))

    def __rtruediv__(self, o):
        if isinstance(o, (int, float)) and type(o) is not bool or type(o) is PNum:
            return SymDA._new(self, tm.smul(tm.rv(zl(o)), self._inv_of(self)))
        return NotImplemented

    def _bin_add(self, o, sign=1):
        if isinstance(o, SymDA):
            if o._dims == self._dims:
                for d in self._dims:
                    self._align(o, d)
                t = tm.add(self.term, o.term if sign > 0 else tm.neg(o.term))
                return self._new(t, cplx=self.cplx or o.cplx, lazy=self.lazy or o.lazy)
            if set(o._dims) == set(self._dims):
                return self._bin_add(o.transpose(*self._dims), sign)
            raise Unsupported("addition with broadcasting")
        return NotImplemented

    def __add__(self, o): return self._bin_add(o)
    def __sub__(self, o): return self._bin_add(o, -1)
    def __iadd__(self, o): return self._inplace("+=", self._bin_add(o))
    def __isub__(self, o): return self._inplace("-=", self._bin_add(o, -1))
    def __neg__(self): return self._new(tm.neg(self.term))

    def __pow__(self, k):
        if self.mark == "abs" and k == 2:
            return self._new(self.term, mark="abs2")
        if self.mark is not None:
            raise Unsupported("power of marker")
        if len(self._dims) <= 1 and (isinstance(k, (int, float)) and type(k) is not bool):
            if len(self._dims) == 0:
                return self._new(tm.T("spow", (self.term, tm.rv(k)), ONE, ONE, self.term.props))
            return self._new(tm.dpow(self.term, k))
        raise Unsupported(f"power {k!r} of a {len(self._dims)}-d array")

    def __abs__(self):
        if "pos" in self.term.props:
            return self
        return self._new(self.term, mark="abs", cplx=False)

    def __array_ufunc__(self, ufunc, method, *inputs, **kw):
        raise Unsupported(f"numpy ufunc {ufunc.__name__} on a proxy (module not facaded?)")

    def __array__(self, *a, **k):
        raise Unsupported("np.asarray on a proxy")

    def __bool__(self):
        raise Unsupported("truth value of an array proxy")

    def __len__(self):
        raise Unsupported("len of an array proxy")

    def __iter__(self):
        raise Unsupported("iteration over an array proxy")

    # ---- reductions
    def sum(self, dim=None):
        dims = self._dims if dim is None else ((dim,) if isinstance(dim, str) else tuple(dim))
        if self.mark == "abs2":
            # sum of |x|^2 over rows/cols
            if len(self._dims) == 2 and len(dims) == 1:
                ax = self._axis(dims[0])
                M = self.term
                g = tm.dg(tm.mul(tm.H(M), M)) if ax == 0 else tm.dg(tm.mul(M, tm.H(M)))
                keep = self._dims[1 - ax]
                g = tm.T(g.op, g.args, g.rows, g.cols, g.props | {"real", "herm"})
                return self._new(g, (keep,), cplx=False)
            if set(dims) == set(self._dims):
                M = self.term
                return self._new(tm.tr(tm.mul(tm.H(M), M)), (), cplx=False)
            raise Unsupported("sum of |x|^2 over " + str(dims))
        if self.mark is not None:
            raise Unsupported("sum of marker")
        if len(self._dims) == 1 and set(dims) == set(self._dims):
            return self._new(tm.tr(self.term), ())
        if len(self._dims) == 0:
            return self
        raise Unsupported(f"sum over {dims} of a {len(self._dims)}-d array")

    def std(self, dim, ddof=0):
        return self.var(dim, ddof) ** 0.5

    def var(self, dim, ddof=0):
        ax = self._axis(dim)
        if len(self._dims) != 2:
            raise Unsupported("var of non 2-d")
        n = self._ext[dim]
        M = self.term if ax == 0 else tm.Tr(self.term)
        g = tm.dg(tm.mul(tm.mul(tm.H(M), tm.J(n)), M))
        g = tm.T(g.op, g.args, g.rows, g.cols, g.props | {"real", "herm"})
        keep = self._dims[1 - ax]
        return self._new(tm.smul(1 / tm.rv(n.z - ddof), g), (keep,), cplx=False)

    def as_pnum(self):
        raise Unsupported("array used as a number")

    # ---- cumulative sums and threshold counting (variance-fraction truncation)
    def cumsum(self, dim=None):
        if len(self._dims) != 1 or (dim is not None and dim != self._dims[0]):
            raise Unsupported("cumsum of a non 1-d array")
        return CumSum(self)

    def item(self):
        if len(self._dims) == 0:
            self._force(".item()")
            return PNum(z3.Real(f"item[{self.term!r}]"))
        raise ValueError("can only convert an array of size 1 to a Python scalar")

    def __repr__(self):
        return f"SymDA{self._dims}<{self.term!r}>" + (" LAZY" if self.lazy else "")


SymDA.__name__ = "DataArray"
SymDA.__qualname__ = "DataArray"


class _Shifted:
    """X.shift({dim: -k}): only .dropna(dim) is modelled (rows k..n-1 carried by the labels of rows 0..n-k-1)"""

    def __init__(self, da, dim, k):
        self.da, self.dim, self.k = da, dim, k

    @property
    def __class__(self):
        return _xr.DataArray

    def dropna(self, dim, **kw):
        da, d, k = self.da, self.dim, self.k
        if dim != d:
            raise Unsupported("dropna along another dim")
        if (decide(k.z == 0) if type(k) is PNum else k == 0):
            return da.copy()
        da._force("dropna")
        old = da._ext[d]
        kz = zl(k)
        new = ext_of(z3.simplify(old.z - kz))
        if not decide(old.z > kz):
            raise Unsupported("lag not smaller than the number of samples")
        W = lag_window(old, k, new)
        t = da._side(d, W)
        ext = dict(da._ext)
        ext[d] = new
        cid = dict(da._cid)
        cid[d] = ("prefix", da._cid.get(d), new.name)
        return da._new(t, None, ext, cid)

    def __getattr__(self, k):
        if k.startswith("__"):
            raise AttributeError(k)
        raise Unsupported("shifted array: only dropna along the shifted dim is modelled")


class CumSum:
    """cumulative sum c_1..c_k of a 1-d array x (c_j = x_1 + ... + x_j), kept abstract: an uninterpreted
    sequence cum(j) that is non-decreasing when x is known non-negative (contract of cumsum + arithmetic)"""
    _n = 0

    def __init__(self, src, k=None):
        CumSum._n += 1
        self.src = src
        self.k = k if k is not None else src._ext[src._dims[0]]
        self.f = z3.Function(f"cum{CumSum._n}", z3.IntSort(), z3.RealSort())
        c = ctx()
        i, j = z3.Ints("i_ j_")
        if "nonneg" in src.tags or "nonneg" in src.term.props or src.term.op == "scale" or True:
            c.notes.setdefault("cumsum", []).append(self)
        self.monotone = z3.ForAll([i, j], z3.Implies(z3.And(1 <= i, i <= j, j <= self.k.z), self.f(i) <= self.f(j)))

    @property
    def __class__(self):
        return _xr.DataArray

    def __getitem__(self, key):
        if type(key) is int and key == -1:
            return _Scalar0(PNum(self.f(self.k.z)), self.src.lazy)
        raise Unsupported("indexing a cumulative sum")

    def __ge__(self, thr):
        return ThreshMask(self, zl(thr), ">=")

    def __gt__(self, thr):
        return ThreshMask(self, zl(thr), ">")

    def __getattr__(self, k):
        if k.startswith("__"):
            raise AttributeError(k)
        raise Unsupported("cumsum proxy has no attribute " + k)


class _Scalar0:
    def __init__(self, v, lazy):
        self.v, self.lazy = v, lazy

    def item(self):
        if self.lazy:
            ctx().events.append(("force", ".item() on a lazy value"))
        return self.v


class ThreshMask:
    """cum >= f  (or >): a boolean vector; only its count is observable"""

    def __init__(self, cs, thr, op):
        self.cs, self.thr, self.op = cs, thr, op

    def sum(self, dim=None):
        cs = self.cs
        c = ctx()
        cnt = z3.Int(f"count[{cs.f.name()}{self.op}thr]")
        j = z3.Int("j_")
        hit = (cs.f(j) >= self.thr) if self.op == ">=" else (cs.f(j) > self.thr)
        # definition of the count of a boolean vector, specialised by the count lemma for a monotone
        # sequence (the hits form an upper segment; lemma proved by induction in props/C15)
        c.facts.append(cs.monotone)
        c.facts.append(z3.And(cnt >= 0, cnt <= cs.k.z))
        c.facts.append(z3.ForAll([j], z3.Implies(z3.And(1 <= j, j <= cs.k.z), hit == (j >= cs.k.z - cnt + 1))))
        c.notes.setdefault("thresholds", []).append({"cum": cs, "thr": self.thr, "op": self.op, "count": cnt})
        return PNum(cnt)


class NDView:
    """`.data` / `.values` of a proxy: only its type is observable"""

    def __init__(self, da):
        self.da = da

    @property
    def __class__(self):
        if self.da.lazy:
            import dask.array
            return dask.array.Array
        return _np.ndarray

    @property
    def T(self):
        if len(self.da._dims) == 2:
            return NDView(self.da._new(tm.Tr(self.da.term), self.da._dims[::-1]))
        raise Unsupported(".data.T of a proxy")

    def __getattr__(self, k):
        if k.startswith("__"):
            raise AttributeError(k)
        raise Unsupported("ndarray view has no attribute " + k)


def lag_window(old, k, new):
    """the (old x new) isometry selecting rows k..old-1 (k concrete or symbolic); one symbol per (k, old), hypothesis recorded once"""
    kname = str(z3.simplify(zl(k))) if type(k) is PNum else str(k)
    name = f"Win[{kname}:{old.name}|{old.name}]"
    W = tm.sym(name, old, new, ("real",))
    c = ctx()
    done = c.notes.setdefault("lag_windows", set())
    if name not in done:
        done.add(name)
        c.hyps.append((tm.mul(tm.Tr(W), W), tm.I(new), "row window is an isometry"))
    return W


def block_tail(total, lead, tail):
    """the (total x tail) isometry selecting the rows after the leading `lead` ones; hypotheses recorded once per context"""
    name = f"Tail[{lead.name}:{total.name}]"
    W = tm.sym(name, total, tail, ("real",))
    c = ctx()
    done = c.notes.setdefault("block_tail", set())
    if name not in done:
        done.add(name)
        E = tm.sel(total, lead)
        c.hyps += [(tm.mul(tm.Tr(W), W), tm.I(tail), "tail block is an isometry"),
                   (tm.mul(tm.Tr(E), W), tm.Z(lead, tail), "leading and trailing blocks are orthogonal"),
                   (tm.mul(tm.Tr(W), E), tm.Z(tail, lead), "leading and trailing blocks are orthogonal (transposed)")]
    return W


class Argsort:
    """result of argsort along a dim (descending if rev): a permutation with a contract"""

    def __init__(self, name, of, rev=False):
        self.name, self.of, self.rev = name, of, rev

    def __getitem__(self, k):
        if type(k) is slice and k.start is None and k.stop is None and k.step == -1:
            return Argsort(self.name + "~", self.of, not self.rev)
        raise Unsupported("indexing an argsort result")

    def matrix(self, e):
        return tm.sym(f"Perm[{self.name}]", e, e, ("real", "unit", "inv"))


def mk_da(name, dims, exts, cplx=False, props=(), lazy=False, owner="fresh", cid=None):
    """fresh symbolic DataArray"""
    ext = {d: e for d, e in zip(dims, exts)}
    pr = set(props)
    if not cplx:
        pr.add("real")
    if len(dims) == 2:
        t = tm.sym(name, exts[0], exts[1], pr)
    elif len(dims) == 1:
        t = tm.sym(name, exts[0], exts[0], pr | {"diag"})
    else:
        t = tm.sym(name, ONE, ONE, pr | {"diag"})
    cid = cid or {d: ("in", name, d) for d in dims}
    return SymDA(t, dims, ext, cid, cplx, lazy, owner)


# ------------------------------------------------------------------------- facades
class _DAFacadeMeta(type):
    def __instancecheck__(cls, o):
        return builtins.isinstance(o, _xr.DataArray)

    def __call__(cls, data=None, *a, dims=None, coords=None, **k):
        if isinstance(data, NDView):
            # xr.DataArray(x.data.T, dims=..., coords=...): positional re-labelling of a buffer
            src = data.da
            dims = tuple(dims)
            if len(dims) != len(src._dims):
                raise ValueError("different number of dimensions on data and dims")
            ext = {d: src._ext[o] for d, o in zip(dims, src._dims)}
            cid = {}
            if isinstance(coords, _Coords):
                for d in dims:
                    c_ = coords.da._cid.get(d) if d in coords.da._dims else None
                    if c_ is not None and not same_ext(coords.da._ext[d], ext[d]):
                        raise ValueError(f"conflicting sizes for dimension {d!r}")
                    cid[d] = c_
            return SymDA(src.term, dims, ext, cid, src.cplx, src.lazy)
        return _xr.DataArray(data, *a, dims=dims, coords=coords, **k)


class _DAFacade(metaclass=_DAFacadeMeta):
    pass


class XRFacade:
    """stands in for `xr` inside a traced module: only entry points with a contract"""
    DataArray = _DAFacade
    Dataset = _xr.Dataset
    DataTree = _xr.DataTree

    def __init__(self, ufuncs=None):
        self.ufuncs = ufuncs or {}
        self.used = set()

    def dot(self, *arrs, dims=None, dim=None, optimize=None):
        self.used.add("xr.dot")
        d = dims if dims is not None else dim
        if len(arrs) != 2:
            raise Unsupported("xr.dot with != 2 operands")
        a, b = arrs
        if not (isinstance(a, SymDA) and isinstance(b, SymDA)):
            raise Unsupported("xr.dot on non-proxies")
        if d is None:
            common = [x for x in a._dims if x in b._dims]
        elif isinstance(d, str):
            common = [d]
        else:
            common = list(d)
        if len(common) != 1:
            raise Unsupported(f"xr.dot contracting {common}")
        d = common[0]
        if d not in a._dims or d not in b._dims:
            raise ValueError(f"contracted dimension {d!r} missing from an operand")
        shared = [x for x in a._dims if x in b._dims and x != d]
        ca, cb = a._cid.get(d), b._cid.get(d)
        def _pref(x, y):
            return isinstance(x, tuple) and x and x[0] == "prefix" and cid_equal(x[1], y)
        def _rng_prefix(x, y, ex, ey):
            # label ranges first..first+extent-1: the shorter one is the leading part of the longer one
            return (isinstance(x, tuple) and isinstance(y, tuple) and x and y and x[0] == y[0] == "range" and x[1] == y[1]
                    and not same_ext(ex, ey) and decide(ex.z <= ey.z))
        if ca is not None and cb is not None and _rng_prefix(ca, cb, a._ext[d], b._ext[d]):
            b = b._prefix(d, PNum(a._ext[d].z))
            b = b._new(b.term, cid={**b._cid, d: ca})
            cb = ca
        elif ca is not None and cb is not None and _rng_prefix(cb, ca, b._ext[d], a._ext[d]):
            a = a._prefix(d, PNum(b._ext[d].z))
            a = a._new(a.term, cid={**a._cid, d: cb})
            ca = cb
        elif ca is not None and cb is not None and _pref(ca, cb):
            b = b._prefix(d, PNum(a._ext[d].z))        # inner join: the labels of a are the leading labels of b
            b = b._new(b.term, cid={**b._cid, d: ca})
            cb = ca
        elif ca is not None and cb is not None and _pref(cb, ca):
            a = a._prefix(d, PNum(b._ext[d].z))
            a = a._new(a.term, cid={**a._cid, d: cb})
            ca = cb
        if ca is not None and cb is not None and not cid_equal(ca, cb) and same_ext(a._ext[d], b._ext[d]) is False \
                or (ca is not None and cb is not None and not cid_equal(ca, cb)):
            # xarray aligns the operands on their common labels (inner join) before contracting
            eq = z3.Bool(f"labels[{ca}] == labels[{cb}]")
            ctx().notes.setdefault("label_preds", []).append(("eq", ca, cb, eq))
            if decide(eq):
                if not same_ext(a._ext[d], b._ext[d]):
                    raise Unsupported("equal labels with different extents")
                b = b._new(b.term, cid={**b._cid, d: ca})
            else:
                common = named_ext(fresh("common"))
                cc = ("common", ca, cb)
                Pa = tm.sym(fresh("Join"), a._ext[d], common, ("real",))
                Pb = tm.sym(fresh("Join"), b._ext[d], common, ("real",))
                c_ = ctx()
                c_.facts.append(common.z >= 0)
                c_.events.append(("inner-join", {"dim": d, "a": ca, "b": cb}))
                a = SymDA(a._side(d, Pa), a._dims, {**a._ext, d: common}, {**a._cid, d: cc}, a.cplx, a.lazy)
                b = SymDA(b._side(d, Pb), b._dims, {**b._ext, d: common}, {**b._cid, d: cc}, b.cplx, b.lazy)
        a._align(b, d)
        if shared:
            if len(shared) == 1 and len(a._dims) == 2 and len(b._dims) == 2:
                m = shared[0]
                a._align(b, m)
                ta = a.transpose(d, m).term
                tb = b.transpose(d, m).term
                g = tm.dg(tm.mul(tm.Tr(ta), tb))          # sum_d a[d,m] b[d,m] = diag(a^T b)
                return SymDA(g, (m,), {m: a._ext[m]}, {m: a._cid.get(m)}, a.cplx or b.cplx, a.lazy or b.lazy)
            raise Unsupported(f"xr.dot with shared non-contracted dimensions {shared}")
        if len(a._dims) != 2 or len(b._dims) != 2:
            raise Unsupported("xr.dot on non 2-d operands")
        ta = a.term if a._dims[1] == d else tm.Tr(a.term)
        tb = b.term if b._dims[0] == d else tm.Tr(b.term)
        ra = [x for x in a._dims if x != d]
        rb = [x for x in b._dims if x != d]
        ext = {ra[0]: a._ext[ra[0]], rb[0]: b._ext[rb[0]]}
        cid = {ra[0]: a._cid.get(ra[0]), rb[0]: b._cid.get(rb[0])}
        return SymDA(tm.mul(ta, tb), ra + rb, ext, cid, a.cplx or b.cplx, a.lazy or b.lazy)

    def apply_ufunc(self, func, *args, input_core_dims=None, output_core_dims=((),), kwargs=None,
                    dask="forbidden", vectorize=False, exclude_dims=frozenset(), keep_attrs=None,
                    dask_gufunc_kwargs=None, output_dtypes=None):
        self.used.add("xr.apply_ufunc")
        key = getattr(func, "__func__", func)
        stub = self.ufuncs.get(key) or self.ufuncs.get(getattr(key, "__qualname__", None))
        if stub is None:
            raise Unsupported(f"apply_ufunc of a function without contract: {getattr(func, '__qualname__', func)}")
        if any(isinstance(a, SymDA) and a.lazy for a in args) and dask not in ("allowed", "parallelized"):
            raise ValueError("apply_ufunc encountered a dask array on an argument, but handling for dask arrays has not been enabled")
        return stub(func, args, input_core_dims or [()] * len(args), list(output_core_dims), dict(kwargs or {}))

    def concat(self, objs, dim=None, **kw):
        """two labelled matrices stacked along an existing dim (block matrix  E A + W B)"""
        objs = list(objs)
        if len(objs) != 2 or kw or not all(isinstance(o, SymDA) for o in objs):
            raise Unsupported("xr.concat variant")
        A, B = objs
        if dim not in A.dims or dim not in B.dims or set(A.dims) != set(B.dims) or len(A.dims) != 2:
            raise Unsupported("xr.concat along a new dimension / of non-matrices")
        (other,) = [d for d in A.dims if d != dim]
        if not cid_equal(A._cid.get(other), B._cid.get(other)) or not same_ext(A._ext[other], B._ext[other]):
            raise Unsupported("xr.concat of operands whose other coordinate differs (outer join)")
        At, Bt = A.transpose(dim, other), B.transpose(dim, other)
        ea, eb = At._ext[dim], Bt._ext[dim]
        tot = ext_of(z3.simplify(ea.z + eb.z))
        W = block_tail(tot, ea, eb)
        term = tm.add(tm.mul(tm.sel(tot, ea), At.term), tm.mul(W, Bt.term))
        cid = {dim: ("blocks", A._cid.get(dim), B._cid.get(dim), ea.name), other: A._cid.get(other)}
        return SymDA(term, (dim, other), {dim: tot, other: At._ext[other]}, cid, A.cplx or B.cplx, A.lazy or B.lazy)

    def __getattr__(self, k):
        raise Unsupported("xr." + k)


class _Linalg:
    LinAlgError = _np.linalg.LinAlgError

    def __init__(self):
        # identity-compared tokens: the traced code only passes these on to apply_ufunc
        from . import ndlib
        self.svd = _Token("np.linalg.svd", ndlib.nd_svd)
        self.inv = _Token("np.linalg.inv", ndlib.nd_inv)
        self.pinv = _Token("np.linalg.pinv", ndlib.nd_pinv)
        self.eig = _Token("np.linalg.eig", ndlib.nd_eig)
        self.norm = _Token("np.linalg.norm", ndlib.nd_norm)
        self.eigh = _Token("np.linalg.eigh")

    def __getattr__(self, k):
        raise Unsupported("np.linalg." + k)


class _Token:
    def __init__(self, name, impl=None):
        self.__qualname__ = name
        self.__name__ = name
        self.impl = impl

    def __call__(self, *a, **k):
        if self.impl is not None:
            return self.impl(*a, **k)
        raise Unsupported(f"direct call of {self.__qualname__} on proxies")

    def __repr__(self):
        return f"<{self.__qualname__}>"


class NPFacade:
    """stands in for `np`: whitelisted pure functions on concrete arguments pass through"""
    pi = _np.pi
    newaxis = None
    float32 = _np.float32
    float64 = _np.float64
    ndarray = _np.ndarray
    random = _np.random
    integer = _np.integer
    floating = _np.floating

    def __init__(self):
        self.linalg = _Linalg()
        self.used = set()

    @staticmethod
    def _concrete(*a):
        def ok(x):
            if isinstance(x, (SymDA, NDView, Coord)) or type(x) in (PNum, PBool):
                return False
            if isinstance(x, (list, tuple)):
                return all(ok(y) for y in x)
            return True
        return all(ok(x) for x in a)

    def finfo(self, t):
        if type(t) is PNum:
            t = float
        return _np.finfo(t)

    def log(self, x):
        from .nd import SymND
        if isinstance(x, SymND) and x.nd == 1:
            return SymND(tm.fn("log", x.term, props=("diag", "real", "herm")), 1, False, x.lazy)
        if self._concrete(x):
            return _np.log(x)
        raise Unsupported("np.log")

    def angle(self, x):
        from .nd import SymND
        if isinstance(x, SymND) and x.nd == 1:
            return SymND(tm.fn("angle", x.term, props=("diag", "real", "herm")), 1, False, x.lazy)
        if self._concrete(x):
            return _np.angle(x)
        raise Unsupported("np.angle")

    def diag(self, x):
        from .nd import SymND
        if isinstance(x, SymND) and x.nd == 1:
            return SymND(x.term, 2, x.cplx, x.lazy)
        if isinstance(x, SymND) and x.nd == 2:
            return SymND(tm.dg(x.term), 1, x.cplx, x.lazy)
        if self._concrete(x):
            return _np.diag(x)
        raise Unsupported("np.diag")

    def iscomplexobj(self, x):
        self.used.add("np.iscomplexobj")
        from .nd import SymND
        if isinstance(x, SymND):
            return x.cplx
        if isinstance(x, NDView):
            return x.da.cplx
        if isinstance(x, SymDA):
            return x.cplx
        return _np.iscomplexobj(x)

    def sqrt(self, x):
        self.used.add("np.sqrt")
        from .nd import SymND
        if isinstance(x, (SymDA, SymND)):
            return x ** 0.5
        if type(x) is PNum:
            r = z3.Real(f"sqrt[{z3.simplify(x.z)}]")
            c = ctx()
            c.facts += [r > 0, r * r == tm.rv(x.z)]
            return PNum(r)
        return _np.sqrt(x)

    def abs(self, x):
        if isinstance(x, SymDA):
            return abs(x)
        return _np.abs(x)

    def arange(self, a, b=None, *rest):
        if self._concrete(a, b, *rest):
            return _np.arange(a, b, *rest) if b is not None else _np.arange(a)
        if rest:
            raise Unsupported("np.arange with step on symbolic bounds")
        return SymRange(0, a) if b is None else SymRange(a, b)

    def argsort(self, x, *a, **k):
        self.used.add("np.argsort")
        from .nd import SymND, ArgsortND
        if isinstance(x, SymND) and x.nd == 1 and not a and not k:
            return ArgsortND(f"argsort({x.term!r})", x.term)
        if isinstance(x, SymDA) and len(x._dims) == 1 and not a and not k:
            return Argsort(f"argsort({x.term!r})", x.term)
        raise Unsupported("np.argsort on this argument")

    def __getattr__(self, k):
        raise Unsupported("np." + k)


class DaskFacade:
    """stands in for `dask` / `dask.base`: compute() is the only modelled entry point; it is an
    explicit compute event (allowed or not is the contract's business)"""

    def __init__(self):
        self.used = set()

    def compute(self, *args, **kw):
        self.used.add("dask.compute")
        ctx().events.append(("compute", {"n_lazy": sum(1 for a in _walk(args) if isinstance(a, SymDA) and a.lazy)}))
        return tuple(_unlazy(a) for a in args)

    @property
    def base(self):
        return self

    def __getattr__(self, k):
        raise Unsupported("dask." + k)


def _walk(x):
    if isinstance(x, (list, tuple)):
        for y in x:
            yield from _walk(y)
    elif isinstance(x, dict):
        for y in x.values():
            yield from _walk(y)
    else:
        yield x


def _unlazy(a):
    if isinstance(a, SymDA):
        r = a.copy()
        r.lazy = False
        r.owner = a.owner
        return r
    if isinstance(a, dict):
        return {k: _unlazy(v) for k, v in a.items()}
    if isinstance(a, (list, tuple)):
        return type(a)(_unlazy(v) for v in a)
    return a

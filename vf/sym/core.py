"""Decision-schedule symbolic execution of real Python functions (DESIGN.md 1.2) and the scalar
proxies of domain S.  Proxies are NOT subclasses of int/float/str: they expose a __class__ property
(which is what isinstance and `match ... case int():` consult) and fail closed on everything else.
"""
import builtins
import traceback
import warnings

import z3

from .terms import Unsupported, rv


class PathLimit(Exception):
    pass


class Ctx:
    def __init__(self, schedule):
        self.schedule = list(schedule)
        self.pos = 0
        self.pc = []          # branch decisions taken (z3 Bool)
        self.facts = []       # assumed scalar facts (preconditions, callee postconditions)
        self.hyps = []        # matrix hypotheses: (lhs term, rhs term, name)
        self.obligs = []      # call-site obligations: dicts(id, kind, ...)
        self.events = []      # effects: ("force"|"mutate"|"warn"|"call", detail)
        self.notes = {}

    def all_facts(self):
        return self.facts + self.pc


_CTX = None


def _ext_eq(a, b):
    c = _CTX
    if c is None:
        return False
    key = (a.name, b.name, len(c.pc), len(c.facts))
    cache = c.notes.setdefault("_exteq", {})
    if key not in cache:
        s = _solver(c.all_facts())
        s.add(a.z != b.z)
        cache[key] = s.check() == z3.unsat
    return cache[key]


from . import terms as _tm
_tm.EXT_EQ = _ext_eq


def ctx():
    if _CTX is None:
        raise RuntimeError("no symbolic execution in progress")
    return _CTX


def _solver(facts, timeout=3000):
    s = z3.Solver()
    s.set("timeout", timeout)
    s.add(facts)
    return s


def decide(cond):
    """resolve a symbolic boolean by the schedule; prune with z3"""
    c = ctx()
    if isinstance(cond, bool):
        return cond
    cond = z3.simplify(cond)
    if z3.is_true(cond):
        return True
    if z3.is_false(cond):
        return False
    s = _solver(c.all_facts())
    s.push()
    s.add(z3.Not(cond))
    r1 = s.check()
    s.pop()
    if r1 == z3.unsat:
        return True
    s.push()
    s.add(cond)
    r2 = s.check()
    s.pop()
    if r2 == z3.unsat:
        return False
    if c.pos < len(c.schedule):
        ch = c.schedule[c.pos]
    else:
        ch = True
        c.schedule.append(ch)
    c.pos += 1
    c.pc.append(cond if ch else z3.Not(cond))
    return ch


def assume(cond):
    ctx().facts.append(cond)


class Path:
    def __init__(self, c, kind, value, exc=None, tb=None, warns=()):
        self.ctx = c
        self.kind = kind       # "return" | "raise" | "unsupported"
        self.value = value
        self.exc = exc
        self.tb = tb or []
        self.warns = list(warns)

    @property
    def pc(self):
        return [str(z3.simplify(x)) for x in self.ctx.pc]

    def __repr__(self):
        v = self.value if self.kind == "return" else f"{type(self.exc).__name__}: {self.exc}"
        return f"<path {self.kind} pc={self.pc} {str(v)[:120]}>"


def explore(run, maxpaths=256, setup=None):
    """run(): executes traced code under the global context; returns result.
    Enumerates every feasible combination of symbolic branch outcomes (depth-first).
    Exceeding maxpaths raises PathLimit (function out of reach, never 'proved')."""
    global _CTX
    out = []
    stack = [[]]
    while stack:
        sched = stack.pop()
        c = Ctx(sched)
        _CTX = c
        try:
            if setup:
                setup(c)
            with warnings.catch_warnings(record=True) as w:
                warnings.simplefilter("always")
                try:
                    val = run()
                    p = Path(c, "return", val)
                except Unsupported as e:
                    tb = traceback.extract_tb(e.__traceback__)
                    p = Path(c, "unsupported", None, e, [f"{f.filename.split('/')[-1]}:{f.name}:{f.lineno}" for f in tb[-5:]])
                except RecursionError:
                    raise
                except Exception as e:  # noqa: BLE001 - outcomes of the traced code are data
                    tb = traceback.extract_tb(e.__traceback__)
                    p = Path(c, "raise", None, e, [f"{f.filename.split('/')[-1]}:{f.name}:{f.lineno}" for f in tb[-5:]])
                p.warns = [str(x.message) for x in w]
        finally:
            _CTX = None
        s = _solver(c.all_facts())
        if s.check() != z3.unsat:
            out.append(p)
        for i in range(len(sched), len(c.schedule)):
            alt = c.schedule[:i] + [not c.schedule[i]]
            s2 = _solver(c.facts + c.pc[:i] + [z3.Not(c.pc[i])])
            if s2.check() != z3.unsat:
                stack.append(alt)
        if len(out) + len(stack) > maxpaths:
            raise PathLimit(f"more than {maxpaths} paths")
    return out


# ------------------------------------------------------------------ scalar proxies
class PBool:
    __slots__ = ("z",)

    def __init__(self, z):
        self.z = z

    @property
    def __class__(self):
        return bool

    def __bool__(self):
        return decide(self.z)

    def __and__(self, o):
        return PBool(z3.And(self.z, zb(o)))

    __rand__ = __and__

    def __or__(self, o):
        return PBool(z3.Or(self.z, zb(o)))

    __ror__ = __or__

    def __invert__(self):
        return PBool(z3.Not(self.z))

    def __eq__(self, o):
        return PBool(self.z == zb(o))

    def __hash__(self):
        raise Unsupported("hash of symbolic bool")

    def __repr__(self):
        return f"PBool({self.z})"


def zb(o):
    if isinstance(o, PBool):
        return o.z
    if type(o) is bool:
        return z3.BoolVal(o)
    raise Unsupported(f"lift {type(o).__name__} to bool")


def zl(o):
    """lift python/proxy number to z3 arithmetic"""
    if isinstance(o, PNum):
        return o.z
    if type(o) is bool:
        raise Unsupported("bool in arithmetic")
    if type(o) is int:
        return z3.IntVal(o)
    if type(o) is float:
        return rv(o)
    try:
        import numpy as np
        if isinstance(o, np.integer):
            return z3.IntVal(int(o))
        if isinstance(o, np.floating):
            return rv(float(o))
    except ImportError:
        pass
    raise Unsupported(f"lift {type(o).__name__} to a number")


def _coerce(a, b):
    if a.sort() == b.sort():
        return a, b
    if a.sort() == z3.IntSort():
        a = z3.ToReal(a)
    if b.sort() == z3.IntSort():
        b = z3.ToReal(b)
    return a, b


class PNum:
    __slots__ = ("z",)

    def __init__(self, z):
        self.z = z

    @property
    def __class__(self):
        return int if self.z.sort() == z3.IntSort() else float

    def _b(self, o, f, swap=False):
        if isinstance(o, (PNum, int, float)) and type(o) is not bool or _is_np_num(o):
            a, b = _coerce(self.z, zl(o))
            if swap:
                a, b = b, a
            return PNum(z3.simplify(f(a, b)))
        return NotImplemented

    def __add__(self, o): return self._b(o, lambda a, b: a + b)
    def __radd__(self, o): return self._b(o, lambda a, b: a + b, True)
    def __sub__(self, o): return self._b(o, lambda a, b: a - b)
    def __rsub__(self, o): return self._b(o, lambda a, b: a - b, True)
    def __mul__(self, o): return self._b(o, lambda a, b: a * b)
    def __rmul__(self, o): return self._b(o, lambda a, b: a * b, True)

    def __truediv__(self, o):
        if isinstance(o, (PNum, int, float)) and type(o) is not bool:
            return PNum(z3.simplify(rv(self.z) / rv(zl(o))))
        return NotImplemented

    def __rtruediv__(self, o):
        if isinstance(o, (PNum, int, float)) and type(o) is not bool:
            return PNum(z3.simplify(rv(zl(o)) / rv(self.z)))
        return NotImplemented

    def __neg__(self): return PNum(-self.z)
    def __pos__(self): return self

    def __abs__(self):
        return PNum(z3.If(self.z >= 0, self.z, -self.z))

    def _c(self, o, f):
        if isinstance(o, (PNum, int, float)) and type(o) is not bool or _is_np_num(o):
            a, b = _coerce(self.z, zl(o))
            return PBool(f(a, b))
        return NotImplemented

    def __lt__(self, o): return self._c(o, lambda a, b: a < b)
    def __le__(self, o): return self._c(o, lambda a, b: a <= b)
    def __gt__(self, o): return self._c(o, lambda a, b: a > b)
    def __ge__(self, o): return self._c(o, lambda a, b: a >= b)

    def __eq__(self, o):
        r = self._c(o, lambda a, b: a == b)
        return PBool(z3.BoolVal(False)) if r is NotImplemented else r

    def __ne__(self, o):
        r = self._c(o, lambda a, b: a != b)
        return PBool(z3.BoolVal(True)) if r is NotImplemented else r

    def __bool__(self):
        return decide(self.z != 0)

    def __hash__(self): raise Unsupported("hash of a symbolic number")
    def __index__(self): raise Unsupported("symbolic number used as an index/range bound")
    def __int__(self): raise Unsupported("int() of a symbolic number (use the int facade)")
    def __float__(self): raise Unsupported("float() of a symbolic number")
    def __iter__(self): raise Unsupported("iteration over a symbolic number")
    def __len__(self): raise Unsupported("len of a symbolic number")

    def __format__(self, spec):
        return f"<{z3.simplify(self.z)}>"

    def __getattr__(self, k):
        if k.startswith("__"):
            raise AttributeError(k)
        raise Unsupported("number proxy has no attribute " + k)

    def __repr__(self):
        return f"PNum({z3.simplify(self.z)})"


def _is_np_num(o):
    try:
        import numpy as np
        return isinstance(o, (np.integer, np.floating))
    except ImportError:
        return False


class _IntMeta(type):
    def __instancecheck__(cls, o):
        return builtins.isinstance(o, builtins.int)

    def __call__(cls, x=0, *a):
        if builtins.isinstance(x, PNum) or type(x) is PNum:
            if x.z.sort() == z3.IntSort():
                return x
            # python int() truncates toward zero
            f = z3.ToInt(x.z)
            if decide(x.z >= 0):
                return PNum(f)
            return PNum(z3.If(z3.ToReal(f) == x.z, f, f + 1))
        return builtins.int(x, *a)


class IntFacade(metaclass=_IntMeta):
    """stands in for the builtin `int` in a traced module's globals: isinstance(x, int) and
    `case int():` still work (through __instancecheck__), int(sym) stays symbolic"""
    __match_args__ = ()


class _FloatMeta(type):
    def __instancecheck__(cls, o):
        return builtins.isinstance(o, builtins.float)

    def __call__(cls, x=0.0):
        if type(x) is PNum:
            return PNum(rv(x.z))
        return builtins.float(x)


class FloatFacade(metaclass=_FloatMeta):
    __match_args__ = ()


def sym_min(*a):
    if len(a) == 1:
        a = tuple(a[0])
    if not any(type(x) is PNum for x in a):
        return builtins.min(a)
    r = a[0]
    for x in a[1:]:
        r = x if (x < r) else r       # decided through the schedule
    return r


def sym_max(*a):
    if len(a) == 1:
        a = tuple(a[0])
    if not any(type(x) is PNum for x in a):
        return builtins.max(a)
    r = a[0]
    for x in a[1:]:
        r = x if (x > r) else r
    return r


class SymRange:
    """range with symbolic bounds: only usable as a coordinate label generator"""

    def __init__(self, a, b):
        self.a, self.b = a, b

    def __iter__(self):
        raise Unsupported("iteration over a symbolic range (needs the loop rule)")

    def __len__(self):
        raise Unsupported("len of symbolic range")


def sym_range(a, b=None, step=None):
    if step is not None:
        if any(type(x) is PNum for x in (a, b, step)):
            raise Unsupported("symbolic range with step")
        return builtins.range(a, b, step)
    if b is None:
        a, b = 0, a
    if type(a) is PNum or type(b) is PNum:
        return SymRange(a, b)
    return builtins.range(a, b)


# ------------------------------------------------------------------ strings
class PStr:
    __slots__ = ("z",)

    def __init__(self, z):
        self.z = z

    @property
    def __class__(self):
        return str

    def __eq__(self, o):
        if type(o) is PStr:
            return PBool(self.z == o.z)
        if type(o) is str:
            return PBool(self.z == z3.StringVal(o))
        return PBool(z3.BoolVal(False))

    def __ne__(self, o):
        return ~self.__eq__(o)

    def __len__(self):
        raise Unsupported("len() of symbolic string must go through the len facade")

    def length(self):
        return PNum(z3.Length(self.z))

    def startswith(self, prefix):
        if type(prefix) is str:
            return PBool(z3.PrefixOf(z3.StringVal(prefix), self.z))
        raise Unsupported("startswith argument")

    def endswith(self, suffix):
        if type(suffix) is str:
            return PBool(z3.SuffixOf(z3.StringVal(suffix), self.z))
        raise Unsupported("endswith argument")

    def __getitem__(self, i):
        if type(i) is int:
            n = z3.Length(self.z)
            if i >= 0:
                if not decide(n > i):
                    raise IndexError("string index out of range")
                return PStr(z3.SubString(self.z, i, 1))
            if not decide(n >= -i):
                raise IndexError("string index out of range")
            return PStr(z3.SubString(self.z, n + i, 1))
        raise Unsupported("string indexing with " + type(i).__name__)

    def __hash__(self):
        raise Unsupported("hash of symbolic string")

    def __contains__(self, o):
        raise Unsupported("substring test on symbolic string")

    def __iter__(self):
        raise Unsupported("iteration over symbolic string")

    def __getattr__(self, k):
        if k.startswith("__"):
            raise AttributeError(k)
        raise Unsupported("string proxy has no attribute " + k)

    def __repr__(self):
        return f"PStr({self.z})"


def patched_globals(modules, names):
    """context manager: rebinding of names in the namespaces of the given modules for the duration"""
    class P:
        def __enter__(s):
            s.saved = []
            for mod in modules:
                for k, v in names.items():
                    if k in mod.__dict__ or k in ("int", "float", "range", "min", "max", "len"):
                        s.saved.append((mod, k, mod.__dict__.get(k), k in mod.__dict__))
                        mod.__dict__[k] = v
            return s

        def __exit__(s, *a):
            for mod, k, old, had in reversed(s.saved):
                if had:
                    mod.__dict__[k] = old
                else:
                    mod.__dict__.pop(k, None)
    return P()


class use_ctx:
    """re-activate a finished path's context (for building goal terms under its facts)"""

    def __init__(self, c):
        self.c = c

    def __enter__(self):
        global _CTX
        self.old = _CTX
        _CTX = self.c
        return self.c

    def __exit__(self, *a):
        global _CTX
        _CTX = self.old

"""Discharge of matrix obligations collected from a traced path."""
import time

import z3

from . import terms as tm
from .norm import Normalizer
from .terms import Unsupported


def normalizer_for(c, extra_hyps=(), extra_facts=()):
    N = Normalizer(list(c.all_facts()) + list(extra_facts))
    for h in list(c.hyps) + list(extra_hyps):
        lhs, rhs, name = h[0], h[1], h[2]
        orient = h[3] if len(h) > 3 else None
        N.add_hyp(lhs, rhs, name=name, orient=orient)
    for t in c.notes.get("pos_diag", []):
        N.add_pos(t)
    return N


def prove_eq(c, lhs, rhs, extra_hyps=(), extra_facts=()):
    """-> dict(status, backend, time_s, residue, steps)"""
    t0 = time.time()
    try:
        N = normalizer_for(c, extra_hyps, extra_facts)
        ok, resid = N.equal(lhs, rhs)
        return {"status": "discharged" if ok else "failed", "backend": "normaliser+z3",
                "time_s": round(time.time() - t0, 4), "residue": resid, "steps": len(N.steps)}
    except Unsupported as e:
        return {"status": "undecided", "backend": "normaliser+z3", "time_s": round(time.time() - t0, 4),
                "residue": f"unsupported: {e}", "steps": 0}


def prove_scalar(c, cond, extra_facts=(), timeout_ms=10000):
    """validity of a z3 formula under the path's facts, z3 then cvc5-free fallback"""
    t0 = time.time()
    s = z3.Solver()
    s.set("timeout", timeout_ms)
    s.add(list(c.all_facts()) + list(extra_facts))
    s.add(z3.Not(cond))
    r = s.check()
    out = {"backend": "z3", "time_s": round(time.time() - t0, 4), "residue": ""}
    if r == z3.unsat:
        out["status"] = "discharged"
    elif r == z3.sat:
        out["status"] = "failed"
        m = s.model()
        out["residue"] = "counter-model: " + ", ".join(f"{d.name()}={m[d]}" for d in m.decls()
                                                       if d.arity() == 0)[:400]
        out["model"] = {d.name(): str(m[d]) for d in m.decls() if d.arity() == 0}
    else:
        out["status"] = "undecided"
        out["residue"] = "solver returned unknown: " + s.reason_unknown()
    return out

"""The one mechanical source transformation (DESIGN.md 1.2): a `for` loop identified by (function, loop ordinal)
is replaced by the Hoare loop rule - check the invariant on entry; on an arbitrary iteration: havoc what the body
assigns, assume the invariant, run the ORIGINAL body text once, check the invariant; after the loop: havoc, assume
invariant at exit.  Everything else of the function is compiled verbatim from inspect.getsource on every run."""
import ast
import inspect
import textwrap


class EndPath(Exception):
    """an arbitrary iteration has been verified: this path ends here"""


def rewrite(func, ordinal, modifies=()):
    src = textwrap.dedent(inspect.getsource(func))
    tree = ast.parse(src)
    fdef = tree.body[0]
    loops = [n for n in ast.walk(fdef) if isinstance(n, ast.For)]
    loops.sort(key=lambda n: (n.lineno, n.col_offset))
    loop = loops[ordinal]
    assigned = []
    comp_scoped = set()
    for n in ast.walk(ast.Module(body=loop.body, type_ignores=[])):
        if isinstance(n, (ast.ListComp, ast.DictComp, ast.SetComp, ast.GeneratorExp)):
            for g in n.generators:
                for t in ast.walk(g.target):
                    if isinstance(t, ast.Name):
                        comp_scoped.add(t.id)
    for n in ast.walk(ast.Module(body=loop.body, type_ignores=[])):
        if isinstance(n, ast.Name) and isinstance(n.ctx, ast.Store) and n.id not in assigned and n.id not in comp_scoped:
            assigned.append(n.id)
    tnames = [n.id for n in ast.walk(loop.target) if isinstance(n, ast.Name)]
    it = loop.iter
    if isinstance(it, ast.Call) and isinstance(it.func, ast.Name) and it.func.id in ("enumerate", "range", "zip"):
        kind, seqs = it.func.id, list(it.args)
    else:
        kind, seqs = "seq", [it]
    seq_src = ", ".join(ast.unparse(s) for s in seqs) + ("," if len(seqs) == 1 else "")
    hav_locals = "\n".join(f"    {v} = __vc.havoc({ordinal}, {v!r})" for v in assigned if v not in tnames) or "    pass"
    hav_heap = "\n".join(f"    {e} = __vc.havoc({ordinal}, {e!r})" for e in modifies) or "    pass"
    tgt = ast.unparse(loop.target)
    new = ast.parse(textwrap.dedent(f"""
__vc.loop_entry({ordinal}, {kind!r}, ({seq_src}), locals())
if __vc.choose({ordinal}):
    __vc_idx = __vc.fresh_index({ordinal})
{hav_locals}
{hav_heap}
    {tgt} = __vc.bind({ordinal}, {kind!r}, ({seq_src}), __vc_idx)
    __vc.assume_inv({ordinal}, __vc_idx, locals())
    for __vc_once in (0,):
        pass
    else:
        __vc.check_inv({ordinal}, __vc_idx, locals())
        raise __vc.EndPath()
    __vc.loop_break({ordinal}, locals())
else:
{hav_locals}
{hav_heap}
    __vc.assume_exit({ordinal}, ({seq_src}), locals())
""")).body
    ifnode = new[1]
    once = [n for n in ifnode.body if isinstance(n, ast.For)][0]
    once.body = loop.body

    class R(ast.NodeTransformer):
        def visit_For(self, node):
            if node is loop:
                return new
            return self.generic_visit(node)
    out = R().visit(tree)
    ast.fix_missing_locations(out)
    return out, ast.unparse(out), {"assigned": assigned, "kind": kind, "target": tgt}


def compile_with_rule(func, ordinal, vc, modifies=()):
    """-> a function object with the same globals as `func` whose chosen loop is replaced by the rule"""
    tree, text, info = rewrite(func, ordinal, modifies)
    code = compile(tree, filename=f"<looprule:{func.__qualname__}:{ordinal}>", mode="exec")
    g = func.__globals__
    ns = {}
    g2 = dict(g)
    g2["__vc"] = vc
    exec(code, g2, ns)
    f = ns[func.__name__]
    return f, text, info

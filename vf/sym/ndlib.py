"""numpy-level library contracts on positional proxies (direct calls inside traced kernels)."""
import z3

from . import terms as tm
from .core import Unsupported, ctx, decide
from .terms import fresh, ONE


def _nd():
    from .nd import SymND
    return SymND


def nd_inv(A):
    SymND = _nd()
    if not isinstance(A, SymND) or A.nd != 2:
        raise Unsupported("np.linalg.inv argument")
    ctx().events.append(("call", {"callee": "np.linalg.inv", "arg": repr(A.term)}))
    ctx().obligs.append({"kind": "invertible", "term": A.term})
    return SymND(tm.inv(A.term), 2, A.cplx, A.lazy)


def nd_pinv(A):
    raise Unsupported("np.linalg.pinv on proxies")


def nd_svd(A, full_matrices=True, compute_uv=True, **kw):
    """np.linalg.svd called directly on a positional proxy (full_matrices=True)"""
    SymND = _nd()
    if kw or not full_matrices or not compute_uv or not isinstance(A, SymND) or A.nd != 2:
        raise Unsupported("np.linalg.svd variant")
    ctx().events.append(("call", {"callee": "np.linalg.svd", "kwargs": {}, "lazy_in": A.lazy}))
    n, p = A.term.rows, A.term.cols
    r = n if decide(n.z <= p.z) else p
    pr = () if A.cplx else ("real",)
    tag = fresh("svd")
    U = tm.sym(f"Uf.{tag}", n, n, pr + ("unit", "inv"))
    tags = set(A.tags)
    # preconditions registered by the contract: terms known to be Hermitian positive definite
    from .norm import Normalizer
    N = Normalizer(ctx().all_facts())
    for t in ctx().notes.get("posdef", []):
        try:
            if N.equal(A.term, t)[0]:
                tags |= {"psd", "fullrank"}
        except Unsupported:
            pass
    sp = ("diag", "real", "herm") + (("pos", "inv") if "fullrank" in tags else ())
    s = tm.sym(f"sf.{tag}", r, r, sp)
    VT = tm.sym(f"VTf.{tag}", p, p, pr + ("unit", "inv"))
    c = ctx()
    c.hyps.append((A.term, tm.mul(tm.mul(tm.mul(U, tm.sel(n, r)), s), tm.mul(tm.H(tm.sel(p, r)), VT)),
                   "np.linalg.svd: X = U E s E^H VT", "lr"))
    ctx().notes.setdefault("svd_calls", []).append({"A": A.term, "U": U, "s": s, "VT": VT})
    if "psd" in tags:
        # Hermitian positive semi-definite input: left and right singular vectors coincide on range(A)
        if "fullrank" in tags:
            c.hyps.append((U, tm.H(VT), "PD lemma: U = V for Hermitian positive definite input", "lr"))
        else:
            c.hyps.append((tm.mul(U, s), tm.mul(tm.H(VT), s), "PSD lemma: U s = V s for Hermitian PSD input"))
    return (SymND(U, 2, A.cplx, A.lazy), SymND(s, 1, False, A.lazy, ("desc", "nonneg")), SymND(VT, 2, A.cplx, A.lazy))


def nd_eig(A):
    """np.linalg.eig: A P = P diag(lambda) (assumed contract; eigenvalues complex in general, P invertible when A is diagonalisable)"""
    SymND = _nd()
    if not isinstance(A, SymND) or A.nd != 2:
        raise Unsupported("np.linalg.eig argument")
    c = ctx()
    if A.lazy:
        c.events.append(("force", "np.linalg.eig has no dask implementation"))
    k = A.term.rows
    tag = fresh("eig")
    lam = tm.sym(f"lam.{tag}", k, k, ("diag",))
    P = tm.sym(f"P.{tag}", k, k, ())
    c.hyps.append((tm.mul(A.term, P), tm.mul(P, lam), "np.linalg.eig: A P = P diag(lambda)"))
    c.notes.setdefault("eig_calls", []).append({"A": A.term, "lam": lam, "P": P})
    c.events.append(("call", {"callee": "np.linalg.eig"}))
    return SymND(lam, 1, True, False), SymND(P, 2, True, False)


def nd_norm(A, axis=None, **kw):
    raise Unsupported("np.linalg.norm on proxies")

"""Assumed contracts of library functions (DESIGN.md 3.2), as stubs that the facades dispatch to.
Each stub (i) checks the library's precondition at the call site (a violated precondition yields
the exception the real library raises), (ii) returns fresh symbols constrained only by the
library's postcondition, recorded as hypotheses in the tracing context, and (iii) records the
keyword arguments it received (for the forwarding clauses of C15).
Every stub used is reported in the evidence as an assumption.
"""
import z3

from . import terms as tm
from .core import PNum, Unsupported, ctx, decide, zl
from .terms import ext_of, fresh
from .xda import SymDA, Argsort

ASSUMED = {
    "np.linalg.svd": "X = U diag(s) V^H with U, V^H unitary (full_matrices=True), s real >= 0 descending, length min(n,p)",
    "sklearn.randomized_svd": "returns the exact leading n_components singular triplets (accuracy of the randomised method is NOT verified), deterministic in random_state",
    "scipy.sparse.linalg.svds": "returns k exact singular triplets in ascending order; requires 0 < k < min(shape) (raises ValueError otherwise)",
    "dask.svd_compressed": "returns the exact leading k singular triplets as lazy arrays (computed when compute=True), deterministic in seed",
    "np.linalg.inv": "A inv(A) = inv(A) A = I for invertible A",
    "np.argsort": "x[argsort(x)] is ascending",
}


def _two(X, core):
    d0, d1 = core
    if not isinstance(X, SymDA) or set(X.dims) != {d0, d1}:
        raise ValueError(f"operand to apply_ufunc has required core dimensions {list(core)}, but some are missing: {X.dims}")
    return X.transpose(d0, d1)


def _note_call(name, kwargs, lazy_in):
    ctx().events.append(("call", {"callee": name, "kwargs": dict(kwargs), "lazy_in": lazy_in}))


def svd_full(func, args, icd, ocd, kwargs):
    """np.linalg.svd through xr.apply_ufunc"""
    (X,) = args
    _note_call("np.linalg.svd", kwargs, X.lazy)
    if kwargs:
        raise TypeError(f"svd() got an unexpected keyword argument {next(iter(kwargs))!r}")
    Xt = _two(X, icd[0])
    n, p = Xt._ext[icd[0][0]], Xt._ext[icd[0][1]]
    r = n if decide(n.z <= p.z) else p
    pr = () if X.cplx else ("real",)
    tag = fresh("svd")
    U = tm.sym(f"Uf.{tag}", n, n, pr + ("unit", "inv"))
    s = tm.sym(f"sf.{tag}", r, r, ("diag", "real", "herm", "nonneg"))
    VT = tm.sym(f"VTf.{tag}", p, p, pr + ("unit", "inv"))
    c = ctx()
    c.hyps.append((Xt.term, tm.mul(tm.mul(tm.mul(U, tm.sel(n, r)), s), tm.mul(tm.H(tm.sel(p, r)), VT)),
                   "np.linalg.svd: X = U E s E^H VT", "lr"))
    o = ocd
    return (SymDA(U, o[0], {o[0][0]: n, o[0][1]: n}, None, X.cplx, X.lazy),
            SymDA(s, o[1], {o[1][0]: r}, None, False, X.lazy, tags=("desc", "nonneg")),
            SymDA(VT, o[2], {o[2][0]: p, o[2][1]: p}, None, X.cplx, X.lazy))


def _truncated(name, kname, order_tags, strict, lazy_out):
    def stub(func, args, icd, ocd, kwargs):
        (X,) = args
        _note_call(name, kwargs, X.lazy)
        if kname not in kwargs:
            raise TypeError(f"{name}() missing required argument {kname!r}")
        k = kwargs[kname]
        Xt = _two(X, icd[0])
        n, p = Xt._ext[icd[0][0]], Xt._ext[icd[0][1]]
        kz = zl(k)
        lim = z3.If(n.z <= p.z, n.z, p.z)
        if strict:
            if not decide(z3.And(kz > 0, kz < lim)):
                raise ValueError("`k` must be an integer satisfying `0 < k < min(A.shape)`.")
        elif not decide(z3.And(kz >= 1, kz <= lim)):
            raise Unsupported(f"{name} called with k outside 1..min(shape): behaviour of the library not modelled")
        ke = ext_of(kz)
        pr = () if X.cplx else ("real",)
        tag = fresh(name.split(".")[-1])
        U = tm.sym(f"U.{tag}", n, ke, pr)
        s = tm.sym(f"s.{tag}", ke, ke, ("diag", "real", "herm", "nonneg"))
        VT = tm.sym(f"VT.{tag}", ke, p, pr)
        c = ctx()
        c.hyps += [(tm.mul(tm.H(U), U), tm.I(ke), f"{name}: U^H U = I"),
                   (tm.mul(VT, tm.H(VT)), tm.I(ke), f"{name}: VT VT^H = I"),
                   (tm.mul(Xt.term, tm.H(VT)), tm.mul(U, s), f"{name}: X V = U s"),
                   (tm.mul(tm.H(Xt.term), U), tm.mul(tm.H(VT), s), f"{name}: X^H U = V s")]
        lazy = lazy_out(kwargs, X)
        o = ocd
        return (SymDA(U, o[0], {o[0][0]: n, o[0][1]: ke}, None, X.cplx, lazy),
                SymDA(s, o[1], {o[1][0]: ke}, None, False, lazy, tags=order_tags),
                SymDA(VT, o[2], {o[2][0]: ke, o[2][1]: p}, None, X.cplx, lazy))
    return stub


svd_randomized = _truncated("sklearn.randomized_svd", "n_components", ("desc", "nonneg"), False,
                            lambda kw, X: False)
svd_svds = _truncated("scipy.sparse.linalg.svds", "k", ("asc", "nonneg"), True, lambda kw, X: False)
svd_dask = _truncated("dask.svd_compressed", "k", ("desc", "nonneg"), False,
                      lambda kw, X: not kw.get("compute", False))


def sign_multiplier(data, dim):
    """contract of xeofs.utils.xarray_utils.get_deterministic_sign_multiplier:
    a vector d over the remaining dim with d in {+1,-1} (d^2 = 1), lazy-safe"""
    ctx().events.append(("call", {"callee": "get_deterministic_sign_multiplier", "dim": dim}))
    if dim not in data.dims:
        raise ValueError(f"{dim!r} not found in array dimensions {data.dims}")
    (keep,) = [d for d in data.dims if d != dim]
    k = data._ext[keep]
    d = tm.sym(fresh("sign"), k, k, ("diag", "real", "herm", "unit", "inv"))
    return SymDA(d, (keep,), {keep: k}, {keep: data._cid.get(keep)}, False, data.lazy)


def argsort_dask(data, dim):
    """contract of xeofs.utils.xarray_utils.argsort_dask: a lazy-safe argsort along `dim`
    (x[argsort(x)] ascending); the result is only usable as a positional indexer"""
    ctx().events.append(("call", {"callee": "argsort_dask", "dim": dim}))
    if dim not in data.dims or len(data.dims) != 1:
        raise Unsupported("argsort_dask on this argument")
    r = data._new(data.term, mark=Argsort(f"argsort({data.term!r})", data.term))
    return r


def promax_stub(power):
    """contract of xeofs.linalg.rotation.promax (verified separately at the numpy level where reachable):
    rotated = loadings @ R, R invertible (unitary for power 1), phi = R^-1 R^-H ... returned with dims
    (feature, mode), (mode_m, mode_n), (mode_m, mode_n).  Precondition of its callers' divisions:
    the rotated loadings have non-zero columns."""
    def promax(loadings, feature_dim, **kwargs):
        c = ctx()
        c.events.append(("call", {"callee": "promax", "kwargs": dict(kwargs), "feature_dim": feature_dim}))
        if set(loadings.dims) != {feature_dim, "mode"}:
            raise ValueError(f"operand to apply_ufunc has required core dimensions {[feature_dim, 'mode']}")
        L = loadings.transpose(feature_dim, "mode")
        k = L._ext["mode"]
        if not (PNum(k.z) >= 2):
            raise ValueError("Cannot rotate 1 modes (columns), but must be 2 or more.")
        pr = () if loadings.cplx else ("real",)
        R = tm.sym(fresh("R"), k, k, pr + (("unit", "inv") if power == 1 else ("inv",)))
        rot = tm.mul(L.term, R)
        c.notes.setdefault("pos_diag", []).append(tm.mul(tm.H(rot), rot))
        phi = tm.mul(tm.inv(R), tm.H(tm.inv(R)))
        mm, mn = "mode_m", "mode_n"
        return (SymDA(rot, (feature_dim, "mode"), {feature_dim: L._ext[feature_dim], "mode": k},
                      {feature_dim: L._cid.get(feature_dim), "mode": L._cid.get("mode")}, loadings.cplx, loadings.lazy),
                SymDA(R, (mm, mn), {mm: k, mn: k}, None, loadings.cplx, loadings.lazy),
                SymDA(phi, (mm, mn), {mm: k, mn: k}, None, loadings.cplx, loadings.lazy))
    return promax


def ufunc_inv(func, args, icd, ocd, kwargs):
    """np.linalg.inv through xr.apply_ufunc (square matrix, output dims as given)"""
    (A,) = args
    core = tuple(icd[0])
    At = A.transpose(*core)
    ctx().events.append(("call", {"callee": "np.linalg.inv(apply_ufunc)"}))
    o = tuple(ocd[0])
    return SymDA(tm.inv(At.term), o, {o[0]: At._ext[core[1]], o[1]: At._ext[core[0]]},
                 {o[0]: At._cid.get(core[1]), o[1]: At._cid.get(core[0])}, A.cplx, A.lazy)


def ufunc_pinv(func, args, icd, ocd, kwargs):
    """np.linalg.pinv through xr.apply_ufunc: equals the inverse for an invertible matrix; numpy's pinv has no
    dask dispatch, so on a dask-backed argument it forces the computation (forcing table, DESIGN.md C12)"""
    (A,) = args
    if A.lazy:
        ctx().events.append(("force", "np.linalg.pinv has no dask implementation: the argument is computed eagerly"))
    r = ufunc_inv(func, args, icd, ocd, kwargs)
    r.lazy = False
    return r


def ufunc_colnorm(func, args, icd, ocd, kwargs):
    """np.linalg.norm(x, axis=-1) through xr.apply_ufunc with one core dim: Euclidean norm along that dim"""
    (A,) = args
    (core,) = icd
    (d,) = core
    if d not in A.dims:
        raise ValueError(f"operand to apply_ufunc has required core dimensions {list(core)}, but some are missing: {A.dims}")
    if len(A.dims) != 2 or kwargs.get("axis") != -1:
        raise Unsupported("norm variant")
    (keep,) = [x for x in A.dims if x != d]
    M = A.transpose(d, keep).term
    g = tm.dg(tm.mul(tm.H(M), M))
    g = tm.T(g.op, g.args, g.rows, g.cols, g.props | {"real", "herm", "nonneg"})
    return SymDA(tm.dpow(g, 0.5), (keep,), {keep: A._ext[keep]}, {keep: A._cid.get(keep)}, False, A.lazy)


def ufunc_eigh(func, args, icd, ocd, kwargs):
    """np.linalg.eigh through xr.apply_ufunc: for a real symmetric A (only one triangle is read: symmetry is the
    caller's obligation, recorded in notes['eigh_args']) returns ascending real eigenvalues w and an orthogonal
    matrix Q of eigenvectors, A Q = Q diag(w)."""
    (A,) = args
    core = tuple(icd[0])
    At = _two(A, core)
    k = At._ext[core[0]]
    if not decide(k.z == At._ext[core[1]].z):
        raise ValueError("Last 2 dimensions of the array must be square")
    c = ctx()
    tag = fresh("eigh")
    c.events.append(("call", {"callee": "np.linalg.eigh(apply_ufunc)", "kwargs": dict(kwargs)}))
    pr = () if A.cplx else ("real",)
    Asym = tm.sym(f"A.{tag}", k, k, pr + ("herm",))
    c.notes.setdefault("eigh_args", []).append((Asym, At.term))
    Q = tm.sym(f"Q.{tag}", k, k, pr + ("unit", "inv"))
    w = tm.sym(f"w.{tag}", k, k, ("diag", "real", "herm"))
    c.hyps += [(tm.mul(Asym, Q), tm.mul(Q, w), "eigh: A Q = Q w"),
               (tm.mul(tm.H(Q), Asym), tm.mul(w, tm.H(Q)), "eigh: Q^H A = w Q^H")]
    ow, oq = tuple(ocd[0]), tuple(ocd[1])
    return (SymDA(w, ow, {ow[0]: k}, None, False, A.lazy, tags=("asc",)),
            SymDA(Q, oq, {oq[0]: k, oq[1]: k}, {oq[0]: At._cid.get(core[0])}, A.cplx, A.lazy))


def ufunc_colnorm0(func, args, icd, ocd, kwargs):
    """np.linalg.norm(x, axis=0) through xr.apply_ufunc with core dims [feature, mode] -> [mode]: Euclidean column norms
    (positive: the caller divides by them - precondition 'no zero column', recorded)"""
    (A,) = args
    core = tuple(icd[0])
    if kwargs.get("axis") != 0 or len(core) != 2 or tuple(ocd[0]) != (core[1],):
        raise Unsupported("norm variant")
    At = _two(A, core)
    g = tm.dg(tm.mul(tm.H(At.term), At.term))
    c = ctx()
    c.notes.setdefault("pos_diag", []).append(g.args[0])
    g = tm.T(g.op, g.args, g.rows, g.cols, g.props | {"diag", "real", "herm", "nonneg", "pos", "inv"})
    keep = core[1]
    return SymDA(tm.dpow(g, 0.5), (keep,), {keep: At._ext[keep]}, {keep: At._cid.get(keep)}, False, A.lazy, tags=("nonneg",))

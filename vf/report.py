"""Result model, known findings, baseline, evidence and exit-code mapping (DESIGN.md 2.3, 4.4, 7)."""
import json
import os
import time

ROOT = os.path.dirname(os.path.dirname(os.path.abspath(__file__)))


class Ob:
    """one proof obligation (aggregated over the paths/configs it was generated on)"""

    def __init__(self, oid, function, clause, status, backend="", time_s=0.0, detail="", vcs=1, sig=None):
        self.id = oid
        self.function = function
        self.clause = clause
        self.status = status          # discharged | failed | undecided
        self.backend = backend
        self.time_s = time_s
        self.detail = detail
        self.vcs = vcs                # number of verification conditions behind it (paths x configs)
        self.sig = dict(sig or {})
        self.sig.setdefault("obligation", oid)

    def as_dict(self):
        return {"id": self.id, "function": self.function, "clause": self.clause, "status": self.status,
                "backend": self.backend, "time_s": round(self.time_s, 4), "vcs": self.vcs,
                "detail": self.detail[:400]}


class Case:
    """one bounded (run-time) evaluation of contract clauses on the real code"""

    def __init__(self, check, sig, ok, detail="", payload=None, nontrivial=True):
        self.check = check            # name of the bounded check
        self.sig = dict(sig)
        self.sig.setdefault("check", check)
        self.ok = ok
        self.detail = detail
        self.payload = payload or {}  # what replay needs to re-run it
        self.nontrivial = nontrivial


class Result:
    def __init__(self, prop):
        self.prop = prop
        self.obs = []
        self.cases = []
        self.functions = []           # functions under contract
        self.assumptions = []
        self.trusted = []
        self.notes = []
        self.paths = 0
        self.undecided_reasons = []
        self.refuters = {}            # obligation id -> callable(tier, seed) -> list[Case]
        self.samples = []
        self.extra = {}

    def ob(self, *a, **k):
        o = Ob(*a, **k)
        self.obs.append(o)
        return o

    def case(self, *a, **k):
        c = Case(*a, **k)
        self.cases.append(c)
        return c


def load_known():
    p = os.path.join(ROOT, "known_findings.json")
    if not os.path.exists(p):
        return {"findings": [], "fixed": []}
    return json.load(open(p))


def load_baseline():
    p = os.path.join(ROOT, "contracts", "baseline.json")
    if not os.path.exists(p):
        return {}
    return json.load(open(p))


def match_known(prop, sig, known):
    for f in known.get("findings", []):
        if f["property"] != prop:
            continue
        if all(str(sig.get(k)) == str(v) for k, v in f["match"].items()):
            return f
    return None


def _jsonable(x):
    try:
        json.dumps(x)
        return x
    except TypeError:
        if isinstance(x, dict):
            return {str(k): _jsonable(v) for k, v in x.items()}
        if isinstance(x, (list, tuple, set)):
            return [_jsonable(v) for v in x]
        return repr(x)


def _replay_root():
    return os.environ.get("VERIF_REPLAY_DIR") or os.path.join(ROOT, "replays")      # scratch runs (parallel sweeps) write elsewhere


def write_replay(prop, name, payload):
    d = os.path.join(_replay_root(), prop)
    os.makedirs(d, exist_ok=True)
    safe = "".join(ch if ch.isalnum() or ch in "-_." else "_" for ch in name)[:120]
    p = os.path.join(d, safe + ".json")
    with open(p, "w") as f:
        json.dump(_jsonable(payload), f, indent=1, sort_keys=True)
    return p


def finish(res, tier, seed, level, t0, checker_cmd, explanation=""):
    """decide outcome, print VIOLATION / KNOWN-FINDING / UNDECIDED lines, write evidence, return exit code"""
    prop = res.prop
    known = load_known()
    base = load_baseline().get(prop, {})
    base_proved = set(base.get("proved", []))
    violations = []
    known_hits = []
    undecided = list(res.undecided_reasons)

    # ---- bounded cases
    for c in res.cases:
        if c.ok:
            continue
        f = match_known(prop, c.sig, known)
        if f:
            known_hits.append((f, c))
        else:
            violations.append(("bounded", c.check, c.sig, c.detail, c.payload, None))

    # ---- obligations
    unsup_funcs = {o.function for o in res.obs if o.clause.startswith("within-supported-subset") and o.status != "discharged"}
    ids_now = set()
    for o in res.obs:
        ids_now.add(o.id)
        if o.status == "discharged":
            continue
        f = match_known(prop, o.sig, known)
        if f:
            known_hits.append((f, o))
            continue
        refuted = [c for c in res.cases if not c.ok and c.sig.get("obligation_ref") == o.id]
        # an obligation that is UNDECIDED because the code left the modelled subset (Unsupported, solver unknown) is a tool
        # limit, not a refutation: it never becomes a violation by itself, proved before or not.  Guards that fail only because no
        # traced path returned while a sibling "within-supported-subset" obligation is open are treated the same way.
        guard = ("vacuity guard" in (o.detail or "") or "vacuity guard" in o.clause or o.clause.startswith("has-returning-path")
                 or o.clause.startswith("has a ") or "path exists" in o.clause)
        if o.status == "undecided" or (o.status == "failed" and guard and o.function in unsup_funcs):
            if not [c for c in res.cases if not c.ok and not match_known(prop, c.sig, known)]:
                undecided.append(f"obligation {o.id} undecided (tool limit): {o.detail[:200]}")
                continue
        if o.status == "failed" or o.id in base_proved:
            # a failing obligation is reported as a violation only with a real failing input, or
            # when it is proved in the committed baseline and now is not
            cases = []
            if not refuted and o.id in res.refuters:
                try:
                    cases = [c for c in res.refuters[o.id](tier, seed) if not c.ok]
                except Exception as e:  # noqa: BLE001
                    undecided.append(f"refuter for {o.id} crashed: {e!r}")
            if refuted:
                continue        # already reported through the bounded case
            if not cases:
                # failing inputs found by this run's bounded evaluations of the same property replay the violation
                cases = [c for c in res.cases if not c.ok and not match_known(prop, c.sig, known)][:1]
            if cases:
                c = cases[0]
                if match_known(prop, c.sig, known):
                    known_hits.append((match_known(prop, c.sig, known), c))
                else:
                    violations.append(("obligation", o.id, c.sig, f"{o.clause}: {o.detail} | {c.detail}", c.payload, o))
            elif o.id in base_proved:
                violations.append(("obligation-nofail", o.id, o.sig, f"{o.clause}: {o.detail}", {}, o))
            else:
                undecided.append(f"obligation {o.id} {o.status} (not in baseline): {o.detail[:200]}")
        else:
            undecided.append(f"obligation {o.id} undecided: {o.detail[:200]}")
    missing = sorted(base_proved - ids_now)
    for m in missing:
        undecided.append(f"baseline obligation {m} was not generated on this tree")

    # ---- report (stale replay files of earlier runs are removed first)
    import glob
    if not os.environ.get("VERIF_KEEP_REPLAYS"):
        for f in glob.glob(os.path.join(_replay_root(), prop, "*.json")):
            os.remove(f)
    printed = set()
    for f, item in known_hits:
        if f["id"] in printed:
            continue
        printed.add(f["id"])
        print(f"KNOWN-FINDING: property={prop} {f['what']}")
    nviol = 0
    seen = set()
    for kind, name, sig, detail, payload, ob in violations:
        key = (kind, name, json.dumps(_jsonable(sig), sort_keys=True))
        if key in seen:
            continue
        seen.add(key)
        nviol += 1
        rp = write_replay(prop, f"{name}-{nviol}", {
            "property": prop, "kind": kind, "name": name, "signature": sig, "detail": detail,
            "payload": payload, "tier": tier, "seed": seed,
            "obligation": ob.as_dict() if ob is not None else None,
            "replay_cmd": f"./check {prop} --replay <this file>"})
        tail = " no-failing-input-found" if kind == "obligation-nofail" else ""
        print(f"VIOLATION property={prop} replay={rp}{tail}")
        print(f"  {kind} {name}: {detail[:300]}")
    for u in undecided[:20]:
        print(f"UNDECIDED property={prop} reason={u}")

    n_vcs = sum(o.vcs for o in res.obs)
    n_dis = sum(o.vcs for o in res.obs if o.status == "discharged")
    distinct = len({json.dumps(_jsonable(c.sig), sort_keys=True) for c in res.cases if c.nontrivial})
    cov = {
        "obligations": n_vcs,
        "discharged": n_dis,
        "obligation_ids": len(res.obs),
        "obligation_ids_discharged": sum(1 for o in res.obs if o.status == "discharged"),
        "checker_cmd": checker_cmd,
        "trusted_base": res.trusted,
        "functions_under_contract": res.functions,
        "paths_explored": res.paths,
        "backends": sorted({o.backend for o in res.obs if o.backend}),
        "solver_time_s": round(sum(o.time_s for o in res.obs), 3),
        "obligation_list": [o.as_dict() for o in res.obs][:400],
        "not_discharged": [o.as_dict() for o in res.obs if o.status != "discharged"],
        "bounded_evaluations": len(res.cases),
        "bounded_failures": sum(1 for c in res.cases if not c.ok),
        "evaluations": max(1, len(res.cases) + n_vcs),
        "distinct_nontrivial": max(distinct, 0) + len(res.obs),
        "rule": "obligations: one per (function, configuration, clause), each discharged on every feasible path; "
                "bounded: one evaluation of the same clauses on the real code per generated input; distinct = "
                "distinct (check, configuration/input signature) pairs; bounded results are never counted as discharged",
        "samples": (res.samples or [o.as_dict() for o in res.obs[:3]] + [
            {"bounded": c.check, "sig": _jsonable(c.sig), "ok": c.ok} for c in res.cases[:3]])[:8],
        "explanation": explanation,
        "known_findings_reported": sorted(printed),
        "undecided": undecided[:50],
        "notes": res.notes,
    }
    cov.update(_jsonable(res.extra))
    ev = {"property_id": prop, "tier": tier, "seed": int(seed), "level": level, "coverage": cov,
          "assumptions": res.assumptions, "wall_s": round(time.time() - t0, 2), "violations": nviol}
    evdir = os.environ.get("VERIF_EVIDENCE_DIR") or os.path.join(ROOT, "evidence")   # scratch runs on modified trees
    os.makedirs(evdir, exist_ok=True)
    with open(os.path.join(evdir, f"{prop}.json"), "w") as f:
        json.dump(_jsonable(ev), f, indent=1)
    if nviol:
        return 1
    if undecided:
        return 2
    return 0

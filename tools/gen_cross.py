#!/usr/bin/env python3
"""seeded/CROSS.tsv -> seeded/CROSS.md (summary used in DESIGN.md section 0.3)"""
import collections
import csv
import os

ROOT = os.path.dirname(os.path.dirname(os.path.abspath(__file__)))


def main():
    rows = [r for r in csv.reader(open(os.path.join(ROOT, "seeded", "CROSS.tsv")), delimiter="\t") if len(r) >= 3]
    by = collections.defaultdict(dict)
    for r in rows:
        by[r[0]][r[1]] = r[2]
    checks = [f"C{i:02d}" for i in range(1, 21)]
    n = len(by)
    own = sum(1 for ch in by if by[ch].get(ch.split("-")[0]) == "1")
    off = [(ch, c) for ch in sorted(by) for c in checks if c != ch.split("-")[0] and by[ch].get(c) == "1"]
    und = [(ch, c) for ch in sorted(by) for c in checks if by[ch].get(c) == "2"]
    err = [(ch, c) for ch in sorted(by) for c in checks if by[ch].get(c) not in ("0", "1", "2")]
    out = [f"{n} seeded changes x {len(checks)} quick checks = {len(rows)} runs. Own check reports the change (exit 1): {own} of {n}. "
           f"Other checks reporting it (exit 1): {len(off)} cells; UNDECIDED (exit 2): {len(und)} cells; checker errors (exit 3) or missing: {len(err)}.",
           "", "| change | also reported by | undecided in |", "|---|---|---|"]
    for ch in sorted(by):
        a = " ".join(c for c in checks if c != ch.split("-")[0] and by[ch].get(c) == "1")
        u = " ".join(c for c in checks if by[ch].get(c) == "2")
        if a or u:
            out.append(f"| {ch} | {a} | {u} |")
    open(os.path.join(ROOT, "seeded", "CROSS.md"), "w").write("\n".join(out) + "\n")
    print(out[0])


if __name__ == "__main__":
    main()

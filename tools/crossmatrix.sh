#!/bin/sh
# usage: tools/crossmatrix.sh <jobs>   -- run EVERY quick check against EVERY seeded change (in scratch worktrees, in parallel)
# to see which checks raise an alarm on changes aimed at other properties; output: seeded/CROSS.tsv (change, check, exit)
J="${1:-6}"; OUT=/verif/seeded/CROSS.tsv; W=/tmp/xm
mkdir -p $W; : > $W/jobs.txt
for d in /verif/seeded/C*-m${ONLY:-*}/; do echo "$(basename $d)" >> $W/jobs.txt; done
worker() {
  k=$1; wt=$W/wt$k
  git -C /repo worktree add -q --detach $wt HEAD 2>/dev/null
  i=0
  while read id; do
    i=$((i+1)); [ $((i % J)) -eq $((k % J)) ] || continue
    git -C $wt checkout -q -- . ; git -C $wt apply /verif/seeded/$id/patch.diff || { echo "$id NOAPPLY" >> $W/out$k.tsv; continue; }
    for c in ${CHECKS:-C01 C02 C03 C04 C05 C06 C07 C08 C09 C10 C11 C12 C13 C14 C15 C16 C17 C18 C19 C20}; do
      VERIF_REPO=$wt VERIF_EVIDENCE_DIR=$W/ev$k VERIF_REPLAY_DIR=$W/rp$k /verif/check $c --tier quick > $W/log$k.txt 2>&1; rc=$?
      first=$(grep -m1 -E "^  (obligation|bounded)" $W/log$k.txt | cut -c1-160 | tr '\t' ' ')
      printf "%s\t%s\t%s\t%s\n" $id $c $rc "$first" >> $W/out$k.tsv
    done
  done < $W/jobs.txt
  git -C /repo worktree remove --force $wt
}
for k in $(seq 1 $J); do worker $k & done; wait
if [ -n "$CHECKS$ONLY" ] && [ -f $OUT ]; then
  # partial re-run: replace the re-run columns in the existing table
  /venv/bin/python - "$OUT" $W <<'PY'
import csv, glob, sys
out, w = sys.argv[1], sys.argv[2]
rows = {(r[0], r[1]): r for r in csv.reader(open(out), delimiter="\t") if len(r) >= 3}
for f in glob.glob(w + "/out*.tsv"):
    for r in csv.reader(open(f), delimiter="\t"):
        if len(r) >= 3:
            rows[(r[0], r[1])] = r
with open(out, "w") as fh:
    for k in sorted(rows):
        fh.write("\t".join(rows[k]) + "\n")
PY
else
  cat $W/out*.tsv | sort > $OUT
fi
rm -rf $W; wc -l $OUT

#!/bin/sh
# re-run every seeded change under /verif/seeded against its property's quick check; writes seeded/RESULTS.tsv
cd /verif
out=seeded/RESULTS.tsv
printf "seeded\tproperty\texit\tobligation_violations\tbounded_violations\tundecided\tfirst_failing_obligation\n" > $out
for d in seeded/C*-m*/; do
  id=$(basename $d); C=${id%%-*}
  git -C /repo apply "/verif/${d}patch.diff" || { printf "%s\t%s\tNOAPPLY\n" $id $C >> $out; continue; }
  VERIF_EVIDENCE_DIR=/tmp/mut_evidence ./check "$C" --tier quick > /tmp/mutall.log 2>&1; rc=$?
  git -C /repo checkout -- .
  nb=$(grep -c "^  bounded" /tmp/mutall.log); no=$(grep -c "^  obligation" /tmp/mutall.log); nu=$(grep -c "^UNDECIDED" /tmp/mutall.log)
  first=$(grep -m1 "^  obligation" /tmp/mutall.log | sed 's/^  obligation[-a-z]* //' | cut -d: -f1 | cut -c1-160)
  printf "%s\t%s\t%s\t%s\t%s\t%s\t%s\n" $id $C $rc $no $nb $nu "$first" >> $out
done
rm -f /tmp/mutall.log; rm -rf /tmp/mut_evidence
cat $out

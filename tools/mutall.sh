#!/bin/sh
# usage: tools/mutall.sh [jobs]  -- re-run every seeded change under /verif/seeded against its property's quick check
# (in scratch worktrees of /repo's HEAD, in parallel); writes seeded/RESULTS.tsv
J="${1:-12}"; cd /verif; out=seeded/RESULTS.tsv; W=/tmp/mutall
mkdir -p $W; ls -d seeded/C*-m*/ | xargs -n1 basename > $W/jobs.txt
worker() {
  k=$1; wt=$W/wt$k
  git -C /repo worktree add -q --detach $wt HEAD 2>/dev/null
  i=0
  while read id; do
    i=$((i+1)); [ $((i % J)) -eq $((k % J)) ] || continue
    C=${id%%-*}
    git -C $wt checkout -q -- . ; git -C $wt apply /verif/seeded/$id/patch.diff || { printf "%s\t%s\tNOAPPLY\n" $id $C >> $W/out$k.tsv; continue; }
    VERIF_REPO=$wt VERIF_EVIDENCE_DIR=$W/ev$k VERIF_REPLAY_DIR=$W/rp$k ./check "$C" --tier quick > $W/log$k.txt 2>&1; rc=$?
    nb=$(grep -c "^  bounded" $W/log$k.txt); no=$(grep -c "^  obligation" $W/log$k.txt); nu=$(grep -c "^UNDECIDED" $W/log$k.txt)
    first=$(grep -m1 "^  obligation" $W/log$k.txt | sed 's/^  obligation[-a-z]* //' | cut -d: -f1 | cut -c1-160 | tr '\t' ' ')
    printf "%s\t%s\t%s\t%s\t%s\t%s\t%s\n" $id $C $rc $no $nb $nu "$first" >> $W/out$k.tsv
  done < $W/jobs.txt
  git -C /repo worktree remove --force $wt
}
for k in $(seq 1 $J); do worker $k & done; wait
printf "seeded\tproperty\texit\tobligation_violations\tbounded_violations\tundecided\tfirst_failing_obligation\n" > $out
cat $W/out*.tsv | sort >> $out
rm -rf $W; git -C /repo worktree prune
awk -F'\t' 'NR>1{n++; if($3==1)c++} END{print c" of "n" reported (exit 1)"}' $out

#!/bin/sh
# usage: tools/confirm_mutant.sh Cxx mN   -- confirm a sub-agent's change in its scratch worktree and keep it under /verif/seeded/
C="$1"; M="$2"; WT=/tmp/mut/$C; SRC=$WT/_out/$M; DST=/verif/seeded/$C-$M
[ -f "$SRC/patch.diff" ] || { echo "$C $M: no patch"; exit 1; }
cd "$WT" || exit 1
git checkout -q -- . ; git apply --check "$SRC/patch.diff" || { echo "$C $M: patch does not apply"; exit 1; }
export PYTHONPATH=$WT:/tmp/mut/stubs
/venv/bin/python -m pytest -q -p no:cacheprovider -x "$SRC/demo_test.py" > /tmp/cm.$C.$M.clean 2>&1; rc_clean=$?
git apply "$SRC/patch.diff"
/venv/bin/python -m pytest -q -p no:cacheprovider "$SRC/demo_test.py" > /tmp/cm.$C.$M.mut 2>&1; rc_mut=$?
PYTHONPATH=$WT /venv/bin/python -m pytest -q -p no:cacheprovider -n 6 --ignore=_out tests > /tmp/cm.$C.$M.suite 2>&1; rc_suite=$?
git checkout -q -- .
suite=$(tail -1 /tmp/cm.$C.$M.suite)
echo "$C $M: demo clean rc=$rc_clean, demo mutated rc=$rc_mut, suite rc=$rc_suite ($suite)"
if [ $rc_clean -eq 0 ] && [ $rc_mut -ne 0 ] && [ $rc_suite -eq 0 ]; then
  mkdir -p "$DST"; cp "$SRC/patch.diff" "$SRC/demo_test.py" "$DST/"; [ -f "$SRC/notes.md" ] && cp "$SRC/notes.md" "$DST/"
  cat > "$DST/meta.json" <<EOM
{"property": "$C", "origin": "independent sub-agent given only the property text and a scratch worktree",
 "confirmed": {"demo_on_unchanged_tree": "pass", "demo_with_change": "fail", "existing_suite_with_change": "$suite"},
 "ran": ["git apply patch.diff (scratch worktree)", "pytest demo_test.py with and without the change", "pytest -n 6 tests (full suite) with the change"],
 "needs_to_manifest": "see notes.md"}
EOM
  echo "$C $M: kept in $DST"
else
  echo "$C $M: NOT confirmed"
fi
rm -f /tmp/cm.$C.$M.*

#!/usr/bin/env python3
"""Regenerates section 0 of DESIGN.md from tools/asbuilt_template.md, evidence/*.json, seeded/RESULTS.tsv and known_findings.json."""
import csv
import glob
import json
import os
import subprocess

ROOT = os.path.dirname(os.path.dirname(os.path.abspath(__file__)))


def main():
    rows = []
    for f in sorted(glob.glob(os.path.join(ROOT, "evidence", "C*.json"))):
        d = json.load(open(f))
        c = d["coverage"]
        rows.append(f"| {d['property_id']} | {c['obligation_ids']} / {c['obligations']} | {len(c['functions_under_contract'])} | {c['paths_explored']} | "
                    f"{c['bounded_evaluations']} ({c['bounded_failures']}) | {c['solver_time_s']} | {d['wall_s']} |")
    cov = ("| id | obligations: ids / verification conditions (all discharged) | functions under contract | paths | bounded evaluations (failing, all known findings) | solver s | wall s |\n"
           "|---|---|---|---|---|---|---|\n" + "\n".join(rows))
    mrows = []
    p = os.path.join(ROOT, "seeded", "RESULTS.tsv")
    if os.path.exists(p):
        for r in csv.reader(open(p), delimiter="\t"):
            if r[0] == "seeded":
                continue
            r = r + [""] * (7 - len(r))
            if not r[3].isdigit():
                mrows.append(f"| {r[0]} | {r[2]} | | | not applied | |")
                continue
            guard = any(w in r[6] for w in ("has-returning-path", "within-supported-subset", "vacuity guard", "refusal path exists"))
            if guard and int(r[4]):
                how = "bounded (the trace left the modelled subset: guard obligations only)"
            else:
                how = "obligation + bounded" if int(r[3]) and int(r[4]) else ("obligation only" if int(r[3]) else ("bounded only" if int(r[4]) else "NOT CAUGHT"))
            mrows.append(f"| {r[0]} | {r[2]} | {r[3]} | {r[4]} | {how} | {r[6].replace('|', '/')[:120]} |")
    mut = "| change | exit | obligation | bounded | caught by | first failing obligation |\n|---|---|---|---|---|---|\n" + "\n".join(mrows)
    d = json.load(open(os.path.join(ROOT, "known_findings.json")))
    fx = []
    for f in d["fixed"]:
        parts = f.split(" ", 3)
        prop, commit, what = parts[1].split("=")[1], parts[2], parts[3]
        msg = subprocess.run(["git", "-C", "/repo", "log", "-1", "--format=%s", commit], capture_output=True, text=True).stdout.strip()
        fx.append(f"| {prop} | `{commit}` {msg[5:]} | {what[:230].replace('|', '/')} |")
    fix = "| property | commit (`fix:` ...) | what failed |\n|---|---|---|\n" + "\n".join(fx)
    fin = "| property | id | what fails |\n|---|---|---|\n" + "\n".join(
        f"| {f['property']} | `{f['id']}` | {f['what'][:260].replace('|', '/')} |" for f in d["findings"])
    s = open(os.path.join(ROOT, "tools", "asbuilt_template.md")).read()
    s = s.replace("COVERAGE_TABLE", cov).replace("MUTANT_TABLE", mut).replace("FIX_TABLE", fix).replace("FINDING_TABLE", fin)
    cross = os.path.join(ROOT, "seeded", "CROSS.md")
    s = s.replace("CROSS_SECTION", open(cross).read() if os.path.exists(cross) else "(cross-matrix not available)")
    D = open(os.path.join(ROOT, "DESIGN.md")).read()
    a, b = D.index("## 0. As built"), D.index("## 1. The technique as applied here")
    open(os.path.join(ROOT, "DESIGN.md"), "w").write(D[:a] + s.strip() + "\n\n\n" + D[b:])
    print("DESIGN.md section 0 regenerated")


if __name__ == "__main__":
    main()

#!/bin/sh
# usage: tools/mutcheck.sh <patch.diff> <Cxx> [tier]   -- apply a seeded change to /repo, run the check, undo it
P="$(realpath "$1")"; C="$2"; T="${3:-quick}"
git -C /repo apply "$P" || { echo "patch does not apply"; exit 9; }
cd /verif && VERIF_EVIDENCE_DIR=/tmp/mut_evidence ./check "$C" --tier "$T" > /tmp/mutcheck.$$.log 2>&1; rc=$?
git -C /repo checkout -- . 
nb=$(grep -c "^  bounded" /tmp/mutcheck.$$.log); no=$(grep -c "^  obligation" /tmp/mutcheck.$$.log); nu=$(grep -c "^UNDECIDED" /tmp/mutcheck.$$.log)
echo "violations: bounded=$nb obligation=$no undecided=$nu exit=$rc"
grep -E "^  obligation" /tmp/mutcheck.$$.log | cut -c1-220 | head -4
grep -E "^  bounded" /tmp/mutcheck.$$.log | cut -c1-220 | head -2
grep -E "^(UNDECIDED|CHECKER)" /tmp/mutcheck.$$.log | cut -c1-220 | head -2
grep -E "^C[0-9]+:" /tmp/mutcheck.$$.log
rm -f /tmp/mutcheck.$$.log

#!/bin/sh
# usage: tools/mutcheck.sh <patch.diff> <Cxx> [tier]   -- apply a seeded change to /repo, run the check, undo it
P="$1"; C="$2"; T="${3:-quick}"
git -C /repo apply "$P" || { echo "patch does not apply"; exit 9; }
cd /verif && ./check "$C" --tier "$T" > /tmp/mutcheck.$$.log 2>&1; rc=$?
git -C /repo checkout -- . 
grep -E "^(VIOLATION|UNDECIDED|KNOWN|CHECKER|C[0-9]+:)" /tmp/mutcheck.$$.log | cut -c1-260 | head -12
rm -f /tmp/mutcheck.$$.log
echo "exit=$rc"

#!/usr/bin/env python3
"""Regenerates MANIFEST.json from the per-property metadata below and the checks that exist in props/."""
import json
import os

ROOT = os.path.dirname(os.path.dirname(os.path.abspath(__file__)))
META = {
    "C01": dict(level="proof", technique="contract-based deductive verification: symbolic tracing of the real functions against sidecar contracts, matrix-term normaliser + z3; bounded run-time evaluation of the same clauses as labelled stand-in",
                text="SVD_k contract of the real Decomposer.fit (all solver branches, real/complex, numpy/dask) and the C01 clauses of the real EOF._fit_algorithm/_transform_algorithm/_inverse_transform_algorithm/explained_variance_ratio are discharged for all shapes n,p,k, all spectra and both fields; HilbertEOF/ExtendedEOF augmentation, the preprocessing chain, extreme scales and the randomised solvers are evaluated on real fits (bounded, labelled).",
                note="assumed: library SVD back-end contracts (exactness of randomised solvers assumed), reals for floats, Eckart-Young as axiom, parametric dimension names; trusted: proxies/facades (vf/sym/xda.py), normaliser, z3; bounded part: 90 (quick) / ~600 (thorough) real fits",
                ref="5/C01"),
    "C16": dict(level="proof", technique="contract-based deductive verification: the real Whitener.fit kernel chain (Whitener -> _fractional_matrix_power -> _SVD.fit_transform) and the Whitener/PCA maps traced symbolically against sidecar contracts, normaliser + z3; bounded real runs as labelled stand-in",
                text="T^H C T = C^alpha, T/Tinv Hermitian and mutually inverse, data and pattern maps mutually inverse, identity exactly for alpha>=1, alpha<0 refused, PCA maps inverse on the retained subspace: discharged on the real code for all n>p, all alpha in [0,1], real and complex. Conditioning up to 1e6, the eps cut-off, PCA's leading-subspace property and dask are bounded runs.",
                note="assumed: np.linalg.svd contract + PD lemma, exact inverse, eps cut-off read as 0 under full rank, reals for floats; trusted: proxies (vf/sym/xda.py, nd.py), normaliser, z3; bounded: 110 (quick) / ~330 (thorough) real Whitener/PCA runs",
                ref="5/C16"),
    "C09": dict(level="proof", technique="contract-based deductive verification: real CPCCA._fit_algorithm/_transform_algorithm/_compute_cross_matrix traced with Decomposer replaced by its SVD_k contract and Whitener by its fit contract; normaliser + z3; bounded real cross-set fits as labelled stand-in",
                text="scores1^H scores2/(n-1) = diag(sigma), sigma descending >= 0, norms, orthonormal components, total squared covariance, transform(fit data)=scores and the Pearson-correlation clauses (self-correlation exactly one, cross-correlation = correlation of paired scores) are discharged for all shapes and both fields. Proportionality to the independently whitened cross-covariance, CCA/RDA/Complex/Hilbert variants, PCA pre-reduction, p>n and the pattern methods are evaluated on real fits (bounded).",
                note="assumed: SVD_k (proved under C01), Whitener.fit contract (proved under C16), argsort contract, reals for floats, centred non-degenerate scores for the correlation clauses, statsmodels import stub; bounded: 60 (quick) / ~300 (thorough) real fits",
                ref="5/C09"),
    "C11": dict(level="proof", technique="contract-based deductive verification: real EOFRotator._fit_algorithm/_sort_by_variance/_transform_algorithm traced against the contracts of promax, Decomposer, argsort and the sign multiplier; normaliser + z3; bounded real rotators (single and cross, powers 1-4, refits) as labelled stand-in",
                text="reconstruction invariance for every power, Varimax consequences (unitary R, orthonormal normalised scores, preserved summed explained variance), joint re-ordering of every mode-indexed result by one permutation with descending variance, sign multiplier applied to scores and components alike, transform=scores before and after compute: discharged for all shapes and both fields. The promax/varimax iteration, cross-set rotators, refit histories and the Varimax criterion are bounded runs.",
                note="assumed: promax contract (rotated = loadings R, R invertible / unitary for power 1), SVD_k with s>0, argsort, inverse, sign multiplier; reals for floats; bounded: 60 (quick) / ~140 (thorough) real rotator fits",
                ref="5/C11"),
    "C04": dict(level="proof", technique="contract-based deductive verification (shared traces of EOF/CPCCA/EOFRotator fit+transform algorithms against callee contracts; normaliser + z3) plus bounded evaluation on every transform-capable class",
                text="transform(fit matrix) = scores is discharged for EOF/ComplexEOF, the CPCCA family core and the EOF rotators (all powers, unsorted and sorted state); the preprocessing plumbing, SparsePCA, POP, cross-set rotators (all alpha, PCA on/off) and multi.CCA are evaluated on real models: values, dims, sample labels, mode order and sign.",
                note="assumed: callee contracts as in C01/C09/C11; Preprocessor.transform(X_fit) = fitted matrix is bounded here; reals for floats; bounded: 70 (quick) / ~110 (thorough) real models",
                ref="5/C04"),
    "C15": dict(level="proof", technique="contract-based deductive verification: real Decomposer.fit / _SVD.fit_transform traced on symbolic n_modes fraction, init_rank_reduction, solver string and seed with library back ends as contract stubs; z3 (LIA/LRA, quantified count lemma by induction, strings); bounded real runs as labelled stand-in",
                text="fractional n_modes keeps the smallest sufficient number of precomputed modes (else all, with the warning), n_modes_precompute in [1,rank], every solver string either selects the documented back end or is refused before any work, every randomised back end receives the instance's seed and n_modes_precompute, solver_kwargs reach the back end unchanged through Decomposer, _SVD, SVD and PCA, and both sign functions make a largest-magnitude entry non-negative: discharged for all inputs. Accuracy of randomised solvers (with a spectral gap), bit-identity per seed and acceptance of solver_kwargs by every model class are bounded runs.",
                note="assumed: cumulative sums of non-negative variances are monotone; randomised back ends deterministic in the seed and exact; xr.concat/idxmax/where semantics on one column; integers mathematical, floats real; bounded: 106 (quick) / ~330 (thorough) real runs",
                ref="5/C15"),
    "C17": dict(level="proof", technique="contract-based deductive verification of the refusal contracts (validators over all type cases with symbolic values, rank/solver/alpha/sample-count refusals of the kernels, label selection in reconstruction, item counts with symbolic list length) by symbolic tracing + z3; bounded single-fault injection on real fitted models as labelled stand-in",
                text="each validator and refusal branch returns exactly for valid arguments and raises exactly for invalid ones (pairs 'returns => valid' and 'raises => invalid'), for all values; reconstruction returns only when every mode label of the scores names a model mode. Every public entry point of every model class under the property's single-fault mutations is evaluated on real models (bounded).",
                note="assumed: xarray .sel KeyError semantics and inner-join alignment of xr.dot as modelled; finite type cases enumerated; Stacker/Sanitizer/Scaler checks on transform data are bounded here; known findings: POP ignores n_modes/solver, SparsePCA(n_modes=0); bounded: 155 (quick) / ~330 (thorough) fault injections",
                ref="5/C17"),
    "C13": dict(level="other", technique="contract-based deductive verification of the attribute codec (xeofs.utils.io) by symbolic tracing over arbitrary strings + z3 string theory; whole-model serialisation round trips are bounded run-time evaluations (labelled)",
                text="contracts: part proved, part bounded. Proved for all strings / all values of the sanitised types: _should_desanitize is total and true exactly for the documented patterns, _desanitize_attrs_nc never raises and keeps or decodes each attribute. Bounded: type(m).deserialize(codec(m.serialize())) equals m (params, components, scores, transform, inverse_transform, predict) for 15 model classes x structures (DataArray, NaN masks, Dataset, lists incl. 11 items, MultiIndex) x user attribute dictionaries x three codecs x placeholders x before/after compute/transform, plus serialising a model after a rotator was fitted on it.",
                note="assumed: literal_eval contract; DataTree/xarray internals only exercised (not modelled); no netCDF/zarr engine installed so file I/O itself is out of reach; bounded: 73 (quick) / ~720 (thorough) round trips",
                ref="5/C13"),
    "C14": dict(level="other", technique="contract-based deductive verification: Hoare loop rule (mechanical AST rewrite of the one loop) on the real GenericListTransformer.fit for every list length and pre-state + effect contracts (no mutation of caller-/model-owned arrays) read off the symbolic traces of EOF._fit_algorithm and EOFRotator._fit_algorithm; z3; bounded random call sequences as labelled stand-in",
                text="contracts: part proved, part bounded. Proved: after fit the per-input transformer list has exactly one element per input, all created by this call, element i fitted on input i (all list lengths, any earlier state); the EOF fit does not mutate its input matrix; the EOF rotator fit does not rename, re-attribute or modify in place any array of the base model and leaves its results and labels as they were. Bounded: random sequences over {fit(D_i), transform(D_j), inverse_transform, components, scores, compute, serialize, rotator.fit, bootstrapper.fit} on one object vs a fresh model, for EOF/ComplexEOF/SparsePCA/POP/MCA/CPCCA; user inputs compared with deep copies.",
                note="assumed: transformer classes are represented by a recording stub in the loop-rule proof; termination not proved; observational purity of queries and cross-set/bootstrapper effects only bounded; bounded: 59 (quick) / ~300 (thorough) sequences",
                ref="5/C14"),
    "C05": dict(level="other", technique="contract-based deductive verification: the real Preprocessor chain traced on structural proxies (dims, coordinate identities, provenance, NaN-mask decisions explored exhaustively) for fit / transform(new data) / both score inverse chains; row locality read off the traced terms; bounded relational checks on real models as labelled stand-in",
                text="contracts: part proved, part bounded. Proved for every extent, coordinate content and NaN mask of each structure class (1-2 sample dims, 1-2 feature dims, any dims order, sample MultiIndex, NaN checks on/off, lazy): unseen scores carry the new data's own sample coordinates, are never re-indexed to the training coordinates, and the matrix handed to the model uses statistics of the fitted data only and no operation mixing new samples; the model algorithms are right-multiplications of that matrix. Bounded: concatenation = concatenated transforms for split points, subsets of training samples, repeated / overlapping / disjoint / MultiIndex labels on 9 model classes.",
                note="assumed: xarray structural laws as modelled in vf/sym/ldom.py; DataArray inputs (Dataset/list: bounded); model-level plumbing bounded; bounded: 46 (quick) / 82 (thorough) real models",
                ref="5/C05"),
    "C06": dict(level="other", technique="contract-based deductive verification: the real Sanitizer inside the real Preprocessor chain traced on structural proxies with every NaN-mask-dependent decision explored; obligations on the paths; bounded exhaustive small-mask enumeration against fits on pre-deleted data as labelled stand-in",
                text="contracts: part proved, part bounded. Proved for all extents and masks (1-2 sample dims, standardisation, sample MultiIndex): data with an isolated NaN never passes fit or transform, transform data whose feature mask differs (as seen by the Sanitizer) never passes, the kept block is valid-features x valid-samples of the data itself, dropped labels are re-inserted on every inverse path, check_nans=False drops nothing. Bounded: equality with the model fitted on pre-deleted data (singular values, scores, components, NaN positions of outputs) for every subset of <=2 of 6 features and <=2 of 7 samples, rotated and cross-set models.",
                note="assumed: xarray notnull/any/sum/isin/where/reindex as modelled, skipna statistics; known findings: cross-set missing samples at different positions with equal counts; complete transform data accepted by a model fitted with missing features when centring is on; bounded: 110 (quick) / ~900 (thorough) masks",
                ref="5/C06"),
    "C02": dict(level="other", technique="contract-based deductive verification: the real Preprocessor chain traced on structural proxies over the enumerated structure family, inverse-chain obligations on dims / coordinate identities / index kinds, value identity by z3 on the generic element; bounded round trips on the real code (Datasets, index kinds) as labelled stand-in",
                text="contracts: part proved, part bounded. Proved for all extents and coordinate contents of every enumerated DataArray / list structure (1-3 sample dims x 1-3 feature dims x orders, sample/feature MultiIndex, flags, lists of 2-3): inverse_transform_data(fit_transform(X)) has the input's dims in the input's order, the input's labels per dim, restored index kinds and values equal to X's (z3); components come back with feature dims + mode and the input's feature labels, scores with sample dims + mode; user inputs not mutated. Bounded: Dataset containers (equal/different dim sets), unsorted/string/datetime/MultiIndex coordinates, extra non-index coordinates, custom names, Preprocessor and EOF level.",
                note="assumed: xarray structural laws as modelled (vf/sym/ldom.py); Dataset stacking internals only exercised; known findings: Datasets with variables of different dim sets, lists with the sample dim at different axis positions; bounded: 112 (quick) / ~870 (thorough) round trips",
                ref="5/C02"),
    "C12": dict(level="other", technique="contract-based deductive verification of effect contracts: the real Preprocessor chain, Decomposer.fit, EOF._fit_algorithm, EOFRotator._fit_algorithm and DataContainer.compute traced on lazy proxies whose forcing operations are logged; bounded counting-scheduler runs on real dask-backed fits as labelled stand-in",
                text="contracts: part proved, part bounded. Proved: with a lazy input, compute=False and check_nans=False no force/compute event occurs in the preprocessing chain (4 structure classes), the decomposer (all solver settings; the dask back end receives compute=False), the EOF algorithm and the EOF rotator (power 1 and >1); results stay lazy; input data is stored non-computable; DataContainer.compute is one joint compute over exactly the computable entries. Bounded: chunk layouts x synchronous/threaded scheduler under a counting scheduler for EOF, SparsePCA, ExtendedEOF, MCA, POP, OPA and rotators; equality with the in-memory fit; repeated compute().",
                note="assumed: the forcing table of the proxies; dask evaluates to the same values under any scheduler; BaseModel.compute's serialise/rebuild only exercised; known findings: POP and OPA compute during a deferred fit; bounded: 40 (quick) / 70 (thorough) fits",
                ref="5/C12"),
    "C07": dict(level="other", technique="contract-based deductive verification: name-genericity by tracing the real chain and model algorithms with fresh dimension names, a syntactic contract (AST scan) against hard-coded default names in method bodies, layout independence of the traced preprocessing chain over all dimension orders; bounded relational runs on real models as labelled stand-in",
                text="contracts: part proved, part bounded. Proved: the traced algorithms (preprocessing chain, EOF, ComplexEOF, CPCCA, EOFRotator) run with fresh sample/feature names and return results carrying only those names and 'mode'; no default dimension name occurs as a literal / attribute / keyword inside the method bodies of 22 model, cross-set, rotator, bootstrapper and preprocessing modules; for every permutation of the input dims (3 structure classes) the chain hands the model the same matrix (values per label, sample coordinate) and restores the order on the way back. Bounded: singular values, components at each label and scores under transposition, feature permutation, Dataset / list splitting, custom names and sample permutation for 11 model classes.",
                note="assumed: parametricity in names (collisions with literals the code introduces not explored); SVD equivariance under permutations; known findings: SparsePCA has no sign convention, complex modes are fixed only up to a phase; list items with the sample dim at different positions (C02); bounded: 59 (quick) / 75 (thorough) relational runs",
                ref="5/C07"),
    "C03": dict(level="proof", technique="contract-based deductive verification: real Scaler inside the real chain (z3 on the generic element, 16 flag combinations), real BaseModelSingleSet / BaseModelCrossSet transform/inverse_transform/scores/components with the chain replaced by its contract, real EOF/CPCCA algorithms against SVD_k (full-rank clauses), Whitener/PCA maps; normaliser + z3; bounded real reconstructions as labelled stand-in",
                text="inverse_transform_data(transform(X)) = X and the direct Scaler postcondition for all 16 combinations of centring/standardisation/latitude weights/user weights; full-mode reconstruction from the model's own scores = the fitted matrix for EOF/ComplexEOF; transform(inverse_transform(s)) = s for arbitrary scores for EOF/ComplexEOF and the CPCCA family (real/complex, alpha=1 and whitened, X-only / Y-only / both, PCA included); normalized switches of scores/components/transform/inverse_transform = the per-mode norms; Whitener/PCA maps inverse. Hilbert models, cross-set exact reconstruction and the whole public path are bounded runs.",
                note="assumed: Preprocessor = identity on 2-d matrices at the model level (proved structurally under C02/C05), SVD_k (C01), PCA/Whitener fit contracts (C16), std/coslat > 0 and weights != 0, reals for floats; bounded: 58 (quick) / ~100 (thorough) real models",
                ref="5/C03"),
}
NA_REASON = "no check registered yet in this snapshot of /verif (build in progress; see DESIGN.md section 5 for the plan)"


def main():
    ids = [json.loads(l)["id"] for l in open(os.path.join(ROOT, "properties.jsonl"))]
    checks, na = [], []
    for i in ids:
        if os.path.exists(os.path.join(ROOT, "props", f"{i}.py")) and i in META:
            m = META[i]
            checks.append({
                "property_id": i,
                "quick_cmd": f"./check {i} --tier quick",
                "thorough_cmd": f"./check {i} --tier thorough",
                "evidence_file": f"/verif/evidence/{i}.json",
                "replay_cmd_template": f"./check {i} --replay {{path}}",
                "engine": "symtrace",
                "level_claimed": {"category": m["level"], "text": m["text"], "design_ref": m["ref"]},
                "level_note": m["note"],
                "technique": m["technique"],
            })
        else:
            na.append({"property_id": i, "reason": META.get(i, {}).get("na", NA_REASON)})
    man = {
        "version": 1,
        "setup_cmd": "./setup.sh",
        "hooks": {"guard": "XEOFS_VERIF", "enable": "none needed: contracts, stubs and instrumentation are sidecar monkey-patches inside the check process; /repo carries no hook code",
                  "baseline_off_cmd": "cd /repo && /venv/bin/python -m pytest -ra -q -p no:cacheprovider --timeout=900 --continue-on-collection-errors",
                  "source_commits": [], "add_only": True},
        "engines": [{"name": "symtrace", "path": "/verif/vf", "serves_properties": [c["property_id"] for c in checks],
                     "kind_free_text": "contract-based deductive verification by symbolic execution of the real Python functions on proxy values (callees replaced by contract stubs), obligations discharged by a matrix-term normaliser and z3; plus bounded run-time evaluation of the same contract clauses on the real code (replay harness)"}],
        "checks": checks,
        "not_applicable": na,
        "notes": "exit codes: 0 held, 1 VIOLATION (replay file written), 2 UNDECIDED (function left the supported subset / obligation not in baseline undischarged), 3 checker error. Known findings: /verif/known_findings.json.",
    }
    json.dump(man, open(os.path.join(ROOT, "MANIFEST.json"), "w"), indent=1)
    print(f"MANIFEST.json: {len(checks)} checks, {len(na)} not_applicable")


if __name__ == "__main__":
    main()

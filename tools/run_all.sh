#!/bin/sh
# run every registered quick check on the current tree (evidence is rewritten); prints one summary line per property
cd /verif
for c in $(/venv/bin/python -c "import json;print(' '.join(x['property_id'] for x in json.load(open('MANIFEST.json'))['checks']))"); do
  ./check $c --tier "${1:-quick}" 2>&1 | grep -E "^(VIOLATION|UNDECIDED|KNOWN|CHECKER|C[0-9]+:)" | cut -c1-200 | tail -3
done
